"""C18 — extension session 5: cells for the class-specific roots (Lean: ModelRoots.lean), the BatchRepeat member map,
sampler shapes with size-1 / repeat-added batch dims, and the preconditioned CIQ algebra (ProofsPrecond.lean).

(R) `roots`  : exact correspondence of the root each override hands to the sampler with the Lean model (`cholRoot`,
               `scaleCols`, `repeatMember`), R R^T = dense covariance (spec), and the sampler's recovered map L L^T = covariance.
(S) `shapes` : (k, *batch, n) for batch shapes with size-1 dims, k in {1, 2}, vs the Lean shape functions.
(P) `precond`: called from the catalogue sweep for `ciq-precond` cases (see `precond_tie`).
All random choices derive from (VERIF_SEED, cell id)."""
import random
import warnings

import torch

from .c18_gaps import block_diag_of, recover_map, rel_err


def _rng(chk, cell):
    return random.Random(f"C18:{chk.seed}:{cell}")


def _ri(rng, shape, lo, hi):
    n = 1
    for s in shape:
        n *= s
    return torch.tensor([float(rng.randint(lo, hi)) for _ in range(n)], dtype=torch.float64).reshape(shape)


def _psd(rng, batch, n):
    W = _ri(rng, (*batch, n, n), -2, 2)
    return W @ W.mT + n * torch.eye(n, dtype=torch.float64)


def _csv(t):
    return ",".join(str(int(v)) for v in t) if len(t) else "-"


def _fr(v):
    from fractions import Fraction
    f = Fraction(float(v))
    return str(f.numerator) if f.denominator == 1 else f"{f.numerator}/{f.denominator}"


def ext_cases(chk, noise, settings, only, lines, expect, mat_line):
    from linear_operator.operators import (BatchRepeatLinearOperator, CholLinearOperator, ConstantDiagLinearOperator,
                                           DenseLinearOperator, KroneckerProductLinearOperator, TriangularLinearOperator)
    quick = chk.tier == "quick"
    batches = [(), (2,)] if quick else [(), (2,), (1,), (2, 1)]
    sizes = [3] if quick else [3, 4, 2]

    def sampler_cov(cell, op, A, tol, pay):
        L, why, _ = recover_map(op, noise)
        if L is None:
            chk.violation(cell + "/affine", why, pay)
            return
        err = rel_err(L @ L.T, block_diag_of(A))
        if not err <= tol:
            chk.violation(cell + "/covariance", f"sampler L L^T differs from the covariance: rel err {err:.3e} (tol {tol})", pay)
        else:
            chk.traces_validated += 1

    def root_spec(cell, R, A, tol, pay):
        err = rel_err(R.double() @ R.double().mT, A)
        if not err <= tol:
            chk.violation(cell + "/root", f"root R R^T differs from the represented matrix: rel err {err:.3e} (tol {tol})", pay)
            return False
        return True

    for batch in batches:
        for n in sizes:
            members = int(torch.Size(batch).numel()) if batch else 1
            # ---- (R1) Chol, both orientations
            for upper in (False, True):
                cell = f"C18/roots/Chol[{'upper' if upper else 'lower'}|b={batch}|n={n}]"
                if only and only != cell:
                    continue
                rng = _rng(chk, cell)
                pay = {"cell": cell, "seed": chk.seed, "tier": chk.tier}
                T = torch.tril(_ri(rng, (*batch, n, n), -2, 2), -1) + torch.diag_embed(_ri(rng, (*batch, n), 1, 3))
                if upper:
                    T = T.mT.contiguous()
                A = (T.mT @ T) if upper else (T @ T.mT)
                try:
                    op = CholLinearOperator(TriangularLinearOperator(T.clone(), upper=upper), upper=upper)
                    chk.case(cell, nontrivial=True)
                    chk.count("roots:chol")
                    if rel_err(op.to_dense().double(), A) > 0:
                        chk.violation(cell + "/dense", "CholLinearOperator.to_dense differs from T T^T / T^T T", pay)
                        continue
                    R = op.root_decomposition().root.to_dense()
                    if root_spec(cell, R, A, 0.0, pay):
                        for mi in range(members):
                            lines.append(f"cholRoot {n} {1 if upper else 0} {mat_line(T.reshape(members, n, n)[mi])}")
                            expect.append((cell, R.reshape(members, n, n)[mi].double(), 0.0))
                    sampler_cov(cell, op, A, 1e-12, pay)
                except Exception as e:
                    noise.stop()
                    chk.violation(cell + "/exception", f"{type(e).__name__}: {str(e)[:300]}", pay)
            # ---- (R2) symeig root = _scale_columns(evecs, sqrt(evals))
            cell = f"C18/roots/Dense[symeig|b={batch}|n={n}]"
            if not only or only == cell:
                rng = _rng(chk, cell)
                pay = {"cell": cell, "seed": chk.seed, "tier": chk.tier}
                A = _psd(rng, batch, n)
                try:
                    op = DenseLinearOperator(A.clone())
                    chk.case(cell, nontrivial=True)
                    chk.count("roots:symeig")
                    R = op.root_decomposition(method="symeig").root.to_dense()
                    evals, evecs = op._symeig(eigenvectors=True)
                    U = evecs.to_dense() if hasattr(evecs, "to_dense") else evecs
                    s = evals.clamp_min(0.0).sqrt()
                    if root_spec(cell, R, A, 1e-10, pay):
                        for mi in range(members):
                            lines.append(f"scaleCols {n} {n} {','.join(_fr(v) for v in s.reshape(members, n)[mi].tolist())} {mat_line(U.reshape(members, n, n)[mi])} .")
                            expect.append((cell, R.reshape(members, n, n)[mi].double(), 1e-12))
                except Exception as e:
                    chk.violation(cell + "/exception", f"{type(e).__name__}: {str(e)[:300]}", pay)
            # ---- (R3) KroneckerProductAddedDiag with a constant diagonal above max_cholesky_size: Q diag(sqrt(evals + c))
            cell = f"C18/roots/KroneckerAddedDiag[const|b={batch}|n=2x{n}]"
            if not only or only == cell:
                rng = _rng(chk, cell)
                pay = {"cell": cell, "seed": chk.seed, "tier": chk.tier}
                K1, K2 = _psd(rng, batch, 2), _psd(rng, batch, n)
                c = float(rng.randint(1, 3))
                N = 2 * n
                A = torch.stack([torch.kron(a, b) for a, b in zip(K1.reshape(-1, 2, 2), K2.reshape(-1, n, n))]).reshape(*batch, N, N) \
                    + c * torch.eye(N, dtype=torch.float64)
                try:
                    with settings.max_cholesky_size(0), warnings.catch_warnings():
                        warnings.simplefilter("ignore")
                        op = KroneckerProductLinearOperator(DenseLinearOperator(K1.clone()), DenseLinearOperator(K2.clone())) + \
                            ConstantDiagLinearOperator(torch.full((*batch, 1), c, dtype=torch.float64), diag_shape=N)
                        chk.case(cell, nontrivial=True)
                        chk.count("roots:kronadd:" + type(op).__name__)
                        root = op.root_decomposition().root
                        R = root.to_dense()
                        if root_spec(cell, R, A, 1e-9, pay):
                            parts = getattr(root, "_args", ())
                            if type(root).__name__ == "MatmulLinearOperator" and len(parts) == 2 and type(parts[1]).__name__ == "DiagLinearOperator":
                                Q, s = parts[0].to_dense(), parts[1]._diag
                                Q = Q.expand(*batch, N, N)
                                s = s.expand(*batch, N)
                                for mi in range(members):
                                    lines.append(f"scaleCols {N} {N} {','.join(_fr(v) for v in s.reshape(members, N)[mi].tolist())} {mat_line(Q.reshape(members, N, N)[mi])} .")
                                    expect.append((cell, R.reshape(members, N, N)[mi].double(), 1e-12))
                                err = rel_err(Q.double() @ Q.double().mT, torch.eye(N, dtype=torch.float64).expand(*batch, N, N))
                                if err > 1e-9:
                                    chk.violation(cell + "/root", f"q_matrix is not orthogonal (rel err {err:.2e}): hypothesis of kronAddedDiag_cov", pay)
                            else:
                                chk.corr_break(cell + "/layout", f"root above max_cholesky_size is {type(root).__name__}({[type(p).__name__ for p in parts]}), model expects Matmul(Q, Diag)", pay)
                        sampler_cov(cell, op, A, 1e-8, pay)
                except Exception as e:
                    noise.stop()
                    chk.violation(cell + "/exception", f"{type(e).__name__}: {str(e)[:300]}", pay)
    # ---- (R6) ConstantMul inverse root (/repo c4c33aa): c^-1/2 x base inverse root, scalar and batch constants, paired with the root
    from linear_operator.operators import ConstantMulLinearOperator as _CMul
    for batch in batches:
        for ckind in ("scalar", "batchc"):
            for pre in ("none", "diagonalization"):
                n = 3
                cell = f"C18/roots/ConstantMul[rootinv|b={batch}|c={ckind}|n={n}]/pre={pre}"
                if only and only != cell:
                    continue
                if ckind == "batchc" and not batch:
                    continue
                rng = _rng(chk, cell)
                pay = {"cell": cell, "seed": chk.seed, "tier": chk.tier}
                members = int(torch.Size(batch).numel()) if batch else 1
                A0 = _psd(rng, batch, n)
                c = _ri(rng, batch if ckind == "batchc" else (), 2, 5)
                A = A0 * c.reshape(*c.shape, 1, 1)
                try:
                    with warnings.catch_warnings():
                        warnings.simplefilter("ignore")
                        op = _CMul(DenseLinearOperator(A0.clone()), c.clone())
                        chk.case(cell, nontrivial=True)
                        chk.count("roots:constmul-rootinv")
                        if pre != "none":
                            getattr(op, pre)()
                        Ri = op.root_inv_decomposition().root.to_dense()
                        R = op.root_decomposition().root.to_dense()
                        Ri0 = op.base_linear_op.root_inv_decomposition().root.to_dense()
                        eye = torch.eye(n, dtype=torch.float64).expand(*batch, n, n)
                        errI = rel_err(Ri.double() @ Ri.double().mT, torch.linalg.inv(A))
                        errP = rel_err(Ri.double().mT @ R.double(), eye) if R.shape == Ri.shape else float("inf")
                        if errI > 1e-9:
                            chk.violation(cell + "/rootinv", f"inverse root Ri Ri^T differs from (cA)^-1: rel err {errI:.2e}", pay)
                        elif errP > 1e-9:
                            chk.violation(cell + "/paired", f"cached root and inverse root are not mutual inverses: |Ri^T R - I| = {errP:.2e} (add_low_rank / cat_rows combine them)", pay)
                        elif Ri0.shape[-2:] == Ri.shape[-2:]:
                            m = Ri.shape[-1]
                            isc = (c ** -0.5).expand(batch).reshape(members)
                            Ri0m = Ri0.expand(*batch, n, m).reshape(members, n, m)
                            for mi in range(members):
                                lines.append(f"constMulRootInv {n} {m} {_fr(isc[mi])} {mat_line(Ri0m[mi])}")
                                expect.append((cell, Ri.reshape(members, n, m)[mi].double(), 1e-12))
                        else:
                            chk.corr_break(cell + "/layout", f"inverse root {tuple(Ri.shape)} vs base inverse root {tuple(Ri0.shape)}", pay)
                        # the derivations that combine the two roots draw correctly
                        V = _ri(rng, (*batch, n, 2), -2, 2)
                        sampler_cov(cell, op.add_low_rank(V), A + V @ V.mT, 1e-8, pay)
                except Exception as e:
                    noise.stop()
                    chk.violation(cell + "/exception", f"{type(e).__name__}: {str(e)[:300]}", pay)
    # ---- (R5) SumKronecker `_root_decomposition` = lt2_root.matmul(inner_mat_root) (Lean: mmul / sumKron_cov), default settings
    from .. import catalogue
    from linear_operator.operators import KroneckerProductLinearOperator as _Kron
    for batch in batches:
        cell = f"C18/roots/SumKronecker[b={batch}|n=6]"
        if only and only != cell:
            continue
        rng = _rng(chk, cell)
        pay = {"cell": cell, "seed": chk.seed, "tier": chk.tier}
        members = int(torch.Size(batch).numel()) if batch else 1
        for it in catalogue.instances(rng, torch.float64, batch, 3, psd=True, depth=1):
            if it.name != "SumKronecker":
                continue
            try:
                with warnings.catch_warnings():
                    warnings.simplefilter("ignore")
                    op = it.build()
                    A = it.dense.double()
                    N = A.shape[-1]
                    chk.case(cell, nontrivial=True)
                    chk.count("roots:sumkron")
                    R = op._root_decomposition()
                    R = R.to_dense() if hasattr(R, "to_dense") else R
                    lt2 = _Kron(*[lt.root_decomposition().root for lt in op.linear_ops[1].linear_ops]).to_dense()
                    inner = op._sum_formulation.root_decomposition().root.to_dense()
                    if root_spec(cell, R, A, 1e-9, pay):
                        if lt2.shape[-2:] == (N, N) and inner.shape[-2] == N and tuple(R.shape) == (*batch, N, inner.shape[-1]):
                            m = inner.shape[-1]
                            for mi in range(members):
                                lines.append(f"mmul {N} {N} {m} {mat_line(lt2.expand(*batch, N, N).reshape(members, N, N)[mi])} "
                                             f"{mat_line(inner.expand(*batch, N, m).reshape(members, N, m)[mi])}")
                                expect.append((cell, R.reshape(members, N, m)[mi].double(), 1e-12))
                            K2 = op.linear_ops[1].to_dense().double()
                            if rel_err(lt2.double() @ lt2.double().mT, K2) > 1e-9:
                                chk.violation(cell + "/root", "Kronecker product of the factor roots of the second summand is not a root of it (hypothesis of sumKron_cov)", pay)
                        else:
                            chk.corr_break(cell + "/layout", f"root {tuple(R.shape)}, lt2_root {tuple(lt2.shape)}, inner root {tuple(inner.shape)}", pay)
                    sampler_cov(cell, it.build(), A, 1e-8, pay)
            except Exception as e:
                noise.stop()
                chk.violation(cell + "/exception", f"{type(e).__name__}: {str(e)[:300]}", pay)
    # ---- (R4) BatchRepeat: member f of the repeated root reads base member repeatMember(f)
    reps_list = [((2,), (3,)), ((2,), (3, 1)), ((2, 1), (3, 2)), ((), (2,)), ((1,), (2,))]
    if not quick:
        reps_list += [((2, 3), (1, 2)), ((3,), (2, 2, 1)), ((), (2, 1, 3))]
    for base_b, reps in reps_list:
        for ctx in ("default", "lanczos"):
            n = 3
            cell = f"C18/roots/BatchRepeat[base={base_b}|rep={reps}|n={n}]/{ctx}"
            if only and only != cell:
                continue
            rng = _rng(chk, cell)
            pay = {"cell": cell, "seed": chk.seed, "tier": chk.tier}
            A0 = _psd(rng, base_b, n)
            A = A0.repeat(*reps, 1, 1)
            out_b = tuple(A.shape[:-2])
            try:
                with (settings.max_cholesky_size(0) if ctx == "lanczos" else settings.max_cholesky_size(800)), warnings.catch_warnings():
                    warnings.simplefilter("ignore")
                    seed = rng.randrange(2 ** 31)
                    op = BatchRepeatLinearOperator(DenseLinearOperator(A0.clone()), torch.Size(reps))
                    chk.case(cell, nontrivial=True)
                    chk.count("roots:batchrepeat")
                    if tuple(op.shape) != (*out_b, n, n) or rel_err(op.to_dense().double(), A) > 0:
                        chk.violation(cell + "/dense", f"BatchRepeat shape {tuple(op.shape)} / dense differ from tensor.repeat {tuple(A.shape)}", pay)
                        continue
                    torch.manual_seed(seed)
                    R = op.root_decomposition().root.to_dense()
                    torch.manual_seed(seed)
                    R0 = DenseLinearOperator(A0.clone()).root_decomposition().root.to_dense()
                    tolr = 1e-6 if ctx == "lanczos" else 1e-12
                    if root_spec(cell, R, A, tolr, pay):
                        m = R.shape[-1]
                        nm, nm0 = int(torch.Size(out_b).numel()), int(torch.Size(base_b).numel()) if base_b else 1
                        if tuple(R.shape[:-2]) == out_b and R0.shape[-1] == m and tuple(R0.shape[:-2]) == tuple(base_b):
                            lines.append(f"repeatMember {_csv(base_b)} {_csv(reps)} {_csv(range(nm))}")
                            # the model's answer selects base members; the expected row is checked below through `want_idx`
                            Rm, R0m = R.reshape(nm, n, m), R0.reshape(nm0, n, m)
                            idx = []
                            for f in range(nm):
                                hits = [g for g in range(nm0) if rel_err(Rm[f], R0m[g]) <= 1e-9]
                                idx.append(hits)
                            expect.append((cell, ("members", idx), 0.0))
                            lines.append(f"repeatShape {_csv(base_b)} {_csv(reps)}")
                            expect.append((cell, torch.tensor([[float(v) for v in out_b]], dtype=torch.float64), 0.0))
                        else:
                            chk.corr_break(cell + "/layout", f"root batch {tuple(R.shape[:-2])} (base root {tuple(R0.shape[:-2])}), model expects {out_b}", pay)
                    k = rng.choice([1, 2])
                    noise.start("stream", lambda p: float(((p * 7 + 3) % 5) - 2))
                    x = op.zero_mean_mvn_samples(k)
                    noise.stop()
                    if tuple(x.shape) != (k, *out_b, n):
                        chk.violation(cell + "/shape", f"samples shape {tuple(x.shape)}, expected {(k, *out_b, n)}", pay)
                        continue
                    sampler_cov(cell, op, A, tolr, pay)
            except Exception as e:
                noise.stop()
                chk.violation(cell + "/exception", f"{type(e).__name__}: {str(e)[:300]}", pay)
    shape_cases(chk, noise, settings, only, lines, expect)


def shape_cases(chk, noise, settings, only, lines, expect):
    """(S) shapes with size-1 batch dims: (k, *batch, n) for every catalogue class, default and CIQ samplers."""
    from .. import catalogue
    quick = chk.tier == "quick"
    batches = [(1,), (2, 1)] if quick else [(1,), (2, 1), (1, 2), (1, 1)]
    for batch in batches:
        irng = random.Random(f"C18:{chk.seed}:shape-insts:{batch}")
        try:
            insts = list(catalogue.instances(irng, torch.float64, batch, 3, psd=True, depth=1))
        except Exception as e:
            chk.count("shape_catalogue_unsupported_batch")
            continue
        for it in insts:
            for cfg in ("default", "ciq"):
                if cfg == "ciq" and (quick and it.name not in ("Dense[psd]", "Diag", "Kronecker", "Toeplitz", "BlockDiag")):
                    continue
                for k in (1, 2):
                    cell = f"C18/shapes/{it.name}[b={batch}|n=3]/{cfg}/k={k}"
                    if only and only != cell:
                        continue
                    pay = {"cell": cell, "seed": chk.seed, "tier": chk.tier}
                    try:
                        with (settings.ciq_samples(True) if cfg == "ciq" else settings.ciq_samples(False)), warnings.catch_warnings():
                            warnings.simplefilter("ignore")
                            torch.manual_seed(irng.randrange(2 ** 31))
                            op = it.build()
                            A = it.dense
                            ob, n = tuple(A.shape[:-2]), A.shape[-1]
                            noise.start("stream", lambda p: float(((p * 7 + 3) % 5) - 2))
                            x = op.zero_mean_mvn_samples(k)
                            calls = list(noise.calls)
                            noise.stop()
                        chk.case(cell, nontrivial=True)
                        chk.count("shapes:" + cfg)
                        if tuple(x.shape) != (k, *ob, n):
                            chk.violation(cell + "/shape", f"samples shape {tuple(x.shape)}, expected {(k, *ob, n)}", pay)
                            continue
                        from linear_operator.operators import LinearOperator
                        generic = type(op).zero_mean_mvn_samples is LinearOperator.zero_mean_mvn_samples
                        if cfg == "ciq" and generic and len(calls) == 1:
                            lines.append(f"samplerShape ciq {_csv(ob)} {n} {k} 7")
                            expect.append((cell, torch.tensor([[float(v) for v in x.shape]], dtype=torch.float64), 0.0))
                            if calls[0][0] != (*ob, n, k):
                                chk.corr_break(cell + "/layout", f"CIQ sampler drew noise {calls[0][0]}, model expects {(*ob, n, k)}", pay)
                        elif type(op).__name__ in ("DiagLinearOperator", "ConstantDiagLinearOperator") and len(calls) == 1:
                            lines.append(f"samplerShape diag {_csv(ob)} {n} {k} 0")
                            expect.append((cell, torch.tensor([[float(v) for v in x.shape]], dtype=torch.float64), 0.0))
                            if calls[0][0] != (k, *ob, n) and calls[0][0] != (k, *ob, 1):
                                chk.corr_break(cell + "/layout", f"Diag sampler drew noise {calls[0][0]}, model expects {(k, *ob, n)}", pay)
                        else:
                            chk.traces_validated += 1
                    except Exception as e:
                        noise.stop()
                        chk.violation(cell + "/exception", f"{type(e).__name__}: {str(e)[:300]}", pay)


def precond_tie(chk, noise, op, A, k, batch, n, members, cell):
    """(P) CIQ with an active preconditioner.  Records the outer contour_integral_quad result (weights w_q, shifts s_q), the rhs
    handed to the outer msMINRES (= S z, S the map of sqrt_precond_matmul) and the preconditioner operator P, and checks
      draws = sum_q w_q K (s_q P - K)^-1 (S z)      (the operator of theorem ciqPrecond_operator / ciqPrecond_linear), and
      S S^T = P                                      (hypothesis hS of ciqPrecond_cov; tolerance of the nested quadrature)."""
    import importlib
    cq = importlib.import_module("linear_operator.utils.contour_integral_quad")
    real_c, real_m, rec, rhs_rec, depth = cq.contour_integral_quad, cq.minres, [], [], [0]

    def spy(*a, **kw):
        depth[0] += 1
        try:
            res = real_c(*a, **kw)
        finally:
            depth[0] -= 1
        if depth[0] == 0:
            rec.append(res)
        return res

    def spy_m(mm, rhs, *a, **kw):
        rhs_rec.append((depth[0], rhs.clone()))
        return real_m(mm, rhs, *a, **kw)

    pay = {"cell": cell, "seed": chk.seed, "tier": chk.tier}
    cq.contour_integral_quad, cq.minres = spy, spy_m
    try:
        noise.start("stream", lambda p: float(((p * 7 + 3) % 5) - 2))
        x = op.zero_mean_mvn_samples(k)
        noise.stop()
        outer = [r for d, r in rhs_rec if d == 1]
        res = list(rec)
        # S by one-hot noise (k = 1): the rhs of the outer minres
        S = torch.zeros(members * n, members * n, dtype=torch.float64)
        for j in range(members * n):
            rhs_rec.clear()
            noise.start("stream", lambda p, j=j: 1.0 if p == j else 0.0)
            op.zero_mean_mvn_samples(1)
            noise.stop()
            o = [r for d, r in rhs_rec if d == 1]
            if len(o) != 1:
                chk.corr_break(cell + "/precond", f"outer msMINRES called {len(o)} times", pay)
                return
            S[:, j] = o[0].reshape(-1).double()
    finally:
        noise.stop()
        cq.contour_integral_quad, cq.minres = real_c, real_m
    pre = op.evaluate_kernel()._preconditioner()
    if pre[1] is None:
        chk.count("precond_inactive")
        return
    chk.count("tie:ciq-precond")
    if len(res) != 1 or len(outer) != 1:
        chk.corr_break(cell + "/precond", f"contour_integral_quad top-level calls {len(res)}, outer msMINRES calls {len(outer)}", pay)
        return
    P = pre[1].to_dense().double().expand(*batch, n, n).reshape(members, n, n)
    _, weights, _, shifts = res[0]
    Q = weights.shape[0]
    if tuple(weights.shape) == (Q, k, *batch, 1, 1):
        weights = weights[:, 0]
    if tuple(shifts.shape) == (Q + 1, k, *batch):
        shifts = shifts[:, 0]
    if weights.numel() != Q * members or shifts.numel() != (Q + 1) * members or tuple(outer[0].shape) != (k, *batch, n, 1):
        chk.corr_break(cell + "/precond", f"weights {tuple(weights.shape)} shifts {tuple(shifts.shape)} rhs {tuple(outer[0].shape)}", pay)
        return
    w_m = weights.reshape(Q, members).double()
    s_m = shifts.reshape(Q + 1, members)[1:].double()
    K_m = A.reshape(members, n, n)
    rhs_m = outer[0].reshape(k, members, n).double()
    x_m = x.reshape(k, members, n).double()
    worst = 0.0
    for mi in range(members):
        Rq = sum(w_m[q, mi] * (K_m[mi] @ torch.linalg.inv(s_m[q, mi] * P[mi] - K_m[mi])) for q in range(Q))
        want = rhs_m[:, mi] @ Rq.mT
        worst = max(worst, rel_err(x_m[:, mi], want))
    if worst > 1e-4:
        chk.corr_break(cell + "/precond-operator", f"draws differ from sum_q w_q K (s_q P - K)^-1 (S z): rel err {worst:.2e}", pay)
    else:
        chk.traces_validated += 1
    errS = rel_err(S @ S.T, torch.block_diag(*[p for p in P]))
    if errS > 2e-2:
        chk.violation(cell + "/precond-sqrt", f"sqrt_precond_matmul map S: S S^T differs from the preconditioner P: rel err {errS:.2e} (tol 2e-2)", pay)
    else:
        chk.traces_validated += 1
