"""C01 Part IV — batch-dimension structure (implementation vs. independent dense definition).

Every class of the catalogue is instantiated with THREE batch dimensions of pairwise different sizes (so a mis-permuted /
mis-expanded batch shows up in the shape, not only in the values), plus CatLinearOperators concatenated along EVERY batch
position (positive and negative `dim`, 2-3 pieces of unequal size, pieces of different classes), BatchRepeat with several
repeated / outer batch dims and Block*/SumBatch over such bases.  On each of them the batch transformations that dispatch to
the per-class overrides `_permute_batch`, `_expand_batch`, `_unsqueeze_batch`, `_getitem`, `_sum_batch` are applied:

  permute (every non-identity batch permutation, in particular the NON-self-inverse cyclic shifts; positive and negative
  dims), transpose of two batch dims, unsqueeze (every position, both sign forms), expand (of an unsqueezed inner dim, of a new
  leading dim), batch indexing (int / slice / tensor index at every batch position), sum over a batch dim, repeat,
  BlockDiag / BlockInterleaved / SumBatch with every `block_dim`, the 18 generic catalogue wrappers, and two-step compositions
  (wrapper of a permuted operator, permute of a wrapper).

The transformed operator is compared (shape AND value, exact) with the same torch transformation of the dense tensor:
shape, batch_shape, to_dense, base-class to_dense, mT.to_dense, op @ {1-D, same-batch, broadcasting rhs}, _matmul, mT @,
_t_matmul, x @ op, rmatmul.
"""
import itertools
import random
import warnings

import torch

from .. import catalogue as cat

# classes that override one of _permute_batch / _expand_batch / _unsqueeze_batch / _getitem (prefix of the instance name):
# these get the full transformation list; all other instances get the priority list + a seed-chosen sample
STRUCTURED = ("Cat", "BatchRepeat", "Block", "SumBatch", "Kronecker", "SumKronecker", "Interpolated", "Zero", "Identity", "ConstantDiag",
              "Diag", "Masked", "ConstantMul", "Matmul", "Kernel", "KeOps", "Mul", "Root", "LowRankRoot", "Chol", "Sum", "PsdSum", "Toeplitz",
              "Triangular", "Dense", "AddedDiag", "UserMinimal")
HEAVY = ("Cat[", "BatchRepeat", "BlockDiag", "BlockInterleaved", "SumBatch", "Kronecker", "Interpolated", "Zero", "Identity", "Masked",
         "ConstantMul", "Matmul", "Kernel")


def _shapes3(rng):
    """three pairwise different batch sizes in a seed-chosen order"""
    s = rng.choice([(2, 3, 4), (2, 3, 4), (2, 4, 3), (3, 2, 4), (3, 4, 2), (4, 2, 3), (4, 3, 2)])
    return tuple(s)


def _split(rng, k):
    """sizes of 2-3 unequal-when-possible pieces along the concatenated dim"""
    if k == 2:
        return (1, 1)
    if k == 3:
        return rng.choice([(1, 2), (2, 1), (1, 1, 1)])
    return rng.choice([(1, 3), (3, 1), (1, 2, 1), (2, 1, 1), (1, 1, 2)])


# ----------------------------------------------------------------------------------------------- extra bases
def extra_bases(rng, dtype, S, n):
    """Cat along each batch position (both sign forms), multi-dim BatchRepeat — all with batch shape S."""
    from linear_operator.operators import (
        BatchRepeatLinearOperator, CatLinearOperator, ConstantMulLinearOperator, DenseLinearOperator, DiagLinearOperator,
        KroneckerProductLinearOperator, RootLinearOperator, SumLinearOperator, IdentityLinearOperator, ZeroLinearOperator,
    )
    out = []
    nb = len(S)

    def add(name, make, tags=()):
        out.append(cat.Inst(name, make, tags=tags))

    def piece(kind, t):
        """a linear operator of the given class whose dense value is `dense(kind, t)`"""
        if kind == "Dense":
            return DenseLinearOperator(t)
        if kind == "Diag":
            return DiagLinearOperator(t[..., 0, :])
        if kind == "Sum":
            return SumLinearOperator(DenseLinearOperator(t), DiagLinearOperator(t[..., 0, :]))
        if kind == "ConstantMul":
            return ConstantMulLinearOperator(DenseLinearOperator(t), t[..., 0, 0])
        if kind == "Root":
            return RootLinearOperator(t)
        if kind == "Kronecker":
            return KroneckerProductLinearOperator(DenseLinearOperator(t[..., :1, :1]), DenseLinearOperator(t))
        raise KeyError(kind)

    def pdense(kind, t):
        if kind == "Dense":
            return t
        if kind == "Diag":
            return torch.diag_embed(t[..., 0, :])
        if kind == "Sum":
            return t + torch.diag_embed(t[..., 0, :])
        if kind == "ConstantMul":
            return t * t[..., :1, :1]
        if kind == "Root":
            return t @ t.mT
        if kind == "Kronecker":
            return t[..., :1, :1] * t
        raise KeyError(kind)

    kinds_sq = ["Dense", "Diag", "Sum", "ConstantMul", "Root", "Kronecker"]
    for d in range(nb):
        sizes = _split(rng, S[d])
        for form, dim in (("", d), ("neg", d - (nb + 2))):
            # square pieces of seed-chosen classes (at least one non-dense)
            ks = [rng.choice(kinds_sq) for _ in sizes]
            if all(k == "Dense" for k in ks):
                ks[rng.randrange(len(ks))] = rng.choice(kinds_sq[1:])
            ts = [cat.ri(rng, (*S[:d], sz, *S[d + 1:], n, n), -2, 2, dtype) for sz in sizes]
            Dn = torch.cat([pdense(k, t) for k, t in zip(ks, ts)], d)
            add(f"Cat[batch{d}{form}|{len(sizes)}]({','.join(ks)})",
                lambda c, ks=ks, ts=ts, Dn=Dn, dim=dim: (lambda tt: (CatLinearOperator(*[piece(k, t) for k, t in zip(ks, tt)], dim=dim), Dn, tt))([c(t) for t in ts]))
        # rectangular dense pieces
        tr = [cat.ri(rng, (*S[:d], sz, *S[d + 1:], n, n + 1), -3, 3, dtype) for sz in sizes]
        add(f"Cat[batch{d}|rect]", lambda c, tr=tr, d=d: (lambda tt: (CatLinearOperator(*[DenseLinearOperator(t) for t in tt], dim=d), torch.cat(tr, d), tt))([c(t) for t in tr]), tags=("rect",))
    # Cat along a batch dim whose pieces are themselves Cats (rows) / a Cat along ANOTHER batch dim
    d0, d1 = 0, nb - 1
    sz0, sz1 = _split(rng, S[d0])[:2], _split(rng, S[d1])[:2]
    sz0 = (sz0[0], S[d0] - sz0[0])
    sz1 = (sz1[0], S[d1] - sz1[0])
    grid = [[cat.ri(rng, (sz0[i], *S[1:nb - 1], sz1[j], n, n), -3, 3, dtype) for j in range(2)] for i in range(2)]
    Dg = torch.cat([torch.cat(row, d1) for row in grid], d0)
    add("Cat[batch0](Cat[batch-1],Cat[batch-1])",
        lambda c, grid=grid: (lambda g: (CatLinearOperator(*[CatLinearOperator(*[DenseLinearOperator(t) for t in row], dim=d1) for row in g], dim=d0), Dg, [t for row in g for t in row]))
        ([[c(t) for t in row] for row in grid]))
    # ---- BatchRepeat with several repeated dims / outer dims
    A2 = cat.ri(rng, (*S[1:], n, n), -3, 3, dtype)
    add("BatchRepeat[outer1]", lambda c, a=A2: (lambda t: (BatchRepeatLinearOperator(DenseLinearOperator(t), batch_repeat=torch.Size((S[0], 1, 1))), a.repeat(S[0], 1, 1, 1, 1), [t]))(c(a)))
    A1 = cat.ri(rng, (S[-1], n, n + 1), -3, 3, dtype)
    add("BatchRepeat[outer2|rect]", lambda c, a=A1: (lambda t: (BatchRepeatLinearOperator(DenseLinearOperator(t), batch_repeat=torch.Size((*S[:-1], 1))), a.repeat(*S[:-1], 1, 1, 1), [t]))(c(a)), tags=("rect",))
    Am = cat.ri(rng, (1, S[1], 1, n, n), -3, 3, dtype)
    add("BatchRepeat[inner-outer]", lambda c, a=Am: (lambda t: (BatchRepeatLinearOperator(DenseLinearOperator(t), batch_repeat=torch.Size((S[0], 1, S[2]))), a.repeat(S[0], 1, S[2], 1, 1), [t]))(c(a)))
    if S[0] % 2 == 0 or S[2] % 2 == 0:
        h0, h2 = (S[0] // 2, 2) if S[0] % 2 == 0 else (S[0], 1), (S[2] // 2, 2) if S[2] % 2 == 0 else (S[2], 1)
        Ah = cat.ri(rng, (h0[0], S[1], h2[0], n, n), -3, 3, dtype)
        rp = (h0[1], 1, h2[1])
        add("BatchRepeat[multi]", lambda c, a=Ah, rp=rp: (lambda t: (BatchRepeatLinearOperator(DiagLinearOperator(t[..., 0, :]), batch_repeat=torch.Size(rp)), torch.diag_embed(a[..., 0, :]).repeat(*rp, 1, 1), [t]))(c(a)))
    # BatchRepeat over a batch-concatenated Cat
    sz = _split(rng, S[1])
    tc = [cat.ri(rng, (sx, S[2], n, n), -3, 3, dtype) for sx in sz]
    add("BatchRepeat(Cat[batch0])", lambda c, tc=tc: (lambda tt: (BatchRepeatLinearOperator(CatLinearOperator(*[DenseLinearOperator(t) for t in tt], dim=0), batch_repeat=torch.Size((S[0], 1, 1))),
                                                               torch.cat(tc, 0).repeat(S[0], 1, 1, 1, 1), tt))([c(t) for t in tc]))
    return out


# ----------------------------------------------------------------------------------------------- transformations
def transforms(rng, it, which="all"):
    """list of (priority, Inst) — batch transformations of instance `it` (dense counterpart by plain torch)."""
    from linear_operator.operators import BlockDiagLinearOperator, BlockInterleavedLinearOperator, SumBatchLinearOperator
    D = it.dense
    *B, M, N = D.shape
    nb = len(B)
    nd = nb + 2
    out = []
    tags = tuple(t for t in it.tags if t in ("fft", "f32only", "nobatch"))

    def add(prio, name, f_op, f_dense, extra_tags=()):
        try:
            Dn = f_dense(D)
        except Exception:  # not applicable to this shape
            return
        def make(c, f_op=f_op, Dn=Dn):
            op = it.build(c)
            return f_op(op), Dn, list(it.last_tensors)
        out.append((prio, name, make, tags + tuple(extra_tags)))

    tup = lambda p: ",".join(map(str, p))
    # ---- permute
    for p in itertools.permutations(range(nb)):
        if p == tuple(range(nb)):
            continue
        inv = tuple(p.index(i) for i in range(nb))
        cyc = inv != p
        add(0 if cyc else 1, f"permute({tup(p)})", lambda o, p=p: o.permute(*p, nb, nb + 1), lambda T, p=p: T.permute(*p, nb, nb + 1).contiguous())
        if cyc:
            pn = tuple(i - nd for i in p)
            add(1, f"permute({tup(pn)})", lambda o, pn=pn: o.permute(*pn, -2, -1), lambda T, p=p: T.permute(*p, nb, nb + 1).contiguous())
    for i, j in itertools.combinations(range(nb), 2):
        add(2, f"transpose({i},{j - nd})", lambda o, i=i, j=j: o.transpose(i, j - nd), lambda T, i=i, j=j: T.transpose(i, j).contiguous())
    # ---- unsqueeze / expand
    for k in range(nb + 1):
        add(0 if k == 1 else 1, f"unsqueeze({k})", lambda o, k=k: o.unsqueeze(k), lambda T, k=k: T.unsqueeze(k))
        kn = k - (nd + 1)
        add(2, f"unsqueeze({kn})", lambda o, kn=kn: o.unsqueeze(kn), lambda T, k=k: T.unsqueeze(k))
        shp = lambda T, k=k: (*T.shape[:k], 5, *T.shape[k:])
        add(0 if k == 1 else 2, f"unsqueeze({k}).expand[5@{k}]", lambda o, k=k, shp=shp: (lambda u: u.expand(*shp(o)))(o.unsqueeze(k)),
            lambda T, k=k, shp=shp: T.unsqueeze(k).expand(*shp(T)).contiguous())
    add(1, "expand[lead5]", lambda o: o.expand(5, *o.shape), lambda T: T.expand(5, *T.shape).contiguous())
    add(2, "expand[lead5,-1]", lambda o: o.expand(5, *o.shape[:-2], -1, -1), lambda T: T.expand(5, *T.shape).contiguous())
    for k in range(nb):
        if B[k] == 1:
            shp = lambda T, k=k: (*T.shape[:k], 3, *T.shape[k + 1:])
            add(1, f"expand[3@{k}]", lambda o, shp=shp: o.expand(*shp(o)), lambda T, shp=shp: T.expand(*shp(T)).contiguous())
    # ---- batch indexing
    for k in range(nb):
        pre = (slice(None),) * k
        i0 = rng.randrange(B[k])
        add(1, f"getitem[int@{k}]", lambda o, pre=pre, i0=i0: o[(*pre, i0)], lambda T, pre=pre, i0=i0: T[(*pre, i0)])
        add(2, f"getitem[negint@{k}]", lambda o, pre=pre: o[(*pre, -1)], lambda T, pre=pre: T[(*pre, -1)])
        if B[k] >= 2:
            a = rng.randrange(0, B[k] - 1)
            b = rng.randrange(a + 1, B[k] + 1)
            if (a, b) == (0, B[k]):
                a = 1
            add(1, f"getitem[slice@{k}]", lambda o, pre=pre, a=a, b=b: o[(*pre, slice(a, b))], lambda T, pre=pre, a=a, b=b: T[(*pre, slice(a, b))])
            ix = torch.tensor([rng.randrange(B[k]) for _ in range(3)])
            add(2, f"getitem[tensor@{k}]", lambda o, pre=pre, ix=ix: o[(*pre, ix)], lambda T, pre=pre, ix=ix: T[(*pre, ix)])
    if nb >= 2:
        i0, i1 = rng.randrange(B[0]), rng.randrange(B[-1])
        mid = (slice(None),) * (nb - 2)
        add(2, "getitem[int@0,int@last]", lambda o: o[(i0, *mid, i1)], lambda T: T[(i0, *mid, i1)])
    # ---- sum over a batch dim, repeat
    for k in range(nb):
        add(1, f"sum({k})", lambda o, k=k: o.sum(k), lambda T, k=k: T.sum(k))
        add(2, f"sum({k - nd})", lambda o, k=k: o.sum(k - nd), lambda T, k=k: T.sum(k))
    rp = tuple(2 if k == min(1, nb - 1) else 1 for k in range(nb))
    add(2, f"repeat({tup(rp)})", lambda o: o.repeat(*rp, 1, 1), lambda T: T.repeat(*rp, 1, 1))
    add(2, "repeat[lead2]", lambda o: o.repeat(2, *([1] * nb), 1, 1), lambda T: T.repeat(2, *([1] * nb), 1, 1))
    # ---- block operators over this operator as base, every block_dim
    for k in range(nb):
        for bd in (k, k - nd):
            pr = 0 if (bd == 0 and nb >= 2) else (1 if bd >= 0 else 2)
            bd_ = f"{bd}|{'last' if k == nb - 1 else 'moved'}"  # `moved`: the constructor has to permute the base's batch dims
            if M == N:
                add(pr, f"BlockDiag[block_dim={bd_}]", lambda o, bd=bd: BlockDiagLinearOperator(o, block_dim=bd), lambda T, k=k: cat.block_diag_dense(T.movedim(k, -3)))
            add(pr, f"BlockInterleaved[block_dim={bd_}]", lambda o, bd=bd: BlockInterleavedLinearOperator(o, block_dim=bd), lambda T, k=k: cat.block_interleaved_dense(T.movedim(k, -3)))
            add(pr, f"SumBatch[block_dim={bd_}]", lambda o, bd=bd: SumBatchLinearOperator(o, block_dim=bd), lambda T, k=k: T.movedim(k, -3).sum(-3))
    res = []
    for prio, name, make, tg in out:
        res.append((prio, name, make, tg))
    return res


def _inst(it, name, make, tg):
    """Inst or a ('ctor-error', name, message) tuple"""
    full = f"{name}({it.name})"
    try:
        with warnings.catch_warnings():
            warnings.simplefilter("ignore")
            return cat.Inst(full, make, tags=tg)
    except Exception as e:
        return ("ctor-error", full, f"{type(e).__name__}: {e}"[:200])


# ----------------------------------------------------------------------------------------------- observations
def run_light(run, it, S, n, dtype, rng, seedinfo):
    """shape / densification / products from both sides of one (transformed) instance."""
    from linear_operator.operators import LinearOperator
    from .c01 import _rand
    chk = run.chk
    D = it.dense
    if "f32only" in it.tags:
        D = D.to(torch.float32)
    xdt = D.dtype
    opb = tuple(D.shape[:-2])
    M, N = D.shape[-2:]
    exact = it.exact
    pay = dict(seedinfo, inst=it.name, batch=list(S), n=n, dtype=str(dtype), part="batch")
    nontriv = D.numel() > 1 and bool((D != 0).any())
    chk.count("batch-part:instances")

    def P(**kw):
        d = dict(pay)
        d.update(kw)
        return d

    def mk():
        with warnings.catch_warnings():
            warnings.simplefilter("ignore")
            return it.build()

    c = lambda obs, kind="-": run.cell(it, S, n, dtype, obs, kind)
    try:
        op = mk()
    except Exception as e:
        chk.case(c("construct"))
        chk.violation(c("construct"), f"constructor raised {type(e).__name__}: {e}"[:200], P())
        return
    if torch.is_tensor(op):  # (a transformation of a DenseLinearOperator may legitimately return a tensor? no: all of ours return operators)
        chk.case(c("construct"))
        chk.violation(c("construct"), "transformation returned a torch.Tensor instead of a LinearOperator", P())
        return
    run.observe(c("shape"), lambda: tuple(op.shape), tuple(D.shape), True, P(), nontriv)
    run.observe(c("batch_shape"), lambda: tuple(op.batch_shape), opb, True, P(), nontriv)
    run.observe(c("to_dense"), lambda: mk().to_dense(), D, exact, P(), nontriv)
    run.observe(c("mT.to_dense"), lambda: mk().mT.to_dense(), D.mT, exact, P(), nontriv)
    if not it.name.split("(")[-1].startswith("Zero") and "Zero" not in it.name:
        run.observe(c("base.to_dense"), lambda: LinearOperator.to_dense(mk()), D, exact, P(), nontriv)
    rk = [("vec", (N,)), ("same", (*opb, N, 2))]
    if len(opb) >= 2:
        rk.append(("missing", (*opb[1:], N, 2)))
        rk.append(("mixed", (opb[0], *([1] * (len(opb) - 1)), N, 1)))
    elif len(opb) == 1:
        rk.append(("ones", (1, N, 2)))
    rk.append(("extra", (2, *opb, N, 1)))
    for kind, shape in rk:
        x = _rand(rng, shape, xdt)
        want = torch.matmul(D, x)
        p = P(kind=kind, vals=x.flatten().tolist(), xshape=list(shape))
        run.observe(c("op@x", kind), lambda: mk() @ x.clone(), want, exact, p, nontriv)
        if kind == "same":
            run.observe(c("_matmul", kind), lambda: mk()._matmul(x.clone()), want, exact, p, nontriv)
    for kind, shape in rk[:3]:
        shape = (*shape[:-2], M, shape[-1]) if len(shape) > 1 else (M,)
        y = _rand(rng, shape, xdt)
        want = torch.matmul(D.mT, y)
        p = P(kind=kind, vals=y.flatten().tolist(), xshape=list(shape))
        run.observe(c("mT@y", kind), lambda: mk().mT @ y.clone(), want, exact, p, nontriv)
        if kind == "same":
            run.observe(c("_t_matmul", kind), lambda: mk()._t_matmul(y.clone()), want, exact, p, nontriv)
    for kind, shape in (("lvec", (M,)), ("lsame", (*opb, 2, M)), ("lmissing", (*opb[1:], 1, M))):
        z = _rand(rng, shape, xdt)
        want = torch.matmul(z, D)
        p = P(kind=kind, vals=z.flatten().tolist(), xshape=list(shape))
        run.observe(c("x@op", kind), lambda: z.clone() @ mk(), want, exact, p, nontriv)
        if kind != "lsame":
            run.observe(c("rmatmul", kind), lambda: mk().rmatmul(z.clone()), want, exact, p, nontriv)


REFUSALS = ("Trying to lazily add two DiagLinearOperators", "BatchRepeatLinearOperator received the following args",
            "to the constructor of BlockDiagLinearOperator with block_dim")  # documented refusals


def _ctor_error(chk, w, S, n, seedinfo):
    if any(r in w[2] for r in REFUSALS):
        chk.count("ctor-refused:" + w[1].split("(")[0].split("[")[0])
        return
    if w[1].startswith("getitem["):  # an index expression the library refuses is C03's subject, not C01's: counted only
        chk.count("batch-part:getitem-raised")
        return
    cell = f"C01/{w[1]}[b=({','.join(map(str, S))})|n={n}]/construct/-"
    chk.case(cell)
    chk.violation(cell, "constructor raised " + w[2], dict(seedinfo, inst=w[1], part="batch"))


def _is(name, prefixes):
    return any(name.startswith(p) for p in prefixes)


def part4(chk, run):
    from .c01 import WRAP_KINDS_ALL
    tier = chk.tier
    rng = random.Random(f"C01:batch:{chk.seed}:{tier}")
    sets = [(torch.float64, 2)] if tier == "quick" else [(torch.float64, 2), (torch.float32, 3)]
    for si, (dtype, n) in enumerate(sets):
        S = _shapes3(rng)
        seedinfo = {"set": si, "seed": chk.seed, "tier": tier}
        with warnings.catch_warnings():
            warnings.simplefilter("ignore")
            try:
                insts = cat.instances(rng, dtype, S, n, depth=2, extra=True) + extra_bases(rng, dtype, S, n)
            except Exception as e:
                chk.violation(f"C01/catalogue3[b={S}|n={n}]/construct", f"catalogue construction raised {type(e).__name__}: {e}"[:300], dict(seedinfo, part="batch"))
                continue
        insts = [it for it in insts if "nobatch" not in it.tags]
        for it in insts:
            # the instance itself with three batch dims (light observation set)
            chk.count("batch-part:class:" + it.name.split("[")[0].split("(")[0])
            run_light(run, it, S, n, dtype, rng, seedinfo)
            heavy = _is(it.name, HEAVY)
            tl = transforms(rng, it)
            if tier == "quick":
                if it.name.startswith("Cat[batch"):
                    pick = [t for t in tl if t[0] == 0] + rng.sample([t for t in tl if t[0] == 1], 8) + rng.sample([t for t in tl if t[0] == 2], 2)
                elif heavy and "block_dim" not in it.name and ".sum(" not in it.name:
                    pick = [t for t in tl if t[0] == 0] + rng.sample([t for t in tl if t[0] >= 1], 2)
                else:
                    p0 = [t for t in tl if t[0] == 0]
                    few = "block_dim" in it.name or ".sum(" in it.name  # (their own construction is the point; one transformation each)
                    pick = rng.sample(p0, 1) + ([] if few else rng.sample([t for t in tl if t[0] >= 1], 1))
            else:
                if heavy:
                    pick = tl
                else:
                    pick = [t for t in tl if t[0] == 0] + rng.sample([t for t in tl if t[0] >= 1], 6)
            derived = []
            for prio, name, make, tg in pick:
                w = _inst(it, name, make, tg)
                if isinstance(w, tuple):
                    _ctor_error(chk, w, S, n, seedinfo)
                    continue
                chk.count("batch-part:transform:" + name.split("(")[0].split("[")[0])
                run_light(run, w, S, n, dtype, rng, seedinfo)
                derived.append(w)
            # generic catalogue wrappers over the 3-batch-dim structured bases, and two-step compositions
            if heavy and "f32only" not in it.tags:
                kinds = WRAP_KINDS_ALL if tier == "thorough" else rng.sample(WRAP_KINDS_ALL, 6 if it.name.startswith("Cat[batch") else 2)
                with warnings.catch_warnings():
                    warnings.simplefilter("ignore")
                    ws = cat.wrap(rng, it, dtype, kinds=set(kinds))
                for w in ws:
                    if isinstance(w, tuple):
                        _ctor_error(chk, w, S, n, seedinfo)
                        continue
                    chk.count("batch-part:wrapper:" + w.name.split("(")[0])
                    run_light(run, w, S, n, dtype, rng, seedinfo)
                    # permute (cyclic) of the wrapper
                    if len(w.dense.shape) == 5 and (tier == "thorough" or rng.random() < 0.25):
                        t0 = [t for t in transforms(rng, w) if t[1].startswith("permute(") and t[0] == 0]
                        prio, name, make, tg = rng.choice(t0)
                        w2 = _inst(w, name, make, tg)
                        if isinstance(w2, tuple):
                            _ctor_error(chk, w2, S, n, seedinfo)
                        else:
                            chk.count("batch-part:depth2")
                            run_light(run, w2, S, n, dtype, rng, seedinfo)
                # a wrapper / second transformation of a transformed operator
                for w in derived:
                    if len(w.dense.shape) < 4 or not (tier == "thorough" or rng.random() < 0.15):
                        continue
                    t2 = [t for t in transforms(rng, w) if t[0] <= 1]
                    prio, name, make, tg = rng.choice(t2)
                    w2 = _inst(w, name, make, tg)
                    if isinstance(w2, tuple):
                        _ctor_error(chk, w2, S, n, seedinfo)
                    else:
                        chk.count("batch-part:depth2")
                        run_light(run, w2, S, n, dtype, rng, seedinfo)
