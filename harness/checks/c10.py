"""C10 — pivoted Cholesky under-approximates greedily; its preconditioner is exact.

impl  : the REAL `op.pivoted_cholesky(rank, error_tol, return_pivots=True)`, `apply_permutation`, `inverse_permutation`
        and `AddedDiagLinearOperator._preconditioner()` (with `torch.linalg.qr` observed by a transparent wrapper), in-process.
model : LinOp.C10.Driver — the Lean model of `PivotedCholesky.forward` run on `Rat` (exact-by-construction inputs:
        pivot order, permutation, rank/stopping step and every entry of L compared EXACTLY) and on binary64 (`flt`,
        catalogue operators, toleranced, only when the arg-max / stop-rule margins are robust), and of the
        preconditioner caches/closure/log-determinant (binary64, fed with the Q, R the implementation obtained).
spec  : computed here, independently of library and model: a textbook pivoted Cholesky on the full residual matrix in
        `Fraction`s (exact cases) / float64 (generic), and the defining properties themselves (A - L L^T PSD and zero on
        pivot rows/cols, pivot = arg-max of the remaining residual diagonal, exact at r = n, stop rule, r <= k,
        permutation valid; (L L^T + D) closure(X) = X, closure SPD, logdet = log|L L^T + D|, _precond_lt = L L^T + D).
"""
import json
import math
import random
import struct
from contextlib import ExitStack
from fractions import Fraction

import torch

from .. import catalogue
from ..common import fmt_rat
from ..extract import c10_consts

PID = "C10"


# ------------------------------------------------------------------------------------------------ helpers
def frac_mat(t):
    return [[Fraction(float(v)) for v in row] for row in t.tolist()]


def mat_line(rows):
    return ";".join(",".join(fmt_rat(v) for v in r) for r in rows)


def bits_to_float(s):
    return struct.unpack("<d", struct.pack("<Q", int(s)))[0]


def parse_fmat(s, conv):
    if s == "-":
        return []
    return [[conv(x) for x in r.split(",")] for r in s.split(";")]


def is_square(fr):
    if fr < 0:
        return None
    a, b = math.isqrt(fr.numerator), math.isqrt(fr.denominator)
    if a * a == fr.numerator and b * b == fr.denominator:
        return Fraction(a, b)
    return None


def dyadic(fr):
    d = fr.denominator
    return d & (d - 1) == 0 and d <= 2 ** 20 and abs(fr.numerator) < 2 ** 40


# ------------------------------------------------------------------------------------------------ oracles (spec)
def oracle_exact(As, rank, tol):
    """Textbook pivoted Cholesky on a batch of Fraction matrices: explicit residual matrices R <- R - r r^T / d,
    pivot = first maximal residual diagonal entry in the order of the current permutation tail, loop continues while
    (m == 0) or (m < min(rank, n) and max over the batch of (sum |diag R| on unpivoted) / max diag A > tol).
    Returns (m, [member dicts], ok) — ok False when a pivot is not the square of a dyadic rational / not positive."""
    n = len(As[0])
    max_iter = min(rank, n)
    mem = []
    for A in As:
        mem.append({"R": [row[:] for row in A], "perm": list(range(n)), "cols": [], "orig": max(A[i][i] for i in range(n)),
                    "err": None, "piv": []})
    for M in mem:
        M["err"] = sum(abs(M["R"][i][i]) for i in range(n)) / M["orig"] if M["orig"] != 0 else None
    ok = True
    m = 0
    while m == 0 or (m < max_iter and max(M["err"] for M in mem) > tol):
        for M in mem:
            R, perm = M["R"], M["perm"]
            best = m
            for j in range(m + 1, n):
                if R[perm[j]][perm[j]] > R[perm[best]][perm[best]]:
                    best = j
            perm[m], perm[best] = perm[best], perm[m]
            p = perm[m]
            d = R[p][p]
            M["piv"].append(d)
            if d == 0:
                # the member is already factorized exactly (all remaining residual diagonal entries are <= 0 = max): the current
                # code (clamp + mask, fix d829792) writes a ZERO column and leaves the diagonal alone
                M["cols"].append([Fraction(0)] * n)
                if m + 1 < n:
                    M["err"] = sum(abs(R[perm[j]][perm[j]]) for j in range(m + 1, n)) / M["orig"]
                continue
            sq = is_square(d) if d > 0 else None
            if sq is None or not dyadic(sq):
                ok = False
                sq = sq if sq is not None else Fraction(1)
            col = [Fraction(0)] * n
            col[p] = sq
            if m + 1 < n:
                for j in range(m + 1, n):
                    i = perm[j]
                    col[i] = R[p][i] / sq
                    if not dyadic(col[i]):
                        ok = False
            M["cols"].append(col)
            M["R"] = [[R[i][k] - col[i] * col[k] for k in range(n)] for i in range(n)]
            if m + 1 < n:
                M["err"] = sum(abs(M["R"][perm[j]][perm[j]]) for j in range(m + 1, n)) / M["orig"]
        m += 1
    return m, mem, ok


def oracle_float(A, rank, tol):
    """The same in float64 on one batch of dense matrices (tensor b x n x n); also returns the smallest relative
    arg-max margin and stop-rule margin met (to decide whether discrete outputs may be compared exactly)."""
    A = A.double()
    b, n = A.shape[0], A.shape[-1]
    max_iter = min(rank, n)
    R = A.clone()
    perm = [list(range(n)) for _ in range(b)]
    cols = [[] for _ in range(b)]
    orig = [float(A[i].diagonal().max()) for i in range(b)]
    err = [float(A[i].diagonal().abs().sum()) / orig[i] for i in range(b)]
    margin, stop_margin, minpiv = 1.0, 1.0, float("inf")
    m = 0
    while True:
        if m > 0:
            e = max(err)
            stop_margin = min(stop_margin, abs(e - tol) / max(tol, 1e-300)) if m < max_iter else stop_margin
            if not (m < max_iter and e > tol):
                break
        for i in range(b):
            dg = R[i].diagonal()
            vals = [float(dg[perm[i][j]]) for j in range(m, n)]
            best = max(range(len(vals)), key=lambda j: (vals[j], -j))
            srt = sorted(vals, reverse=True)
            if len(srt) > 1:
                margin = min(margin, (srt[0] - srt[1]) / max(abs(srt[0]), 1e-300))
            best += m
            perm[i][m], perm[i][best] = perm[i][best], perm[i][m]
            p = perm[i][m]
            d = float(R[i][p, p])
            minpiv = min(minpiv, d / orig[i])
            col = torch.zeros(n, dtype=torch.float64)
            if d > 0:
                col = R[i][:, p] / math.sqrt(d)
                for j in range(m):
                    col[perm[i][j]] = 0.0
            cols[i].append(col)
            R[i] = R[i] - torch.outer(col, col)
            if m + 1 < n:
                err[i] = sum(abs(float(R[i][perm[i][j], perm[i][j]])) for j in range(m + 1, n)) / orig[i]
        m += 1
    L = torch.stack([torch.stack(c, dim=-1) for c in cols])
    return m, L, perm, margin, stop_margin, minpiv


# ------------------------------------------------------------------------------------------------ exact inputs
def gen_exact_member(rng, n, rho, flavour):
    """Integer PSD matrix of rank rho whose greedy pivots are squares: Pi (L0 L0^T) Pi^T, L0 integer lower-trapezoidal
    with a dominant, non-increasing diagonal (ties on purpose in flavour 'tied')."""
    if flavour == "tied":
        top = rng.choice([2, 3, 4])
        dvals = [top] * rho
        for t in range(rho):
            if rng.random() < 0.3 and dvals[t] > 1:
                for u in range(t, rho):
                    dvals[u] = dvals[t] - 1 if u > t else dvals[u]
    else:
        dvals = sorted([rng.choice([1, 2, 2, 3, 4, 4, 6, 8]) for _ in range(rho)], reverse=True)
    L0 = [[0] * rho for _ in range(n)]
    for t in range(rho):
        L0[t][t] = dvals[t]
    for i in range(n):
        for s in range(min(i, rho)):
            if rng.random() < (0.35 if flavour == "tied" else 0.6):
                L0[i][s] = rng.choice([-2, -1, 1, 2]) if dvals[s] >= 4 else rng.choice([-1, 1])
    A0 = [[sum(L0[i][s] * L0[k][s] for s in range(rho)) for k in range(n)] for i in range(n)]
    pi = list(range(n))
    rng.shuffle(pi)
    A = [[Fraction(A0[pi[i]][pi[k]]) for k in range(n)] for i in range(n)]
    return A


def gen_exact_batch(rng, nb, n, rhos, flavour, rank, tol):
    for _ in range(400):
        As = [gen_exact_member(rng, n, rhos[i], flavour) for i in range(nb)]
        if any(max(A[i][i] for i in range(n)) <= 0 for A in As):
            continue
        m, mem, ok = oracle_exact(As, rank, tol)
        if ok:
            return As, m, mem
    return None


# ------------------------------------------------------------------------------------------------ property checks on an impl result
def check_pc_properties(A, L, piv, rank, tol, ftol):
    """A: b x n x n dense float64 (flattened batch), L: b x n x r, piv: b x n.  Returns list of (tag, message)."""
    bad = []
    b, n = A.shape[0], A.shape[-1]
    r = L.shape[-1]
    if L.shape != (b, n, r) or tuple(piv.shape) != (b, n):
        return [("shape", f"L {tuple(L.shape)} pivots {tuple(piv.shape)} for A {tuple(A.shape)}")]
    if r > min(rank, n) or r < 1:
        bad.append(("rank", f"r={r} for rank={rank}, n={n}"))
    if piv.dtype != torch.long:
        bad.append(("perm", f"pivots dtype {piv.dtype}"))
    if not torch.isfinite(L).all():
        bad.append(("nan", "non-finite entries in L"))
        return bad
    errs_at = [[None] * (r + 1) for _ in range(b)]
    for i in range(b):
        scale = max(1.0, float(A[i].abs().max()))
        p = piv[i].tolist()
        if sorted(p) != list(range(n)):
            bad.append(("perm", f"member {i}: pivots {p} not a permutation"))
            continue
        orig = float(A[i].diagonal().max())
        for t in range(r + 1):
            Rt = A[i] - L[i][:, :t] @ L[i][:, :t].T
            dg = Rt.diagonal()
            unp = p[t:]
            errs_at[i][t] = float(dg[unp].abs().sum()) / orig if unp else 0.0
            if t < r:
                # the pivot of step t is the largest remaining residual diagonal entry
                best = max(float(dg[j]) for j in unp)
                if float(dg[p[t]]) < best - ftol * scale:
                    bad.append(("argmax", f"member {i} step {t}: pivot index {p[t]} has residual diag {float(dg[p[t]]):.6g} < max remaining {best:.6g}"))
                # L[p_t, t]^2 is that entry, entries of column t at earlier pivots vanish
                if abs(float(L[i][p[t], t]) ** 2 - float(dg[p[t]])) > ftol * scale:
                    bad.append(("Lentry", f"member {i} step {t}: L[p,t]^2={float(L[i][p[t], t]) ** 2:.6g} vs residual diag {float(dg[p[t]]):.6g}"))
        R = A[i] - L[i] @ L[i].T
        if r and float(R[p[:r], :].abs().max()) > ftol * scale * 10:
            bad.append(("pivot-rows", f"member {i}: residual on pivot rows up to {float(R[p[:r], :].abs().max()):.3e}"))
        ev = torch.linalg.eigvalsh((R + R.T) / 2)
        if float(ev.min()) < -ftol * scale * 10:
            bad.append(("psd", f"member {i}: residual has eigenvalue {float(ev.min()):.3e}"))
        if r == n and float(R.abs().max()) > ftol * scale * 10:
            bad.append(("exact-at-n", f"member {i}: |A - L L^T| = {float(R.abs().max()):.3e} at r = n"))
    # stop rule (batch-wide): r is the first t >= 1 with max_b err_b(t) <= tol, capped by min(rank, n)
    cap = min(rank, n)
    rel = (lambda e: abs(e - tol) <= 1e-6 * max(tol, 1e-12) + 1e-13) if ftol < 1e-6 else (lambda e: abs(e - tol) <= 1e-2 * tol + 1e-5)
    for t in range(1, r):
        e = max(errs_at[i][t] for i in range(b) if errs_at[i][t] is not None)
        if e <= tol and not rel(e):
            bad.append(("stop-late", f"continued after step {t} although error {e:.3e} <= tol {tol:.3e}"))
    if r < cap and all(errs_at[i][r] is not None for i in range(b)):
        e = max(errs_at[i][r] for i in range(b))
        if e > tol and not rel(e):
            bad.append(("stop-early", f"stopped at r={r} < min(rank,n)={cap} with error {e:.3e} > tol {tol:.3e}"))
    return bad


def flat_batch(t, nd):
    return t.reshape(-1, *t.shape[t.dim() - nd:])


# ------------------------------------------------------------------------------------------------ the run
def run(chk, only=None):
    import linear_operator
    from linear_operator import settings
    from linear_operator.operators import (AddedDiagLinearOperator, ConstantDiagLinearOperator, DenseLinearOperator,
                                           DiagLinearOperator, PsdSumLinearOperator)
    from linear_operator.utils.permutation import apply_permutation, inverse_permutation

    quick = chk.tier == "quick"
    chk.rule = ("(a) exact-by-construction PSD integer matrices (full / low rank, tied diagonals, batches with different pivots, "
                "random symmetric permutation) x rank 1..n+1 x error_tol {None, 1/2, 1e-9, 1/8}: impl = Fraction oracle = Lean Rat model, "
                "exactly; (b) every PSD catalogue operator (depth-2 nestings, singular low-rank classes, batch shapes (), (2,), (2,3), "
                "float64/float32) x rank x tol: defining properties + Lean binary64 model when margins are robust; (c) permutation "
                "kernels; (d) AddedDiag preconditioner over K class x D kind (constant / equal-valued Diag / per-element / batched / "
                "broadcast) x max_preconditioner_size x min_preconditioning_size x preconditioner_tolerance.  non-trivial = n > 1")
    chk.assumptions += ["torch.linalg.qr meets its contract (Q R = M, Q^T Q = I, R upper triangular); sqrt/log are the real functions",
                        "floating-point rounding is not modelled: exact comparisons only on inputs whose every intermediate is a dyadic rational",
                        "row extraction through __getitem__ is C03's property; here it is exercised for every PSD catalogue class"]
    # ---- 1. translator
    facts = c10_consts.generate()
    dyn = {"max_preconditioner_size": settings.max_preconditioner_size.value(),
           "min_preconditioning_size": settings.min_preconditioning_size.value(),
           "preconditioner_tolerance": settings.preconditioner_tolerance.value()}
    for k, v in dyn.items():
        try:
            same = Fraction(facts[k]) == Fraction(str(v))
        except Exception:
            same = False
        if not same:
            chk.proof_break(f"translator({k})", f"source literal {facts[k]!r} but run-time default {v!r}")
    # ---- 2. proofs
    chk.prove("LinOp.Properties.C10", ["LinOp/C10", "LinOp/Generated/C10Consts.lean"])

    lines, handlers = [], []

    def viol(cell, what, payload):
        payload = dict(payload)
        payload.update({"cell": cell, "seed": chk.seed, "tier": chk.tier})
        chk.violation(cell, what, payload)

    # ---- 3a. exact-by-construction
    tols = [("none", None), ("half", Fraction(1, 2)), ("tight", Fraction(1, 10 ** 9)), ("eighth", Fraction(1, 8))]
    shapes = [(1, 2), (1, 3), (1, 4), (2, 3), (2, 4), (3, 3), (1, 5), (2, 5)] if quick else \
             [(1, 2), (1, 3), (1, 4), (2, 3), (2, 4), (3, 3), (1, 5), (2, 5), (1, 6), (3, 4), (2, 6), (4, 3), (1, 1), (2, 1)]
    reps = 1 if quick else 4
    for (nb, n) in shapes:
        for flavour in ("dom", "tied"):
            for rk in ("full", "low"):
                if rk == "low" and n < 2:
                    continue
                for tname, tolv in tols:
                    for rep in range(reps):
                        rank = chk.rng.randint(1, n + 1)
                        if rk == "full":
                            rhos = [n] * nb
                        else:
                            rho = chk.rng.randint(1, n - 1)
                            rhos = [rho] * nb   # same rank in every member (mixed ranks: see the known finding cell)
                        cell = f"C10/pc/exact/{flavour}/{rk}/b={nb}/tol={tname}"
                        if only and only != cell:
                            continue
                        tol_eff = Fraction(str(dyn["preconditioner_tolerance"])) if tolv is None else tolv
                        g = gen_exact_batch(chk.rng, nb, n, rhos, flavour, rank, tol_eff)
                        if g is None:
                            chk.count("exact_generation_failed")
                            continue
                        As, m_spec, mem = g
                        exact_case(chk, cell, As, rank, tname, tolv, tol_eff, m_spec, mem, lines, handlers, viol, nb, n)
    # heterogeneous batches: members of DIFFERENT rank and scale in one coupled loop (shared counter, max-over-batch stop test):
    # a converged member keeps iterating while another member keeps the loop alive (zero columns after fix d829792)
    for (nb, n) in ([(2, 3), (2, 4), (3, 3), (3, 4)] if quick else [(2, 3), (2, 4), (3, 3), (3, 4), (2, 5), (3, 5), (4, 3), (2, 6)]):
        for tname, tolv in tols:
            for rep in range(1 if quick else 3):
                cell = f"C10/pc/exact/hetero/b={nb}/tol={tname}"
                if only and only != cell:
                    continue
                rank = chk.rng.randint(2, n + 1)
                rhos = [chk.rng.randint(1, n) for _ in range(nb)]
                rhos[chk.rng.randrange(nb)] = n
                if len(set(rhos)) == 1:
                    rhos[(rhos.index(n) + 1) % nb] = chk.rng.randint(1, n - 1)
                tol_eff = Fraction(str(dyn["preconditioner_tolerance"])) if tolv is None else tolv
                scales = [chk.rng.choice([1, 1, 4, Fraction(1, 4), 16]) for _ in range(nb)]
                g = None
                for _ in range(200):
                    As = [[[v * scales[i] for v in row] for row in gen_exact_member(chk.rng, n, rhos[i], "dom")] for i in range(nb)]
                    if any(max(A[i][i] for i in range(n)) <= 0 for A in As):
                        continue
                    m_spec, mem, ok = oracle_exact(As, rank, tol_eff)
                    if ok:
                        g = (As, m_spec, mem)
                        break
                if g is None:
                    chk.count("exact_generation_failed")
                    continue
                chk.count("pc_hetero")
                exact_case(chk, cell, g[0], rank, tname, tolv, tol_eff, g[1], g[2], lines, handlers, viol, nb, n, hetero=True)
    # mixed ranks in one batch: the converged member keeps pivoting on an exactly zero residual
    for n in ([3, 4] if quick else [3, 4, 5]):
        cell = "C10/pc/exact/batch-mixed-rank"
        if only and only != cell:
            continue
        mixed_rank_case(chk, cell, n, viol)

    # ---- 3b. generic catalogue operators
    generic_cases(chk, only, lines, handlers, viol, quick)
    # ---- 3c. permutation kernels
    permutation_cases(chk, only, lines, handlers, viol, quick)
    # ---- 3d. preconditioner
    precond_cases(chk, only, lines, handlers, viol, quick, dyn)
    # ---- 3e. multi-step histories on one operator object / one shared kernel object under changing settings
    from . import c10_hist
    c10_hist.history_cases(chk, only, lines, handlers, viol, quick)
    # ---- 3f. backward pass (gradient through the factor) vs dense autograd of an independent reference + finite differences
    from . import c10_back
    c10_back.backward_cases(chk, only, viol, quick)

    import os
    if os.environ.get("C10_DUMP"):
        open(os.environ["C10_DUMP"], "w").write("\n".join(lines) + "\n")
    outs = chk.run_driver("C10", lines)
    if outs is not None:
        for o, h in zip(outs, handlers):
            h(o)


# ------------------------------------------------------------------------------------------------ (a)
def call_pc(op, rank, tolv):
    from linear_operator import settings
    if tolv is None:
        return op.pivoted_cholesky(rank, return_pivots=True)
    return op.pivoted_cholesky(rank, error_tol=float(tolv), return_pivots=True)


def exact_case(chk, cell, As, rank, tname, tolv, tol_eff, m_spec, mem, lines, handlers, viol, nb, n, hetero=False):
    from linear_operator.operators import DenseLinearOperator
    dt = torch.float64 if chk.rng.random() < 0.7 else torch.float32
    T = torch.tensor([[[float(v) for v in row] for row in A] for A in As], dtype=dt)
    bshape = chk.rng.choice([(nb,), (1, nb)]) if nb > 1 else chk.rng.choice([(), (1,)])
    Tin = T.reshape(*bshape, n, n).clone()
    keep = Tin.clone()
    payload = {"kind": "exact", "A": [[[str(v) for v in row] for row in A] for A in As], "rank": rank, "tol": None if tolv is None else str(tolv),
               "dtype": str(dt), "bshape": list(bshape)}
    desc = f"{cell}|n={n}|rank={rank}|{mat_line(As[0])}"
    chk.case(desc, nontrivial=n > 1)
    chk.count("pc_exact")
    import linear_operator
    from linear_operator import settings
    try:
        L, piv = call_pc(DenseLinearOperator(Tin), rank, tolv)
        # the same through the other entry points: functional API on a tensor, tolerance from the settings context,
        # return_pivots=False
        variant = chk.rng.choice(["functional", "settings", "nopivots"])
        chk.count("pc_entry:" + variant)
        if variant == "functional":
            L2, piv2 = linear_operator.pivoted_cholesky(Tin, rank, error_tol=None if tolv is None else float(tolv), return_pivots=True)
        elif variant == "settings" and tolv is not None:
            with settings.preconditioner_tolerance(float(tolv)):
                L2, piv2 = DenseLinearOperator(Tin).pivoted_cholesky(rank, return_pivots=True)
        else:
            L2 = DenseLinearOperator(Tin).pivoted_cholesky(rank) if tolv is None else DenseLinearOperator(Tin).pivoted_cholesky(rank, float(tolv))
            piv2 = piv
        if not torch.is_tensor(L2) or L2.shape != L.shape or not torch.equal(L2, L) or not torch.equal(piv2, piv):
            viol(cell, f"entry point '{variant}' returns a different factor/pivots than op.pivoted_cholesky(rank, error_tol, return_pivots=True)", payload)
            return
    except Exception as e:
        viol(cell, f"exception {type(e).__name__}: {str(e)[:200]}", payload)
        return
    if not torch.equal(Tin, keep):
        viol(cell, "the input tensor was modified", payload)
        return
    if tuple(L.shape[:-2]) != tuple(bshape) or tuple(piv.shape) != (*bshape, n) or L.dtype != dt:
        viol(cell, f"shapes/dtype: L {tuple(L.shape)} {L.dtype}, pivots {tuple(piv.shape)} for batch {bshape}", payload)
        return
    Lf, pf = flat_batch(L, 2).double(), flat_batch(piv, 1)
    r = Lf.shape[-1]
    # impl vs spec (exact)
    want_perm = [M["perm"] for M in mem]
    want_L = [[[float(M["cols"][t][i]) for t in range(m_spec)] for i in range(n)] for M in mem]
    got_ok = (r == m_spec and pf.tolist() == want_perm and Lf.tolist() == want_L)
    if not got_ok:
        what = (f"rank {rank} tol {tname}: impl r={r} perm={pf.tolist()} L={Lf.tolist()} but exact pivoted Cholesky gives r={m_spec} "
                f"perm={want_perm} L={want_L} for A={[[[int(v) for v in row] for row in A] for A in As]}")
        viol(cell, what, payload)
    else:
        bad = check_pc_properties(T.double(), Lf, pf, rank, float(tol_eff), 1e-9)
        if bad:
            viol(cell, f"{bad[0][0]}: {bad[0][1]}", payload)
            got_ok = False
    if got_ok and nb > 1 and (hetero or chk.rng.random() < 0.5):
        # batched semantics: every member is its own single-member run, continued (pcM_batch_member_is_own_run_continued);
        # once a member has converged exactly its extra columns are zero (pcM_converged_member_zero_columns)
        for b in range(nb):
            try:
                Lb, pb = call_pc(DenseLinearOperator(T[b].clone()), rank, tolv)
            except Exception as e:
                viol(cell, f"exception {type(e).__name__}: {str(e)[:200]} on member {b} alone", payload)
                got_ok = False
                break
            rb = Lb.shape[-1]
            mb, memb, okb = oracle_exact([As[b]], rank, tol_eff)
            chk.count("pc_member_alone")
            if rb < r:
                chk.count("pc_member_stops_before_batch")
            if rb != mb or rb > r or not torch.equal(Lb.double(), Lf[b][:, :rb]) or pb.tolist()[:rb] != pf[b].tolist()[:rb]:
                viol(cell, f"member {b} of the batch: alone it runs r_b={rb} iterations (exact: {mb}), in the batch r={r}; its first r_b columns/pivots in the "
                           f"batch must be its single-member factor: alone pivots {pb.tolist()} L={Lb.tolist()}, in the batch pivots {pf[b].tolist()} L={Lf[b].tolist()}", payload)
                got_ok = False
                break
            converged = all(memb[0]["R"][i][i] == 0 for i in range(n))
            if converged and rb < r:
                chk.count("pc_member_extra_zero_cols")
                if float(Lf[b][:, rb:].abs().max()) != 0.0 or pf[b].tolist() != pb.tolist():
                    viol(cell, f"member {b} is factorized exactly after {rb} iterations; the {r - rb} extra columns it gets while the rest of the batch "
                               f"keeps the loop running must be zero and its pivots unchanged: L={Lf[b].tolist()} pivots {pf[b].tolist()} (alone {pb.tolist()})", payload)
                    got_ok = False
                    break
    # model line
    lines.append(f"pc rat {rank} {fmt_rat(tol_eff)} " + "|".join(mat_line(A) for A in As))

    def h(o, got_ok=got_ok, r=r, pf=pf, Lf=Lf):
        try:
            head, *ms = o.split(" # ")
            hm = dict(x.split("=") for x in head.split())
            perm_m, L_m = [], []
            for s in ms:
                d = dict(x.split("=", 1) for x in s.split())
                perm_m.append([int(x) for x in d["perm"].split(",")])
                rows = parse_fmat(d["rows"], lambda x: float(Fraction(x)))
                L_m.append([[rows[t][i] for t in range(len(rows))] for i in range(n)])
            same = int(hm["m"]) == r and hm["inexact"] == "0" and perm_m == pf.tolist() and L_m == Lf.tolist()
        except Exception as e:
            same, o = False, f"unparsable driver output {o[:200]} ({e})"
        if same:
            chk.traces_validated += 1
        elif got_ok:
            chk.corr_break(cell, f"Lean model disagrees with the implementation (which agrees with the oracle): model {o[:300]}", payload)
    handlers.append(h)


def mixed_rank_case(chk, cell, n, viol):
    from linear_operator.operators import DenseLinearOperator
    rng = chk.rng
    g1 = gen_exact_batch(rng, 1, n, [n], "dom", n, Fraction(1, 10 ** 9))
    g2 = gen_exact_batch(rng, 1, n, [1], "dom", n, Fraction(1, 10 ** 9))
    if g1 is None or g2 is None:
        return
    As = [g1[0][0], g2[0][0]]
    T = torch.tensor([[[float(v) for v in row] for row in A] for A in As], dtype=torch.float64)
    chk.case(f"{cell}|n={n}|{mat_line(As[0])}|{mat_line(As[1])}", nontrivial=True)
    chk.count("pc_mixed_rank")
    payload = {"kind": "mixed", "A": [[[str(v) for v in row] for row in A] for A in As], "n": n}
    try:
        L, piv = DenseLinearOperator(T).pivoted_cholesky(n, error_tol=1e-9, return_pivots=True)
    except Exception as e:
        viol(cell, f"exception {type(e).__name__}: {str(e)[:200]}", payload)
        return
    bad = check_pc_properties(T, L, piv, n, 1e-9, 1e-9)
    if bad:
        viol(cell, f"{bad[0][0]}: {bad[0][1]} (batch of a rank-{n} and a rank-1 matrix, rank={n})", payload)


# ------------------------------------------------------------------------------------------------ (b)
def generic_cases(chk, only, lines, handlers, viol, quick):
    from linear_operator import settings
    batches = [(), (2,)] if quick else [(), (2,), (2, 3), (1,)]
    dtypes = [torch.float64] if quick else [torch.float64, torch.float32]
    tols = [("none", None), ("half", 0.5), ("tight", 1e-9)]
    singular = ["Root", "LowRankRoot", "Mul", "Kernel[sym]", "Interpolated[sym]"]
    for dtype in dtypes:
        for batch in batches:
            insts = catalogue.instances(chk.rng, dtype, batch, 3, psd=True, depth=2)
            insts += [it for it in catalogue.instances(chk.rng, dtype, batch, 3, psd=False, depth=1, classes=singular)
                      if "psd-singular" in it.tags]
            if not quick and dtype == torch.float64:
                insts += catalogue.instances(chk.rng, dtype, batch, 4, psd=True, depth=1)
            for it in insts:
                n = it.shape[-1]
                sing = "psd-singular" in it.tags
                ranks = sorted(set([1, n, n + 1, chk.rng.randint(2, max(2, n - 1))])) if not quick else \
                    sorted(set([chk.rng.choice([1, 2]), chk.rng.choice([n - 1, n, n + 1])]))
                for rank in ranks:
                    for tname, tolv in (tols if (not quick or only) else [chk.rng.choice(tols)]):
                        if tname == "tight" and dtype == torch.float32:
                            tolv = 1e-4   # "tight but positive" must stay above the working precision (float32 eps ~ 1e-7):
                            # below it a singular operator never reaches the tolerance and pivots on rounding noise
                        cell = f"C10/pc/op/{it.name}[b={batch}|{str(dtype)[6:]}]/tol={tname}"
                        if only and only != cell:
                            continue
                        generic_case(chk, cell, it, dtype, rank, tname, tolv, sing, lines, handlers, viol)


def generic_case(chk, cell, it, dtype, rank, tname, tolv, sing, lines, handlers, viol):
    from linear_operator import settings
    f32 = dtype == torch.float32
    ftol = 2e-4 if f32 else 1e-9
    op = it.build()
    before = [t.clone() for t in it.tensors()]
    A = it.dense.double()
    n = A.shape[-1]
    bshape = tuple(A.shape[:-2])
    tol_eff = settings.preconditioner_tolerance.value() if tolv is None else tolv
    payload = {"kind": "generic", "name": it.name, "rank": rank, "tol": tolv}
    chk.case(f"{cell}|rank={rank}|{A.flatten()[:12].tolist()}", nontrivial=n > 1)
    chk.count("pc_op:" + type(op).__name__)
    Af = flat_batch(A, 2)
    # a singular member in a batch where the loop runs on (other members unconverged): outside the robust region
    mo, Lo, po, margin, stop_margin, minpiv = oracle_float(Af, rank, tol_eff)
    robust = margin > (1e-3 if f32 else 1e-7) and stop_margin > (1e-2 if f32 else 1e-5) and minpiv > (1e-3 if f32 else 1e-9)
    if not robust:
        chk.count("pc_generic_not_robust")
    if minpiv <= (1e-4 if f32 else 1e-10):
        # some member is pivoting on a numerically zero residual: the result is rounding noise (see batch-mixed-rank finding)
        chk.count("pc_generic_skipped_zero_pivot")
        return
    try:
        L, piv = call_pc(op, rank, tolv)
    except Exception as e:
        viol(cell, f"exception {type(e).__name__}: {str(e)[:200]} (rank={rank})", payload)
        return
    if any(not torch.equal(a, b) for a, b in zip(before, it.tensors())):
        viol(cell, "pivoted_cholesky modified a tensor of the operator", payload)
        return
    if tuple(L.shape[:-2]) != bshape or tuple(piv.shape) != (*bshape, n) or L.dtype != dtype:
        viol(cell, f"shapes/dtype: L {tuple(L.shape)} {L.dtype}, pivots {tuple(piv.shape)}; operator batch {bshape} n={n} (rank={rank})", payload)
        return
    Lf, pf = flat_batch(L, 2).double(), flat_batch(piv, 1)
    bad = check_pc_properties(Af, Lf, pf, rank, float(tol_eff), ftol)
    if bad:
        viol(cell, f"{bad[0][0]}: {bad[0][1]} (rank={rank}, tol={tol_eff})", payload)
        return
    if robust:
        # impl vs the independent float oracle
        if Lf.shape[-1] != mo or pf.tolist() != po or float((Lf - Lo).abs().max()) > ftol * 100 * max(1.0, float(Af.abs().max())):
            viol(cell, f"differs from the textbook algorithm: r={Lf.shape[-1]} vs {mo}, pivots {pf.tolist()} vs {po}, "
                       f"max |dL| {float((Lf - Lo).abs().max()) if Lf.shape == Lo.shape else 'n/a'} (rank={rank}, tol={tol_eff})", payload)
            return
    if robust and not f32:
        lines.append(f"pc flt {rank} {fmt_rat(Fraction(float(tol_eff)))} " + "|".join(mat_line(frac_mat(a)) for a in Af))

        def h(o, Lf=Lf, pf=pf):
            try:
                head, *ms = o.split(" # ")
                hm = dict(x.split("=") for x in head.split())
                ok = int(hm["m"]) == Lf.shape[-1]
                for i, s in enumerate(ms):
                    d = dict(x.split("=", 1) for x in s.split())
                    ok = ok and [int(x) for x in d["perm"].split(",")] == pf[i].tolist()
                    rows = torch.tensor(parse_fmat(d["rows"], bits_to_float), dtype=torch.float64)
                    ok = ok and tuple(rows.T.shape) == tuple(Lf[i].shape) and float((rows.T - Lf[i]).abs().max()) <= 1e-9 * max(1.0, float(Lf[i].abs().max()))
            except Exception as e:
                ok, o = False, f"unparsable driver output {o[:200]} ({e})"
            if ok:
                chk.traces_validated += 1
            else:
                chk.corr_break(cell, f"Lean binary64 model disagrees with the implementation: {o[:300]}", payload)
        handlers.append(h)


# ------------------------------------------------------------------------------------------------ (c)
def permutation_cases(chk, only, lines, handlers, viol, quick):
    from linear_operator.utils.permutation import apply_permutation, inverse_permutation
    rng = chk.rng
    for bshape in [(), (2,), (2, 3)]:
        for n in ([1, 4] if quick else [1, 2, 5, 7]):
            cell = f"C10/perm/inverse[b={bshape}]"
            if only and only != cell:
                continue
            nb = int(torch.Size(bshape).numel())
            perms = [rng.sample(range(n), n) for _ in range(nb)]
            p = torch.tensor(perms).reshape(*bshape, n)
            chk.case(f"{cell}|{perms}", nontrivial=n > 1)
            try:
                inv = inverse_permutation(p)
            except Exception as e:
                viol(cell, f"exception {type(e).__name__}: {e}", {"kind": "perm"})
                continue
            want = [[pp.index(i) for i in range(n)] for pp in perms]
            if inv.reshape(-1, n).tolist() != want or inv.shape != p.shape:
                viol(cell, f"inverse_permutation({perms}) = {inv.tolist()}, expected {want}", {"kind": "perm"})
                continue
            for pp, got in zip(perms, inv.reshape(-1, n).tolist()):
                lines.append("inv " + ",".join(map(str, pp)))

                def h(o, got=got, pp=pp):
                    if o == ",".join(map(str, got)):
                        chk.traces_validated += 1
                    else:
                        chk.corr_break(cell, f"model inverse_permutation({pp}) = {o}, impl {got}", {"kind": "perm"})
                handlers.append(h)
    # apply_permutation through __getitem__ of every PSD class (the row extraction path of the algorithm) + partial perms
    for batch in ([(), (2,)] if quick else [(), (2,), (2, 3)]):
        for it in catalogue.instances(rng, torch.float64, batch, 3, psd=True, depth=2):
            cell = f"C10/perm/apply/{it.name}[b={batch}]"
            if only and only != cell:
                continue
            op = it.build()
            A = it.dense
            n = A.shape[-1]
            bs = tuple(A.shape[:-2])
            nb = int(torch.Size(bs).numel())
            kl, kr = rng.randint(1, n), rng.randint(1, n)
            left = torch.tensor([rng.sample(range(n), n)[:kl] for _ in range(nb)]).reshape(*bs, kl)
            right = torch.tensor([rng.sample(range(n), n)[:kr] for _ in range(nb)]).reshape(*bs, kr)
            for mode in ("both", "left", "right", "row"):
                lp = left if mode in ("both", "left") else (left[..., :1] if mode == "row" else None)
                rp = right if mode in ("both", "right") else None
                chk.case(f"{cell}|{mode}|{left.tolist()}|{right.tolist()}", nontrivial=True)
                chk.count("apply_permutation")
                try:
                    got = apply_permutation(op, lp, rp)
                except Exception as e:
                    viol(cell, f"exception {type(e).__name__}: {str(e)[:200]} (mode {mode})", {"kind": "apply"})
                    break
                Af = A.reshape(nb, n, n)
                want = []
                for i in range(nb):
                    rows = Af[i] if lp is None else Af[i][lp.reshape(nb, -1)[i]]
                    want.append(rows if rp is None else rows[:, rp.reshape(nb, -1)[i]])
                want = torch.stack(want).reshape(*bs, *want[0].shape)
                tol = 1e-9 if "fft" in it.tags else 0.0
                if got.shape != want.shape or float((got - want).abs().max()) > tol:
                    viol(cell, f"apply_permutation ({mode}) differs from dense indexing: shape {tuple(got.shape)} vs {tuple(want.shape)}", {"kind": "apply"})
                    break


# ------------------------------------------------------------------------------------------------ (d)
class QRSpy:
    def __init__(self):
        self.real = torch.linalg.qr
        self.calls = []

    def __call__(self, *a, **kw):
        res = self.real(*a, **kw)
        self.calls.append((a[0].clone(), res[0].clone(), res[1].clone()))
        return res


def precond_cases(chk, only, lines, handlers, viol, quick, dyn):
    from linear_operator import settings
    from linear_operator.operators import (AddedDiagLinearOperator, ConstantDiagLinearOperator, DiagLinearOperator)
    rng = chk.rng
    kclasses = ["Dense[psd]", "Toeplitz", "Kronecker", "PsdSum", "ConstantMul", "BlockDiag", "SumBatch", "Chol[lower]",
                "BatchRepeat", "Sum[toeplitz+diag]", "BlockInterleaved"]
    dkinds = ["const", "const-batched", "diag-equal", "diag", "diag-batched", "diag-broadcast", "diag-mixed",
              "tiny", "tiny-mixed", "nearly", "nearly-mixed"]
    batches = [(), (2,)] if quick else [(), (2,), (2, 3)]
    for batch in batches:
        insts = catalogue.instances(rng, torch.float64, batch, 3, psd=True, depth=1, classes=kclasses)
        if not quick:
            insts += catalogue.instances(rng, torch.float64, batch, 5, psd=True, depth=1, classes=["Dense[psd]", "Toeplitz"])
        for it in insts:
            n = it.shape[-1]
            kb = tuple(it.shape[:-2])
            for dk in dkinds:
                if dk in ("const-batched", "diag-batched", "diag-mixed", "tiny-mixed", "nearly-mixed") and not kb:
                    continue
                if dk == "diag-broadcast" and not kb:
                    continue
                sizes = [(0, 0), (1, 0), (2, 0), (n, 0), (n + 3, 0), (None, 0), (2, n), (2, n + 1), (2, None)]
                if quick and not only:
                    sizes = [rng.choice(sizes[1:6]), rng.choice([sizes[0]] + sizes[6:])]
                for (mx, mn) in sizes:
                    ptol = rng.choice([None, 1e-9, 0.5, 0.05])
                    cell = f"C10/precond/{it.name}[b={batch}]/D={dk}/max={'default' if mx is None else ('0' if mx == 0 else ('lt_n' if mx < n else 'ge_n'))}/min={'default' if mn is None else ('0' if mn == 0 else ('le_n' if mn <= n else 'gt_n'))}"
                    if only and only != cell:
                        continue
                    try:
                        precond_case(chk, cell, it, dk, mx, mn, ptol, lines, handlers, viol, dyn)
                    except Exception as e:
                        viol(cell, f"exception {type(e).__name__}: {str(e)[:300]}", {"kind": "precond"})


def make_noise(rng, dk, kb, n):
    from linear_operator.operators import ConstantDiagLinearOperator, DiagLinearOperator
    r = lambda: float(rng.choice([0.5, 1.0, 2.0, 3.0, 0.25, 4.0]))
    if dk == "const":
        v = torch.tensor([r()], dtype=torch.float64)
        return ConstantDiagLinearOperator(v, diag_shape=n), v.expand(*kb, n)
    if dk == "const-batched":
        v = torch.tensor([r() for _ in range(int(torch.Size(kb).numel()))], dtype=torch.float64).reshape(*kb, 1)
        if len(set(v.flatten().tolist())) == 1:
            v.view(-1)[0] += 1.0
        return ConstantDiagLinearOperator(v, diag_shape=n), v.expand(*kb, n)
    if dk == "diag-equal":
        v = torch.full((*kb, n), r(), dtype=torch.float64)
        return DiagLinearOperator(v), v
    if dk == "diag":
        v = torch.tensor([r() for _ in range(n)], dtype=torch.float64)
        if len(set(v.tolist())) == 1 and n > 1:
            v[0] += 1.0
        v = v.expand(*kb, n).contiguous()
        return DiagLinearOperator(v), v
    if dk == "diag-batched":
        v = torch.tensor([r() for _ in range(int(torch.Size(kb).numel()) * n)], dtype=torch.float64).reshape(*kb, n)
        if n > 1:
            v[..., 0] = v[..., 1] + 1.0
        return DiagLinearOperator(v), v
    if dk == "diag-broadcast":   # unbatched noise added to a batched K
        v = torch.tensor([r() for _ in range(n)], dtype=torch.float64)
        if n > 1:
            v[0] = v[1] + 1.0
        return DiagLinearOperator(v), v.expand(*kb, n)
    if dk == "diag-mixed":       # first member constant, the others not: the batch-wide constant test must say "non-constant"
        v = torch.tensor([r() for _ in range(int(torch.Size(kb).numel()) * n)], dtype=torch.float64).reshape(-1, n)
        v[0] = v[0, 0]
        if n > 1:
            v[1:, 0] = v[1:, 1] + 1.0
        v = v.reshape(*kb, n)
        return DiagLinearOperator(v), v
    nbm = int(torch.Size(kb).numel())
    if dk in ("tiny", "tiny-mixed"):
        # all entries below 1e-8 but a factor of up to 9 apart (the kernel is scaled by 1e-8 by the caller): any absolute
        # tolerance in the constant-diagonal test would call this constant
        rows = []
        for b in range(nbm):
            ks = [rng.randint(1, 9) for _ in range(n)]
            if n > 1:
                ks[0], ks[-1] = 1, 9
            rows.append([1e-9 * k for k in ks])
        v = torch.tensor(rows, dtype=torch.float64)
        if dk == "tiny-mixed":
            v[0] = v[0, -1]          # first member exactly constant, the others not
        v = v.reshape(*kb, n)
        return DiagLinearOperator(v), v
    if dk in ("nearly", "nearly-mixed"):
        # relative spread 1e-7 .. 1e-6 at ordinary scale: any relative tolerance in the constant-diagonal test would call this constant
        rows = []
        for b in range(nbm):
            c = r()
            rows.append([c * (1.0 + (0.0 if i == 0 else 1e-7 + 2e-7 * rng.randint(1, 4) * i / max(1, n - 1))) for i in range(n)])
        v = torch.tensor(rows, dtype=torch.float64)
        if n == 1:
            v = v
        if dk == "nearly-mixed":
            v[0] = v[0, 0]           # first member exactly constant, the others nearly constant
        v = v.reshape(*kb, n)
        return DiagLinearOperator(v), v
    raise ValueError(dk)


def precond_case(chk, cell, it, dk, mx, mn, ptol, lines, handlers, viol, dyn):
    from linear_operator import settings
    from linear_operator.operators import AddedDiagLinearOperator, PsdSumLinearOperator
    rng = chk.rng
    K = it.dense.double()
    n = K.shape[-1]
    kb = tuple(K.shape[:-2])
    Dop, dvals = make_noise(rng, dk, kb, n)
    tiny = dk.startswith("tiny")
    if tiny:
        K = K * 1e-8

    def build_k():
        from linear_operator.operators import ConstantMulLinearOperator, DenseLinearOperator
        if not tiny:
            return it.build()
        if it.name == "Dense[psd]":
            return DenseLinearOperator(it.dense.double() * 1e-8)
        return ConstantMulLinearOperator(it.build(), torch.full(kb, 1e-8, dtype=torch.float64))
    payload = {"kind": "precond", "name": it.name, "dk": dk, "mx": mx, "mn": mn, "ptol": ptol}
    chk.case(f"{cell}|ptol={ptol}|{K.flatten()[:9].tolist()}|{dvals.flatten()[:6].tolist()}", nontrivial=n > 1)
    chk.count("precond:" + dk)
    spy = QRSpy()
    with ExitStack() as st:
        if mx is not None:
            st.enter_context(settings.max_preconditioner_size(mx))
        if mn is not None:
            st.enter_context(settings.min_preconditioning_size(mn))
        if ptol is not None:
            st.enter_context(settings.preconditioner_tolerance(ptol))
        mx_eff = settings.max_preconditioner_size.value()
        mn_eff = settings.min_preconditioning_size.value()
        tol_eff = settings.preconditioner_tolerance.value()
        op = AddedDiagLinearOperator(build_k(), Dop) if rng.random() < 0.5 else AddedDiagLinearOperator(Dop, build_k())
        torch.linalg.qr = spy
        try:
            closure, lt, logdet = op._preconditioner()
            solve_closure = op._solve_preconditioner()
        finally:
            torch.linalg.qr = spy.real
        enabled_spec = not (mx_eff == 0 or n < mn_eff)
        lines.append(f"en {mx_eff} {mn_eff} {n}")

        def h_en(o, enabled=closure is not None):
            if (o == "1") == enabled:
                chk.traces_validated += 1
            else:
                chk.corr_break(cell, f"model says preconditioner enabled={o}, implementation returned {'a closure' if enabled else 'None'}", payload)
        handlers.append(h_en)
        if (closure is not None) != enabled_spec:
            viol(cell, f"preconditioner {'returned' if closure is not None else 'missing'} with max_preconditioner_size={mx_eff}, "
                       f"min_preconditioning_size={mn_eff}, n={n}", payload)
            return
        if not enabled_spec:
            if lt is not None or logdet is not None or solve_closure is not None:
                viol(cell, "disabled preconditioner must return (None, None, None)", payload)
            return
        Lp = op._piv_chol_self
        if Lp is None or tuple(Lp.shape[:-1]) != (*kb, n) or Lp.shape[-1] > min(mx_eff, n):
            viol(cell, f"_piv_chol_self has shape {None if Lp is None else tuple(Lp.shape)} for n={n}, max size {mx_eff}", payload)
            return
        k = Lp.shape[-1]
        # the factor is the pivoted Cholesky of K with rank = max_preconditioner_size and the tolerance from the settings
        Kf = flat_batch(K, 2)
        mo, Lo, po, margin, stop_margin, minpiv = oracle_float(Kf, mx_eff, tol_eff)
        if margin > 1e-7 and stop_margin > 1e-5 and minpiv > 1e-9:
            Lpf = flat_batch(Lp, 2)
            if k != mo or float((Lpf - Lo).abs().max()) > 1e-7 * max(1e-12, float(Kf.abs().max())) ** 0.5:
                viol(cell, f"factor is not pivoted_cholesky(K, rank={mx_eff}, tol={tol_eff}): r={k} vs {mo}", payload)
                return
        Pm = Lp @ Lp.mT + torch.diag_embed(dvals)          # what the preconditioner must invert
        scale = float(Pm.abs().max())
        eye = torch.eye(n, dtype=torch.float64).expand(*kb, n, n)
        X = torch.tensor([[rng.randint(-3, 3) for _ in range(2)] for _ in range(n)], dtype=torch.float64).expand(*kb, n, 2).contiguous()
        Pinv = torch.linalg.inv(Pm)
        got_inv = closure(eye.clone())
        if got_inv.shape != Pinv.shape or float((got_inv - Pinv).abs().max()) > 1e-9 * max(1.0, float(Pinv.abs().max())):
            viol(cell, f"closure(I) differs from (L L^T + D)^-1 by {float((got_inv - Pinv).abs().max()) if got_inv.shape == Pinv.shape else 'shape'} (k={k})", payload)
            return
        pci = float((Pm @ got_inv - eye).abs().max())
        if pci > 1e-9:
            viol(cell, f"(L L^T + D) closure(I) differs from I by {pci:.3e} (k={k}, noise {dvals.reshape(-1, n)[0].tolist()})", payload)
            return
        cx = closure(X.clone())
        if float((Pm @ cx - X).abs().max()) > 1e-9 * scale * max(1.0, float(cx.abs().max())):
            viol(cell, f"(L L^T + D) closure(X) != X (err {float((Pm @ cx - X).abs().max()):.3e})", payload)
            return
        xv = X[..., :, :1]
        if float((closure(xv.clone()) - cx[..., :, :1]).abs().max()) > 1e-12 * max(1.0, float(cx.abs().max())):
            viol(cell, "closure on a single column differs from the column of closure(X)", payload)
            return
        if float((got_inv - got_inv.mT).abs().max()) > 1e-10 * max(1.0, float(Pinv.abs().max())) or \
                float(torch.linalg.eigvalsh((got_inv + got_inv.mT) / 2).min()) <= 0:
            viol(cell, "closure(I) is not symmetric positive definite", payload)
            return
        want_ld = torch.logdet(Pm)
        if not torch.is_tensor(logdet) or tuple(logdet.shape) != kb or float((logdet - want_ld).abs().max()) > 1e-9 * max(1.0, float(want_ld.abs().max())):
            viol(cell, f"logdet {logdet.tolist() if torch.is_tensor(logdet) else logdet} (shape {tuple(logdet.shape) if torch.is_tensor(logdet) else None}) vs log|L L^T + D| = {want_ld.tolist()} (k={k}, n={n})", payload)
            return
        ltd = lt.to_dense() if lt is not None else None
        if ltd is None or not isinstance(lt, PsdSumLinearOperator) or ltd.shape != Pm.shape or float((ltd - Pm).abs().max()) > 1e-12 * scale:
            viol(cell, "_precond_lt does not densify to L L^T + D", payload)
            return
        if solve_closure is None or float((solve_closure(X.clone()) - cx).abs().max()) > 0:
            viol(cell, "_solve_preconditioner() is not the closure of _preconditioner()", payload)
            return
        # second call re-uses the cache
        c2, lt2, ld2 = op._preconditioner()
        if lt2 is not lt or ld2 is not logdet or float((c2(X.clone()) - cx).abs().max()) > 0:
            viol(cell, "second _preconditioner() call does not return the cached objects", payload)
            return
        # ---- correspondence with the Lean model (per batch member)
        const_spec = all(len(set(row.tolist())) == 1 for row in dvals.reshape(-1, n))
        lines.append("cd " + "|".join(",".join(fmt_rat(Fraction(float(v))) for v in row) for row in dvals.reshape(-1, n)))

        def h_cd(o, flag=bool(op._constant_diag)):
            if (o == "1") == flag:
                chk.traces_validated += 1
            else:
                chk.corr_break(cell, f"model _constant_diag={o}, implementation {flag}", payload)
        handlers.append(h_cd)
        if bool(op._constant_diag) != const_spec:
            chk.corr_break(cell, f"_constant_diag={op._constant_diag} but the noise is {'constant' if const_spec else 'not constant'} per member", payload)
        if len(spy.calls) != 1:
            chk.corr_break(cell, f"{len(spy.calls)} torch.linalg.qr calls, model expects 1", payload)
            return
        qin, Q, R = spy.calls[0]
        nbm = int(torch.Size(kb).numel())
        members = [rng.randrange(nbm)] if chk.tier == "quick" or nbm > 2 else range(nbm)
        if chk.tier != "quick" and rng.random() < 0.6:
            members = []
        fm = lambda t: mat_line(frac_mat(t))
        for mi in members:
            Lm, Qm, Rm = flat_batch(Lp, 2)[mi], flat_batch(Q, 2)[mi], flat_batch(R, 2)[mi]
            dm = dvals.reshape(-1, n)[mi]
            kind = "const" if op._constant_diag else "nonconst"
            noise = fmt_rat(Fraction(float(dm[0]))) if kind == "const" else ",".join(fmt_rat(Fraction(float(v))) for v in dm)
            lines.append(f"pre {kind} {noise} {fm(Lm)} {fm(Qm)} {fm(Rm)} {fm(X.reshape(-1, n, 2)[mi][:, :1])}")
            want = {"qrin": flat_batch(qin, 2)[mi], "q": flat_batch(op._q_cache, 2)[mi], "closure": flat_batch(cx, 2)[mi][:, :1],
                    "logdet": logdet.reshape(-1)[mi].reshape(1, 1), "lt": flat_batch(ltd, 2)[mi]}

            def h(o, want=want):
                try:
                    d = dict(x.split("=", 1) for x in o.split())
                    worst = None
                    for key, w in want.items():
                        g = torch.tensor(parse_fmat(d[key], bits_to_float), dtype=torch.float64).reshape(w.shape)
                        err = float((g - w).abs().max()) / max(1.0, float(w.abs().max()))
                        if err > 1e-10:
                            worst = (key, err)
                    ok = worst is None
                except Exception as e:
                    ok, worst = False, f"unparsable driver output {o[:200]} ({e})"
                if ok:
                    chk.traces_validated += 1
                else:
                    chk.corr_break(cell, f"Lean preconditioner model disagrees with the implementation: {worst}", payload)
            handlers.append(h)


# ------------------------------------------------------------------------------------------------ replay
def replay(chk, payload):
    p = payload.get("payload") or {}
    cell = p.get("cell")
    if not cell:
        print("replay names broken obligations only:", json.dumps(p)[:1500])
        return run(chk)
    chk.rng = random.Random(f"{PID}:{p.get('seed', 0)}")
    chk.tier = p.get("tier", chk.tier)
    if p.get("kind") == "exact":
        As = [[[Fraction(v) for v in row] for row in A] for A in p["A"]]
        tolv = None if p["tol"] is None else Fraction(p["tol"])
        from linear_operator import settings
        tol_eff = Fraction(str(settings.preconditioner_tolerance.value())) if tolv is None else tolv
        m, mem, ok = oracle_exact(As, p["rank"], tol_eff)
        lines, handlers = [], []

        def viol(c, what, pl):
            chk.violation(c, what, pl)
        exact_case(chk, cell, As, p["rank"], "replay", tolv, tol_eff, m, mem, lines, handlers, viol, len(As), len(As[0]))
        return
    if p.get("kind") in ("hist", "hist-precond"):
        from . import c10_hist
        As = [[[Fraction(v) for v in row] for row in A] for A in p["A"]]
        lines, handlers = [], []

        def viol(c, what, pl):
            chk.violation(c, what, pl)
        if p["kind"] == "hist":
            c10_hist.pc_history_run(chk, cell, p["opkind"], p["order"], As, p["rank"], Fraction(p["loose"]),
                                    None if p["tight"] is None else Fraction(p["tight"]),
                                    torch.float32 if "32" in p["dtype"] else torch.float64, tuple(p["bshape"]), lines, handlers, viol)
        else:
            cfgs = [(a, None if b is None else Fraction(b)) for a, b in p["cfgs"]]
            c10_hist.precond_history_run(chk, cell, p["opkind"], p["dkind"], As, cfgs, p["noises"], p["first_direct"], lines, handlers, viol)
        return
    run(chk, only=cell)
