"""C02, batched layer (part `batchm`): the Lean model LinOp/C02/Batch.lean vs the library.

impl  = the library's batch rewrites (unsqueeze / permute / sum / prod / expand / _expand_batch), `@` and `+` between operands
        of different batch ranks (MatmulLinearOperator / SumLinearOperator constructors), `mul` with batches of constants;
spec  = the same expression on dense tensors (torch broadcasting);
model = DriverB.lean: CLASS TREE WITH THE BATCH SHAPE OF EVERY TENSOR + exact values of EVERY batch element.
Own random stream (replayable alone).
"""
import itertools
import random
import zlib

import torch

from ..common import fmt_rat
from .. import catalogue as C

PID = "C02"


class NotEncodable(Exception):
    pass


def shp(s):
    return ",".join(str(int(x)) for x in s) if len(s) else "-"


def flat(t):
    return ",".join(fmt_rat(float(x)) for x in t.reshape(-1).tolist()) if t.numel() else "-"


def benc(op):
    """Prefix encoding of a library operator with the batch shape of each of its tensors."""
    n = type(op).__name__
    if n == "DenseLinearOperator":
        t = op.tensor
        return f"D {shp(t.shape[:-2])} {t.shape[-2]} {t.shape[-1]} {flat(t)}"
    if n == "DiagLinearOperator":
        d = op._diag
        return f"G {shp(d.shape[:-1])} {d.shape[-1]} {flat(d)}"
    if n == "ConstantDiagLinearOperator":
        v = op.diag_values
        return f"C {shp(v.shape[:-1])} {op.diag_shape} {flat(v)}"
    if n == "IdentityLinearOperator":
        return f"I {shp(op.batch_shape)} {op.shape[-1]}"
    if n == "ZeroLinearOperator":
        return f"Z {shp(op.shape[:-2])} {op.shape[-2]} {op.shape[-1]}"
    if n == "ToeplitzLinearOperator":
        c = op.column
        return f"P {shp(c.shape[:-1])} {c.shape[-1]} {flat(c)}"
    if n == "TriangularLinearOperator":
        return f"T {1 if op.upper else 0} {benc(op._tensor)}"
    if n == "RootLinearOperator":
        return f"R {benc(op.root)}"
    if n == "SumLinearOperator":
        return f"S {len(op.linear_ops)} " + " ".join(benc(x) for x in op.linear_ops)
    if n == "MatmulLinearOperator":
        return f"MM {benc(op.left_linear_op)} {benc(op.right_linear_op)}"
    if n == "ConstantMulLinearOperator":
        k = op._constant
        return f"CM {shp(k.shape)} {flat(k)} {benc(op.base_linear_op)}"
    raise NotEncodable(n)


def btree(op):
    """Class tree with batch shapes, in the notation of `BOp.tree` (Lean)."""
    n = type(op).__name__
    sh = lambda s: "[" + ",".join(str(int(x)) for x in s) + "]"
    if n == "DenseLinearOperator":
        return "Dense" + sh(op.tensor.shape[:-2])
    if n == "DiagLinearOperator":
        return "Diag" + sh(op._diag.shape[:-1])
    if n == "ConstantDiagLinearOperator":
        return "ConstantDiag" + sh(op.diag_values.shape[:-1])
    if n == "IdentityLinearOperator":
        return "Identity" + sh(op.batch_shape)
    if n == "ZeroLinearOperator":
        return "Zero" + sh(op.shape[:-2])
    if n == "ToeplitzLinearOperator":
        return "Toeplitz" + sh(op.column.shape[:-1])
    if n == "TriangularLinearOperator":
        return f"Triangular[{'U' if op.upper else 'L'}](" + btree(op._tensor) + ")"
    if n == "RootLinearOperator":
        return "Root(" + btree(op.root) + ")"
    if n == "SumLinearOperator":
        return "Sum(" + ",".join(btree(x) for x in op.linear_ops) + ")"
    if n == "MatmulLinearOperator":
        return "Matmul(" + btree(op.left_linear_op) + "," + btree(op.right_linear_op) + ")"
    if n == "ConstantMulLinearOperator":
        return "ConstantMul" + sh(op._constant.shape) + "(" + btree(op.base_linear_op) + ")"
    return f"?{n}"


class BI:
    """A batched instance: `make()` -> (operator, dense)."""
    def __init__(self, name, make, override=True, zero=False):
        self.name, self.make, self.override, self.zero = name, make, override, zero
        self.dense = make()[1]
        self.shape = tuple(self.dense.shape)

    def build(self):
        return self.make()[0]


def insts(rng, B, n=3):
    from linear_operator.operators import (
        ConstantDiagLinearOperator, ConstantMulLinearOperator, DenseLinearOperator, DiagLinearOperator, IdentityLinearOperator,
        MatmulLinearOperator, RootLinearOperator, SumLinearOperator, ToeplitzLinearOperator, TriangularLinearOperator,
        ZeroLinearOperator)
    dt = torch.float64
    r = lambda *s, lo=-3, hi=3: C.ri(rng, (*B, *s), lo, hi, dt)
    a, a2, rect = r(n, n), r(n, n), r(2, n)
    d, cv = r(n, lo=1, hi=3), r(1, lo=1, hi=3)
    col = r(n)
    rt = r(n, 2)
    lowm = torch.tril(r(n, n))
    upm = torch.triu(r(n, n))
    kc = r(lo=-2, hi=3) if B else torch.tensor(2.0, dtype=dt)
    eye = torch.eye(n, dtype=dt)

    def toep_dense(c):
        idx = (torch.arange(n).unsqueeze(-1) - torch.arange(n).unsqueeze(0)).abs()
        return c[..., idx]
    mk = [
        ("Dense", lambda: (DenseLinearOperator(a.clone()), a), True, False),
        ("Dense<rect>", lambda: (DenseLinearOperator(rect.clone()), rect), True, False),
        ("Diag", lambda: (DiagLinearOperator(d.clone()), torch.diag_embed(d)), True, False),
        ("ConstantDiag", lambda: (ConstantDiagLinearOperator(cv.clone(), diag_shape=n), cv.unsqueeze(-1) * eye), True, False),
        ("Identity", lambda: (IdentityLinearOperator(n, batch_shape=torch.Size(B), dtype=dt), eye.expand(*B, n, n)), True, False),
        ("Zero", lambda: (ZeroLinearOperator(*B, n, n, dtype=dt), torch.zeros(*B, n, n, dtype=dt)), True, True),
        ("Toeplitz", lambda: (ToeplitzLinearOperator(col.clone()), toep_dense(col)), False, False),
        ("Triangular<L>", lambda: (TriangularLinearOperator(lowm.clone()), lowm), False, False),
        ("Triangular<U>", lambda: (TriangularLinearOperator(upm.clone(), upper=True), upm), False, False),
        ("Root", lambda: (RootLinearOperator(rt.clone()), rt @ rt.mT), False, False),
        ("Sum(Dense,Toeplitz)", lambda: (SumLinearOperator(DenseLinearOperator(a.clone()), ToeplitzLinearOperator(col.clone())),
                                          a + toep_dense(col)), False, False),
        ("Sum(Dense,Diag,Identity)", lambda: (SumLinearOperator(DenseLinearOperator(a.clone()), DiagLinearOperator(d.clone()),
                                                                 IdentityLinearOperator(n, batch_shape=torch.Size(B), dtype=dt)),
                                               a + torch.diag_embed(d) + eye), True, False),
        ("Matmul(Dense,Diag)", lambda: (MatmulLinearOperator(DenseLinearOperator(a.clone()), DiagLinearOperator(d.clone())),
                                         a @ torch.diag_embed(d)), False, False),
        ("ConstantMul(Toeplitz)", lambda: (ConstantMulLinearOperator(ToeplitzLinearOperator(col.clone()), kc.clone()),
                                            toep_dense(col) * kc.reshape(*kc.shape, 1, 1)), False, False),
        ("ConstantMul0d(Dense)", lambda: (ConstantMulLinearOperator(DenseLinearOperator(a2.clone()), torch.tensor(-2.0, dtype=dt)),
                                           a2 * -2.0), False, False),
        ("Triangular<L>(Sum)", lambda: (TriangularLinearOperator(SumLinearOperator(DenseLinearOperator(lowm.clone()),
                                                                                   DiagLinearOperator(d.clone()))),
                                         lowm + torch.diag_embed(d)), True, False),
    ]
    return [BI(nm, f, ov, z) for nm, f, ov, z in mk]


def unary_cases(it):
    """(name, model words, impl(o), spec(dense), kind)"""
    B = it.shape[:-2]
    nb = len(B)
    nd = nb + 2
    cs = []
    for p in range(nb + 1):
        for d in (p, p - nd - 1):
            cs.append((f"unsqueeze{d}", f"unsq {d}", lambda o, d=d: o.unsqueeze(d), lambda t, p=p: t.unsqueeze(p), "unsqueeze"))
    if not it.zero:   # ZeroLinearOperator._permute_batch keeps its sizes: an open finding, reported by the other parts
        for perm in itertools.permutations(range(nb)):
            if nb < 2 or list(perm) == list(range(nb)):
                continue
            nm = "".join(map(str, perm))
            pos = list(perm) + [nb, nb + 1]
            neg = [q - nd for q in perm] + [-2, -1]
            for tag, dims in (("", pos), ("neg", neg)):
                cs.append((f"permute{tag}{nm}", "perm " + ",".join(map(str, dims)), lambda o, dims=dims: o.permute(*dims),
                           lambda t, pos=pos: t.permute(*pos), "permute"))
    for p in range(nb):
        for d in (p, p - nd):
            cs.append((f"sum{d}", f"sum {d}", lambda o, d=d: o.sum(d), lambda t, p=p: t.sum(p), "sum"))
            if it.name in ("Dense", "Dense<rect>", "Diag", "ConstantDiag", "Identity", "Zero"):
                cs.append((f"prod{d}", f"prod {d}", lambda o, d=d: o.prod(d), lambda t, p=p: t.prod(p), "prod"))
    m, k = it.shape[-2:]
    cs.append(("expand-new", "expand " + ",".join(map(str, (2, *B, m, k))), lambda o: o.expand(2, *B, m, k),
               lambda t: t.expand(2, *B, m, k), "expand"))
    cs.append(("expand-new-1", "expand " + ",".join(map(str, (2, *([-1] * nb), -1, -1))), lambda o: o.expand(2, *([-1] * nb), -1, -1),
               lambda t: t.expand(2, *B, m, k), "expand"))
    cs.append(("expand-same", "expand " + ",".join(map(str, (*B, m, k))), lambda o: o.expand(*B, m, k), lambda t: t, "expand"))
    if 1 in B:
        S = tuple(4 if s == 1 else s for s in B)
        cs.append(("expand-ones", "expand " + ",".join(map(str, (*S, m, k))), lambda o: o.expand(*S, m, k),
                   lambda t: t.expand(*S, m, k), "expand"))
        cs.append(("_expand_batch-ones", "_expand " + shp((3, *S)), lambda o: o._expand_batch(torch.Size((3, *S))),
                   lambda t: t.expand(3, *S, m, k), "_expand_batch"))
    cs.append(("_expand_batch-new", "_expand " + shp((2, *B)), lambda o: o._expand_batch(torch.Size((2, *B))),
               lambda t: t.expand(2, *B, m, k), "_expand_batch"))
    return cs


FOLLOW = [("unsqueeze1", "unsq 1", lambda o: o.unsqueeze(1), lambda t: t.unsqueeze(1)),
          ("unsqueeze-3", "unsq -3", lambda o: o.unsqueeze(-3), lambda t: t.unsqueeze(-3)),
          ("permute-rev", None, None, None),
          ("sum0", "sum 0", lambda o: o.sum(0), lambda t: t.sum(0)),
          ("expand-new", None, None, None)]

MIX = {"32v2": ((3, 2), (2,)), "0v32": ((), (3, 2)), "31v2": ((3, 1), (2,)), "2v32": ((2,), (3, 2)), "32v12": ((3, 2), (1, 2)),
       "2v2": ((2,), (2,))}


class BatchRunner:
    def __init__(self, chk):
        self.chk, self.lines, self.meta = chk, [], []

    def case(self, cell, desc, impl, spec, words, payload, opkind):
        from .c02 import declared_unsupported, is_op
        chk = self.chk
        try:
            want = spec()
        except Exception:
            return None
        chk.case(desc, nontrivial=bool(want.numel() > 1 and (want != 0).any()))
        chk.count("cases")
        chk.count("op:batchm-" + opkind)
        try:
            res = impl()
        except Exception as e:
            if declared_unsupported(e, opkind):
                chk.count("declared-unsupported")
                return None
            chk.violation(f"{cell}/raise:{type(e).__name__}", f"{desc}: {type(e).__name__}: {str(e)[:160]}", payload)
            return None
        try:
            got = res if torch.is_tensor(res) else res.to_dense()
        except Exception as e:
            chk.violation(f"{cell}/raise-to_dense:{type(e).__name__}", f"{desc}: to_dense: {type(e).__name__}: {str(e)[:160]}", payload)
            return None
        bad = None
        if tuple(got.shape) != tuple(want.shape) or (is_op(res) and tuple(res.shape) != tuple(want.shape)):
            bad = ("shape", f"shape {tuple(got.shape)} / {tuple(res.shape)} != {tuple(want.shape)}")
        elif got.dtype != want.dtype:
            bad = ("dtype", f"dtype {got.dtype} != {want.dtype}")
        elif want.numel() and not torch.allclose(got, want, atol=1e-9 * max(1.0, float(want.abs().max())), rtol=0):
            bad = ("value", f"max abs diff {float((got - want).abs().max()):.3g}")
        if bad:
            chk.violation(f"{cell}/{bad[0]}", f"{desc}: {bad[1]} (result {btree(res) if is_op(res) else 'Tensor'})", payload)
            return None
        if words is not None and is_op(res):
            self.lines.append(words)
            self.meta.append((cell, btree(res), got, payload))
        return res

    def flush(self):
        from fractions import Fraction
        chk = self.chk
        outs = chk.run_driver("LinOp.C02.DriverB", self.lines) if self.lines else []
        if outs is None:
            return
        for line, out, (cell, itree, got, payload) in zip(self.lines, outs, self.meta):
            parts = out.split(" ")
            if parts[0] != "ok":
                chk.corr_break(f"{cell}/tree", f"batched model says `{out[:80]}`, implementation returned {itree}; line `{line[:200]}`", payload)
                continue
            if parts[1] != itree:
                chk.corr_break(f"{cell}/tree", f"class tree with batch shapes: model {parts[1]} vs implementation {itree}", payload)
                continue
            mshape = tuple(int(x) for x in parts[2].split(",")) if parts[2] != "-" else ()
            if mshape + (int(parts[3]), int(parts[4])) != tuple(got.shape):
                chk.corr_break(f"{cell}/model-shape", f"shape: model {mshape + (int(parts[3]), int(parts[4]))} vs implementation {tuple(got.shape)}", payload)
                continue
            vals = [float(Fraction(x)) for x in parts[5].split(",")] if parts[5] != "-" else []
            mt = torch.tensor(vals, dtype=got.dtype).reshape(got.shape)
            if not torch.allclose(mt, got, atol=1e-9 * max(1.0, float(got.abs().max()) if got.numel() else 1.0), rtol=0):
                chk.corr_break(f"{cell}/model-value", f"value (all batch elements): model {parts[5][:80]} vs implementation {got.reshape(-1).tolist()[:12]}", payload)
                continue
            chk.traces_validated += 1
        self.lines, self.meta = [], []


class PState:
    """One node of a BProg program: how to build the library object, its dense value, the driver words, capability flags."""
    def __init__(self, build, dense, words, desc, sumok, prodok):
        self.build, self.dense, self.words, self.desc, self.sumok, self.prodok = build, dense, words, desc, sumok, prodok


def prog_step(rng, st, kinds):
    """Apply one seed-chosen batch rewrite (of a kind in `kinds` that is applicable) to a program state; returns (tag, new state)."""
    B = tuple(st.dense.shape[:-2])
    nb = len(B)
    m, k = st.dense.shape[-2:]
    ok = [x for x in kinds if x in ("unsq", "expand") or (x == "perm" and nb >= 2) or (x == "sum" and nb >= 1 and st.sumok)
          or (x == "prod" and nb >= 1 and st.prodok)]
    kind = rng.choice(ok)
    b0 = st.build
    if kind == "unsq":
        d = rng.randrange(nb + 1)
        return kind, PState(lambda: b0().unsqueeze(d), st.dense.unsqueeze(d), f"RU {d} {st.words}", f"unsqueeze{d}({st.desc})",
                            st.sumok, st.prodok)
    if kind == "perm":
        perm = list(range(nb))
        while perm == list(range(nb)):
            rng.shuffle(perm)
        return kind, PState(lambda: b0().permute(*perm, nb, nb + 1), st.dense.permute(*perm, nb, nb + 1),
                            f"RP {shp(perm)} {st.words}", f"permute{perm}({st.desc})", st.sumok, st.prodok)
    if kind == "expand":
        S = tuple(rng.choice((2, 3)) if (s == 1 and rng.random() < 0.7) else s for s in B)
        if S == B or rng.random() < 0.5:
            S = (2,) + S
        return kind, PState(lambda: b0()._expand_batch(torch.Size(S)), st.dense.expand(*S, m, k), f"RE {shp(S)} {st.words}",
                            f"_expand_batch{list(S)}({st.desc})", st.sumok, st.prodok)
    d = rng.randrange(nb)
    if kind == "sum":
        return kind, PState(lambda: b0().sum(d), st.dense.sum(d), f"RS {d} {st.words}", f"sum{d}({st.desc})", st.sumok, st.prodok)
    return kind, PState(lambda: b0().prod(d), st.dense.prod(d), f"RX {d} {st.words}", f"prod{d}({st.desc})", st.sumok, st.prodok)


def prog_binary(op, x, y):
    """`x op y` as a program state, or None unless the library takes the base-class branch (`MatmulLinearOperator(self, other)` /
    `SumLinearOperator(self, other)`: the constructors `mkMatmul` / `mkSum2` model)."""
    from .c02 import is_op
    f = (lambda u, v: u @ v) if op == "matmul" else (lambda u, v: u + v)
    try:
        xo, yo = x.build(), y.build()
        res = f(xo, yo)
        dres = f(x.dense, y.dense)
    except Exception:
        return None
    want = "MatmulLinearOperator" if op == "matmul" else "SumLinearOperator"
    if not is_op(res) or type(res).__name__ != want or type(xo).__name__ == "SumLinearOperator" and op == "add":
        return None
    parts = (res.left_linear_op, res.right_linear_op) if op == "matmul" else tuple(res.linear_ops)
    if [type(q).__name__ for q in parts] != [type(xo).__name__, type(yo).__name__]:
        return None
    bx, by = x.build, y.build
    return PState(lambda: f(bx(), by()), dres, f"{'M' if op == 'matmul' else 'A'} {x.words} {y.words}",
                  f"({x.desc} {op} {y.desc})", False, False)


def leaf_state(it):
    try:
        w = "L " + benc(it.build())
    except NotEncodable:
        return None
    return PState(it.build, it.dense, w, f"{it.name}{list(it.shape[:-2])}", it.override and not it.zero,
                  it.name in ("Dense", "Dense<rect>", "Diag", "ConstantDiag", "Identity"))


def run_prog(chk, R, thorough, shapes, get):
    """(e) seed-random programs of `BProg` (LinOp/C02/BProg.lean): the model evaluator `beval` — the function `beval_refines_partial`
    is about — vs the library vs dense torch.  chain: leaf, three rewrites; bin: (a op b) of mixed batch ranks, two rewrites, then
    (for `@`) a second broadcasting op with a fresh leaf and one more rewrite."""
    rng = random.Random(f"{PID}:batchm-prog:{chk.seed}")
    reps = 1 if not thorough else 4
    def emit(form, cellmid, st, payload):
        R.case(f"C02/batchm/prog/{form}/{cellmid}", f"prog {st.desc}", st.build, lambda: st.dense, "prog " + st.words, payload, "prog-" + form)
    for B in shapes:
        for it in insts(rng, B):
            if it.zero:
                continue
            for _ in range(reps):
                st = leaf_state(it)
                if st is None:
                    continue
                tags = []
                for _k in range(3):
                    t, st = prog_step(rng, st, ("unsq", "perm", "expand", "sum", "prod"))
                    tags.append(t)
                emit("chain", f"{it.name}/{'-'.join(tags)}/b={len(B)}{'+1' if 1 in B else ''}", st,
                     {"part": "batchm", "sub": "prog"})
    kinds = list(MIX)
    for kind in kinds:
        ba, bb = MIX[kind]
        for a in get(ba):
            for b in get(bb):
                if a.zero or b.zero:
                    continue
                for op in ("matmul", "add"):
                    if not thorough:
                        h = zlib.crc32(f"prog|{a.name}|{b.name}|{op}".encode())
                        sel = (h + chk.seed) % (3 * len(kinds))   # quick: each (a, b, op) runs with one kind, for 1 seed in 3
                        if sel >= len(kinds) or kinds[sel] != kind:
                            continue
                    elif (zlib.crc32(f"prog|{a.name}|{b.name}|{op}".encode()) + chk.seed) % 3 != kinds.index(kind) % 3:
                        continue   # thorough: two of the six batch kinds per (a, b, op) (a nested lazy product costs ~0.17 s in the driver)
                    la, lb = leaf_state(a), leaf_state(b)
                    if la is None or lb is None:
                        continue
                    st = prog_binary(op, la, lb)
                    if st is None:
                        continue
                    tags = []
                    for _k in range(2):
                        t, st = prog_step(rng, st, ("unsq", "perm", "expand"))
                        tags.append(t)
                    if op == "matmul":
                        c = rng.choice([x for x in get((2,)) if x.name in ("Dense", "Toeplitz", "Matmul(Dense,Diag)", "ConstantMul0d(Dense)")])
                        lc = leaf_state(c)
                        op2 = rng.choice(("matmul", "add"))
                        st2 = prog_binary(op2, st, lc) if lc is not None else None
                        if st2 is not None:
                            t, st = prog_step(rng, st2, ("unsq", "perm", "expand"))
                            tags += [op2 + ":" + c.name, t]
                    emit("bin", f"{op}/{a.name}/{b.name}/b={kind}/{'-'.join(tags)}", st, {"part": "batchm", "sub": "prog"})


def mul_kind_of_library(bs, osh):
    """Which branch `LinearOperator.mul` takes for a tensor of shape `osh` (probe subclass records the private call)."""
    from linear_operator.operators import DenseLinearOperator
    seen = {}

    class Probe(DenseLinearOperator):
        def _mul_constant(self, other):
            seen["k"] = "constant0d" if other.dim() == 0 else "constantBatch"
            seen["shape"] = tuple(other.shape)
            return self

        def _mul_matrix(self, other):
            seen["k"] = "matrix"
            return self
    p = Probe(torch.zeros(*bs, 3, 3, dtype=torch.float64))
    try:
        p.mul(torch.ones(tuple(osh), dtype=torch.float64))
    except Exception as e:
        return f"raise:{type(e).__name__}", None
    return seen.get("k"), seen.get("shape")


def run_batchm(chk, thorough):
    from .c02 import is_op
    rng = random.Random(f"{PID}:batchm:{chk.seed}")
    R = BatchRunner(chk)
    dt = torch.float64
    shapes = [(2,), (2, 3), (3, 1, 2)] if not thorough else [(2,), (2, 3), (3, 1, 2), (1,), (2, 1), (4, 2, 3)]
    # ---- (a) unary batch rewrites of every instance
    for B in shapes:
        for it in insts(rng, B):
            for name, words, fi, fs, kind in unary_cases(it):
                cell = f"C02/batchm/{name}/{it.name}/b={len(B)}{'+1' if 1 in B else ''}"
                payload = {"part": "batchm", "sub": "unary", "inst": it.name, "B": list(B), "case": name}
                line = None
                try:
                    line = f"{words} leaf {benc(it.build())}"
                except NotEncodable:
                    pass
                if kind in ("sum", "prod") and not it.override:
                    line = None   # base class: SumBatchLinearOperator / root decompositions (outside the batched embedding)
                R.case(cell, f"{name}({it.name}{list(B)})", lambda it=it, fi=fi: fi(it.build()), lambda it=it, fs=fs: fs(it.dense),
                       line, payload, kind)
    # ---- (b) `@` and `+` between operands of different batch ranks, then a rewrite of the result
    kinds = list(MIX)
    cache = {}

    def get(B):
        if B not in cache:
            cache[B] = [it for it in insts(rng, B) if it.shape[-2:] == (3, 3)]
        return cache[B]
    for kind in kinds:
        ba, bb = MIX[kind]
        for a in get(ba):
            for b in get(bb):
                for op in ("matmul", "add") + (("mulm",) if b.zero else ()):
                    if op == "mulm" and a.name == "Root":
                        continue
                    if not thorough and kind != "32v2":
                        h = zlib.crc32(f"{a.name}|{b.name}|{op}".encode())
                        if kinds[1 + (h + chk.seed) % (len(kinds) - 1)] != kind:
                            continue
                    f = (lambda x, y: x @ y) if op == "matmul" else ((lambda x, y: x + y) if op == "add" else (lambda x, y: x * y))
                    try:
                        res = f(a.build(), b.build())
                    except Exception:
                        continue   # the binary step itself is checked by the pairs / mixed parts
                    want_cls = "MatmulLinearOperator" if op == "matmul" else "SumLinearOperator"
                    modelled = is_op(res) and type(res).__name__ == want_cls and (op == "matmul" or len(res.linear_ops) == 2)
                    if modelled:   # only the base-class branches (`MatmulLinearOperator(self, other)` / `SumLinearOperator(self, other)`)
                        parts_ = (res.left_linear_op, res.right_linear_op) if op == "matmul" else tuple(res.linear_ops)
                        modelled = [type(x).__name__ for x in parts_] == [type(a.build()).__name__, type(b.build()).__name__]
                    sym = "@" if op == "matmul" else "+"
                    try:
                        base = f"{sym} leaf {benc(a.build())} leaf {benc(b.build())}" if modelled else None
                    except NotEncodable:
                        base = None
                    direct = a.name.split("(")[0].split("<")[0] in ("Dense", "Toeplitz", "Root", "Sum", "Matmul", "ConstantMul", "ConstantMul0d")
                    if b.zero and (op == "mulm" or (op == "add" and direct)) and not a.zero and is_op(res):
                        # d734ac2: `A + Zero` = A broadcast (`addZeroRight`), `A * Zero` = Zero of the broadcast shape (`mulZeroRight`)
                        try:
                            base = f"{'addz' if op == 'add' else 'mulz'} {shp(bb)} leaf {benc(a.build())}"
                        except NotEncodable:
                            base = None
                    if op == "add" and modelled and a.name.startswith("Sum"):
                        base = None   # SumLinearOperator.__add__ flattens: the unbatched model's ladder
                    dres = f(a.dense, b.dense)
                    cell0 = f"C02/batchm/{op}/{a.name}/{b.name}/b={kind}"
                    payload = {"part": "batchm", "sub": "binary", "op": op, "a": a.name, "b": b.name, "kind": kind}
                    R.case(cell0, f"{a.name}{list(ba)} {op} {b.name}{list(bb)}", lambda a=a, b=b, f=f: f(a.build(), b.build()),
                           lambda: dres, base, payload, op)
                    if not is_op(res) or a.zero or b.zero:
                        continue
                    nb = dres.dim() - 2
                    for fname, fw, fi, fs in FOLLOW:
                        if fname == "permute-rev":
                            if nb < 2:
                                continue
                            dims = list(reversed(range(nb))) + [nb, nb + 1]
                            fw, fi, fs = "perm " + ",".join(map(str, dims)), (lambda o, dims=dims: o.permute(*dims)), (lambda t, dims=dims: t.permute(*dims))
                        if fname == "expand-new":
                            sz = (2, *dres.shape)
                            fw, fi, fs = "expand " + ",".join(map(str, sz)), (lambda o, sz=sz: o.expand(*sz)), (lambda t, sz=sz: t.expand(*sz))
                        if fname == "sum0" and nb < 1:
                            continue
                        line = f"{fw} {base}" if base is not None and not fname.startswith("sum") else None
                        R.case(f"{cell0}/{fname}", f"{fname}({a.name}{list(ba)} {op} {b.name}{list(bb)})",
                               lambda a=a, b=b, f=f, fi=fi: fi(f(a.build(), b.build())), lambda fs=fs: fs(dres), line,
                               dict(payload, follow=fname), fname.rstrip("0123456789-"))
    # ---- (c) `mul` with batches of constants
    for B in shapes:
        full = C.ri(rng, (*B, 1, 1), -3, 3, dt, nonzero=True)
        consts = [("full", full, tuple(B)), ("0d", torch.tensor(-2.0, dtype=dt), ()), ("1elt", torch.tensor([[3.0]], dtype=dt), ())]
        if len(B) >= 2:
            low = C.ri(rng, (*B[1:], 1, 1), -3, 3, dt, nonzero=True)
            consts.append(("lowrank", low, tuple(B[1:])))
        for it in insts(rng, B):
            if it.name == "Root":
                continue   # (c > 0).all() folding into the root: the unbatched model's `mulConst`
            for cname, cten, cbs in consts:
                cell = f"C02/batchm/mulconst-{cname}/{it.name}/b={len(B)}{'+1' if 1 in B else ''}"
                payload = {"part": "batchm", "sub": "mulconst", "inst": it.name, "B": list(B), "const": cname}
                line = None
                try:
                    # (the front-end squeezes a one-element tensor to a 0-d constant, whatever its shape)
                    line = f"*c {shp(() if cten.numel() == 1 else cbs)} {flat(cten)} leaf {benc(it.build())}"
                except NotEncodable:
                    pass
                if cname == "lowrank" and it.name not in ("Diag", "ConstantDiag", "Identity", "Zero"):
                    line = None   # a ConstantMul keeping a constant of LOWER batch rank is outside `BOp.uniform` (impl vs dense only)
                R.case(cell, f"{it.name}{list(B)} * const[{cname}]", lambda it=it, cten=cten: it.build() * cten.clone(),
                       lambda it=it, cten=cten: it.dense * cten, line, payload, "mul")
    # ---- (e) seed-random programs run by `beval`
    run_prog(chk, R, thorough, shapes, get)
    R.flush()
    # ---- (d) the front-end tests of `LinearOperator.mul` (which private method a tensor argument reaches)
    combos = []
    for bs in [(), (2,), (2, 3), (1,), (3, 1)]:
        for osh in [(), (1,), (1, 1), (1, 1, 1), (*bs, 1, 1), (*bs[1:], 1, 1), (3, 3), (*bs, 3, 3), (1, 3), (3, 1), (*bs, 1, 3),
                    (2, *bs, 1, 1), (3, 1, 1), (2, 1, 1)]:
            combos.append((bs, tuple(osh)))
    combos = sorted(set(combos))
    lines, keep = [], []
    for bs, osh in combos:
        try:
            torch.broadcast_shapes((*bs, 3, 3), osh)
        except RuntimeError:
            continue
        kind, cshape = mul_kind_of_library(bs, osh)
        chk.case(f"mul front-end: self batch {list(bs)} x tensor {list(osh)}", nontrivial=True)
        chk.count("op:batchm-mulkind")
        lines.append(f"mulkind {shp(bs)} {shp(osh)}")
        keep.append((bs, osh, kind, cshape))
    outs = chk.run_driver("LinOp.C02.DriverB", lines) if lines else []
    for (bs, osh, kind, cshape), out in zip(keep, outs or []):
        cell = f"C02/batchm/mulkind/self={shp(bs)}/tensor={shp(osh)}"
        if out != f"kind {kind}":
            chk.corr_break(cell, f"LinearOperator.mul front-end: model `{out}` vs implementation `{kind}` (constant shape {cshape})",
                           {"part": "batchm", "sub": "mulkind"})
        else:
            chk.traces_validated += 1
