"""C18 — extension session 5, family (D) `deriv`: sampling from operators DERIVED from every PSD catalogue class
(getitem, add_jitter, add_low_rank, cat_rows, scaling, added diagonal), optionally after a factorization was cached on
the parent (cholesky / root_decomposition / root_inv_decomposition / diagonalization): derivations transplant or reuse
cached roots, and the sampler of the derived operator must still draw with a true root of the DERIVED matrix.

A derivation that raises, or whose `to_dense()` is not the expected matrix, is counted and skipped (that is the
business of the algebra properties); a derived operator whose dense matrix is right but whose draws are wrong is a C18
violation.  All random choices derive from (VERIF_SEED, cell id)."""
import random
import warnings

import torch

from .. import catalogue
from .c18_gaps import block_diag_of, recover_map, rel_err

PRES = ["none", "cholesky", "root_decomposition", "root_inv_decomposition", "diagonalization"]
DERIVS = ["getitem", "add_jitter", "add_low_rank", "cat_rows", "mul_const", "add_diag"]
BATCHED = ("Dense[psd]", "Kronecker", "AddedDiag", "Toeplitz", "BlockDiag", "SumBatch", "ConstantMul", "Diag", "BatchRepeat",
           "KroneckerAddedDiag[const]", "LowRankRootAddedDiag", "Chol[lower]", "PsdSum", "Root")


def _ri(rng, shape, lo, hi):
    n = 1
    for s in shape:
        n *= s
    return torch.tensor([float(rng.randint(lo, hi)) for _ in range(n)], dtype=torch.float64).reshape(shape)


def derive(op, A, kind, rng):
    """-> (derived operator, expected dense)"""
    from linear_operator.operators import DiagLinearOperator
    batch, n = tuple(A.shape[:-2]), A.shape[-1]
    if kind == "getitem":
        return op[..., 1:, 1:], A[..., 1:, 1:]
    if kind == "add_jitter":
        return op.add_jitter(0.5), A + 0.5 * torch.eye(n, dtype=A.dtype)
    if kind == "add_low_rank":
        V = _ri(rng, (*batch, n, 2), -2, 2)
        return op.add_low_rank(V), A + V @ V.mT
    if kind == "cat_rows":
        B = _ri(rng, (*batch, 2, n), -1, 1)
        D = B @ torch.linalg.solve(A, B.mT) + torch.eye(2, dtype=A.dtype)
        full = torch.cat([torch.cat([A, B.mT], -1), torch.cat([B, D], -1)], -2)
        return op.cat_rows(B, D), full
    if kind == "mul_const":
        return op * 2.0, 2.0 * A
    if kind == "add_diag":
        d = _ri(rng, (*batch, n), 1, 3)
        return op + DiagLinearOperator(d), A + torch.diag_embed(d)
    raise ValueError(kind)


def deriv_cases(chk, noise, settings, only):
    quick = chk.tier == "quick"
    pres = ["none", "cholesky", "root_decomposition"] if quick else PRES
    for batch in ([(), (2,)] if quick else [(), (2,), (1,), (2, 3)]):
        irng = random.Random(f"C18:{chk.seed}:deriv-insts:{batch}")
        insts = list(catalogue.instances(irng, torch.float64, batch, 3, psd=True, depth=1 if quick else 2))
        for it in insts:
            if it.name.startswith("Interpolated"):
                continue
            if quick and batch != () and it.name not in BATCHED:
                continue
            for pre in pres:
                for kind in DERIVS:
                    if quick and pre == "root_decomposition" and kind in ("mul_const", "add_diag", "getitem"):
                        continue
                    cell = f"C18/deriv/{it.name}[b={batch}|n=3]/pre={pre}/op={kind}"
                    if only and only != cell:
                        continue
                    _one(chk, noise, settings, cell, it, pre, kind)


def _one(chk, noise, settings, cell, it, pre, kind):
    rng = random.Random(f"C18:{chk.seed}:{cell}")
    pay = {"cell": cell, "seed": chk.seed, "tier": chk.tier}
    with warnings.catch_warnings():
        warnings.simplefilter("ignore")
        torch.manual_seed(rng.randrange(2 ** 31))
        try:
            op = it.build()
            A = it.dense.double()
            if pre != "none":
                getattr(op, pre)()
            dop, want = derive(op, A, kind, rng)
            got = dop.to_dense().double()
        except Exception:
            chk.count("deriv_unsupported:" + kind)
            return
        if got.shape != want.shape or rel_err(got, want) > 1e-9:
            chk.count("deriv_dense_mismatch:" + kind)  # the derivation itself is wrong: not the sampler's defect
            return
        n = want.shape[-1]
        batch = tuple(want.shape[:-2])
        try:
            k = rng.choice([1, 2])
            noise.start("stream", lambda p: float(((p * 7 + 3) % 5) - 2))
            x = dop.zero_mean_mvn_samples(k)
            noise.stop()
            chk.case(cell + f"|k={k}", nontrivial=True)
            chk.count("deriv:" + kind)
            chk.count("deriv:pre=" + pre)
            if tuple(x.shape) != (k, *batch, n):
                chk.violation(cell + "/shape", f"samples shape {tuple(x.shape)}, expected {(k, *batch, n)}", pay)
                return
            L, why, _ = recover_map(dop, noise)
            if L is None:
                chk.violation(cell + "/affine", why, pay)
                return
            err = rel_err(L @ L.T, block_diag_of(want))
            if not err <= 1e-7:
                chk.violation(cell + "/covariance",
                              f"{type(dop).__name__} derived by {kind} from {it.name}{' after ' + pre + '()' if pre != 'none' else ''}: "
                              f"sampler L L^T differs from the derived matrix: rel err {err:.3e} (tol 1e-7)", pay)
                return
            chk.traces_validated += 1
        except Exception as e:
            noise.stop()
            chk.violation(cell + "/exception", f"{type(e).__name__}: {str(e)[:300]}", pay)
