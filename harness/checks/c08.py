"""C08 — conjugate gradients converges to the solution and returns true Lanczos matrices.

Pipeline: translator (constants / statement texts of linear_cg.py -> Generated/C08Consts.lean, cross-checked
against the run-time signature and settings), Lean build + axiom audit of LinOp.Properties.C08, then

  * property on the implementation (dense float64 references, the real `linear_cg` / `op.solve`):
    A-norm error monotone in the iteration budget and below the classical bound (down to the documented floor),
    no warning => mean relative residual < tolerance, zero columns -> zero, linear scaling, converged columns
    frozen, preconditioner changes only speed, tridiagonals symmetric tridiagonal = Lanczos matrices
    (Ritz values in the spectrum, e1' f(T) e1 = z' f(A) z at full dimension, entries vs an independent dense
    Lanczos), NaN / inconsistent limits raise;
  * correspondence: the Lean model run on binary64 on the same inputs (closure-call trajectory, iteration count,
    solution, tridiagonal entries, warning / exception), robust cases only (threshold perturbation test).
"""
import inspect
import json
import math
import struct
import warnings

import torch

from ..extract import c08_cg

F64, F32 = torch.float64, torch.float32
FAMS = ("uniform", "clustered", "geometric")


# ---------------------------------------------------------------------------------------------- inputs
def spectrum(n, kappa, fam, g):
    if n == 1:
        return torch.tensor([float(kappa)], dtype=F64)
    if fam == "uniform":
        return torch.linspace(1.0, kappa, n, dtype=F64)
    if fam == "geometric":
        return kappa ** (torch.arange(n, dtype=F64) / (n - 1))
    lam = torch.ones(n, dtype=F64)
    lam[-max(1, n // 3):] = kappa
    return lam * (1 + 0.01 * torch.rand(n, generator=g, dtype=F64))


def spd(n, kappa, fam, g, batch=()):
    """Batch of SPD matrices with prescribed spectrum (float64), random orthogonal eigenvectors."""
    num = 1
    for b in batch:
        num *= b
    mats = []
    for _ in range(num):
        lam = spectrum(n, kappa, fam, g)
        q, _ = torch.linalg.qr(torch.randn(n, n, generator=g, dtype=F64))
        a = (q * lam) @ q.T
        mats.append((a + a.T) / 2)
    return torch.stack(mats).reshape(*batch, n, n) if batch else mats[0]


def make_precond(kind, A, g):
    """Dense M^{-1} (float64, SPD) for a batch of matrices A (…, n, n); None for kind 'none'."""
    n = A.shape[-1]
    if kind == "none":
        return None
    if kind == "jacobi":
        return torch.diag_embed(1.0 / torch.diagonal(A, dim1=-2, dim2=-1))
    if kind == "exact":
        m = torch.linalg.inv(A)
        return (m + m.mT) / 2
    if kind == "lowrank":
        r = max(1, n // 3)
        u = torch.randn(*A.shape[:-2], n, r, generator=g, dtype=F64)
        m = u @ u.mT + torch.diag_embed(torch.diagonal(A, dim1=-2, dim2=-1).mean(-1, keepdim=True).expand(*A.shape[:-1]).clone())
        mi = torch.linalg.inv(m)
        return (mi + mi.mT) / 2
    raise ValueError(kind)


def bits(x):
    return str(struct.unpack("<Q", struct.pack("<d", float(x)))[0])


def unbits(s):
    return struct.unpack("<d", struct.pack("<Q", int(s)))[0]


def enc_vec(v):
    return ",".join(bits(x) for x in v.tolist()) if len(v) else "-"


def enc_mat(m):
    return ";".join(enc_vec(r) for r in m)


# ---------------------------------------------------------------------------------------------- implementation
class Impl:
    """One call of the real linear_cg with recording closures."""

    def __init__(self, A, rhs, x0=None, Minv=None, pre_form="dense", **kw):
        from linear_operator.utils.linear_cg import linear_cg
        from linear_operator.utils.warnings import NumericalWarning
        from linear_operator import settings
        self.calls, self.pcalls = [], []
        dt = rhs.dtype
        Ad = A.to(dt)

        def mm(v):
            self.calls.append(v.detach().clone())
            return Ad @ v

        pc = None
        if Minv is not None:
            Md = Minv.to(dt)
            if pre_form == "diag":
                dg = torch.diagonal(Md, dim1=-2, dim2=-1).unsqueeze(-1).clone()

                def pc(v):
                    self.pcalls.append(v.detach().clone())
                    return dg * v
            else:
                def pc(v):
                    self.pcalls.append(v.detach().clone())
                    return Md @ v
        term = kw.pop("terminate", None)
        args = dict(kw)
        if x0 is not None:
            args["initial_guess"] = x0
        if pc is not None:
            args["preconditioner"] = pc
        self.err, self.result, self.tmat, self.warn, self.other_warn = None, None, None, False, []
        with warnings.catch_warnings(record=True) as ws:
            warnings.simplefilter("always")
            try:
                if term is None:
                    out = linear_cg(mm, rhs, **args)
                else:
                    with settings.terminate_cg_by_size(term):
                        out = linear_cg(mm, rhs, **args)
                if isinstance(out, tuple):
                    self.result, self.tmat = out
                else:
                    self.result = out
            except RuntimeError as e:
                self.err = "RuntimeError: " + str(e)[:60]
            except Exception as e:  # any other exception class is itself a finding
                self.err = type(e).__name__ + ": " + str(e)[:80]
        for w in ws:
            if issubclass(w.category, NumericalWarning):
                self.warn = True
            else:
                self.other_warn.append(str(w.message)[:80])


def flat_cols(t):
    """(…, n, c) -> list over (batch member, column) of n-vectors."""
    n, c = t.shape[-2], t.shape[-1]
    tt = t.reshape(-1, n, c)
    return [tt[b, :, j] for b in range(tt.shape[0]) for j in range(c)]


def a_norm_err(A, xs, x):
    d = (xs - x.double())
    return torch.sqrt((d * (A @ d)).sum(-2).clamp_min(0))


# ---------------------------------------------------------------------------------------------- model lines
def model_line(sc, pert=None, rhs=None, x0=None, A=None):
    """Encode a scenario for the Lean driver.  `pert` multiplies the three thresholds passed explicitly."""
    A, Minv = (sc["A"] if A is None else A), sc.get("Minv")
    x0 = sc.get("x0") if x0 is None else x0
    rhs = sc["rhs"] if rhs is None else rhs
    n, c = rhs.shape[-2], rhs.shape[-1]
    bshape = torch.broadcast_shapes(A.shape[:-2], rhs.shape[:-2])
    Ab = A.double().expand(*bshape, n, n).reshape(-1, n, n)
    rb = rhs.double().expand(*bshape, n, c).reshape(-1, n, c)
    xb = (x0.double().expand(*bshape, n, c).reshape(-1, n, c) if x0 is not None else torch.zeros_like(rb))
    Mb = Minv.double().expand(*bshape, n, n).reshape(-1, n, n) if Minv is not None else None
    K = Ab.shape[0]
    pf = {"eps": 1.0, "stop_updating_after": 1.0, "tolerance": 1.0} if pert is None else \
        {"eps": pert[0], "stop_updating_after": pert[1], "tolerance": pert[1]}

    def thr(key, dflt_rat):
        v = sc.get(key)
        if v is None:
            if pert is None:
                return "d"
            v = float(dflt_rat)
        if sc["dtype"] == F32 and key == "eps":
            v = float(torch.tensor(v, dtype=F32))
        return bits(v * pf[key])

    cn = sc["consts"]
    words = [str(n), thr("eps", cn["eps"]), thr("stop_updating_after", cn["stop_updating_after"]), thr("tolerance", cn["cg_tolerance"]),
             "d" if sc.get("max_iter") is None else str(sc["max_iter"]),
             "d" if sc.get("max_tridiag_iter") is None else str(sc["max_tridiag_iter"]),
             str(sc.get("n_tridiag", 0)), "1" if sc.get("terminate") else "0", "1" if Minv is not None else "0", str(K)]
    words += [enc_mat(Ab[k]) for k in range(K)]
    words += [enc_mat(Mb[k]) if Mb is not None else "-" for k in range(K)]
    words.append(str(K * c))
    nt = sc.get("n_tridiag", 0)
    for k in range(K):
        for j in range(c):
            words.append(f"{k}:{1 if j < nt else 0}:{enc_vec(rb[k, :, j])}:{enc_vec(xb[k, :, j])}")
    return " ".join(words)


def parse_model(out):
    d = {}
    for w in out.split(" "):
        if "=" in w:
            k, v = w.split("=", 1)
            d[k] = v
    if d.get("err") != "ok":
        return d

    def vec(s):
        return [] if s in ("-", "") else [unbits(x) for x in s.split(",")]
    d["xv"] = [vec(v) for v in d["x"].split(";")] if d["x"] else []
    d["tv"] = [[vec(r) for r in m.split(";")] if m else [] for m in d["t"].split("|")] if d["t"] else []
    d["tracev"] = [[vec(v) for v in call.split(";")] for call in d["trace"].split("|")]
    d["rnsv"] = vec(d["rns"])
    return d


# ---------------------------------------------------------------------------------------------- scenarios
def rand_rhs(n, c, batch, g, dtype, special=None):
    r = torch.randn(*batch, n, c, generator=g, dtype=F64)
    if special:
        for j, kind in special.items():
            if j >= c:
                continue
            if kind == "zero":
                r[..., j] = 0
            elif kind == "tiny":
                r[..., j] *= 1e-7
            elif kind == "subeps":
                r[..., j] *= 1e-13 / max(1.0, math.sqrt(n))
            elif kind == "huge":
                r[..., j] *= 1e8
    return r.to(dtype)


def call_kwargs(sc):
    kw = {}
    for k in ("tolerance", "eps", "stop_updating_after", "max_iter", "max_tridiag_iter", "n_tridiag", "terminate"):
        if sc.get(k) is not None:
            kw[k] = sc[k]
    return kw


def run_impl(sc, **over):
    kw = call_kwargs(sc)
    kw.update(over)
    return Impl(sc["A"], sc["rhs"], sc.get("x0"), sc.get("Minv"), sc.get("pre_form", "dense"), **kw)


def cell_of(sc, check):
    b = "x".join(str(x) for x in sc["rhs"].shape[:-2]) or "-"
    ab = "x".join(str(x) for x in sc["A"].shape[:-2]) or "-"
    sp = ",".join(f"{j}{k}" for j, k in sorted((sc.get("special") or {}).items())) or "-"
    return (f"C08/{check}/fam={sc['fam']}|kappa={sc['kappa']:g}|n={sc['n']}|batch={b}/{ab}|cols={sc['rhs'].shape[-1]}|special={sp}"
            f"|x0={sc.get('x0_kind', 'none')}|pre={sc.get('pre', 'none')}|tol={sc.get('tolerance')}|eps={sc.get('eps')}"
            f"|stop={sc.get('stop_updating_after')}|maxit={sc.get('max_iter')}|maxtri={sc.get('max_tridiag_iter')}"
            f"|ntri={sc.get('n_tridiag', 0)}|term={sc.get('terminate')}|dtype={'f32' if sc['dtype'] == F32 else 'f64'}")


def payload_of(sc, extra=None):
    p = {k: sc.get(k) for k in ("fam", "kappa", "n", "special", "x0_kind", "pre", "pre_form", "tolerance", "eps", "stop_updating_after",
                                "max_iter", "max_tridiag_iter", "n_tridiag", "terminate")}
    p["dtype"] = "f32" if sc["dtype"] == F32 else "f64"
    p["A"] = sc["A"].tolist()
    p["rhs"] = sc["rhs"].tolist()
    p["x0"] = sc["x0"].tolist() if sc.get("x0") is not None else None
    p["Minv"] = sc["Minv"].tolist() if sc.get("Minv") is not None else None
    if extra:
        p.update(extra)
    return p


def sc_from_payload(p, consts):
    dt = F32 if p.get("dtype") == "f32" else F64
    sc = {k: p.get(k) for k in ("fam", "kappa", "n", "x0_kind", "pre", "pre_form", "tolerance", "eps", "stop_updating_after", "max_iter",
                                "max_tridiag_iter", "n_tridiag", "terminate")}
    sc["special"] = {int(k): v for k, v in (p.get("special") or {}).items()}
    sc["dtype"] = dt
    sc["A"] = torch.tensor(p["A"], dtype=F64)
    sc["rhs"] = torch.tensor(p["rhs"], dtype=dt)
    sc["x0"] = torch.tensor(p["x0"], dtype=dt) if p.get("x0") is not None else None
    sc["Minv"] = torch.tensor(p["Minv"], dtype=F64) if p.get("Minv") is not None else None
    sc["n_tridiag"] = sc.get("n_tridiag") or 0
    sc["pre_form"] = sc.get("pre_form") or "dense"
    sc["consts"] = consts
    return sc


def make_scenario(consts, g, n, fam, kappa, dtype, abatch=(), rbatch=None, cols=1, special=None, x0_kind="none", pre="none",
                  pre_form="dense", **params):
    rbatch = abatch if rbatch is None else rbatch
    A = spd(n, kappa, fam, g, abatch)
    rhs = rand_rhs(n, cols, rbatch, g, dtype, special)
    x0 = None
    if x0_kind == "random":
        xs = torch.linalg.solve(A, rhs.double())
        sc_ = xs.norm(dim=-2, keepdim=True) / math.sqrt(n)
        sc_ = torch.where(sc_ == 0, torch.ones_like(sc_), sc_)
        x0 = (torch.randn(*xs.shape, generator=g, dtype=F64) * sc_).to(dtype)
    elif x0_kind == "near":
        xs = torch.linalg.solve(A, rhs.double())
        x0 = (xs * (1 + 0.05 * torch.randn(*xs.shape, generator=g, dtype=F64))).to(dtype)
    elif x0_kind == "exact":
        x0 = torch.linalg.solve(A, rhs.double()).to(dtype)
    Minv = make_precond(pre, A, g)
    sc = dict(consts=consts, n=n, fam=fam, kappa=float(kappa), dtype=dtype, A=A, rhs=rhs, x0=x0, x0_kind=x0_kind, pre=pre, Minv=Minv,
              pre_form=pre_form if pre == "jacobi" else "dense", special=special or {}, n_tridiag=0)
    sc.update(params)
    return sc


def eff_kappa(sc):
    """Condition number of the (preconditioned) operator, max over the batch."""
    A = sc["A"]
    if sc.get("Minv") is not None:
        L = torch.linalg.cholesky(sc["Minv"])
        A = L.mT @ A @ L
        A = (A + A.mT) / 2
    ev = torch.linalg.eigvalsh(A)
    ev0 = torch.linalg.eigvalsh(sc["A"])
    return float((ev[..., -1] / ev[..., 0]).max()), float((ev0[..., -1] / ev0[..., 0]).max())


def unit(dtype):
    return 1.1e-16 if dtype == F64 else 6e-8


# ---------------------------------------------------------------------------------------------- property checks
def check_budgets(chk, sc):
    """Budgets 1..n+2: A-norm error never increases, classical bound, frozen columns, zero columns."""
    A, rhs, n, dt = sc["A"], sc["rhs"], sc["n"], sc["dtype"]
    A64 = A.double()
    xs = torch.linalg.solve(A64, rhs.double())
    x0 = sc["x0"].double() if sc.get("x0") is not None else torch.zeros_like(xs)
    e0 = a_norm_err(A64, xs, x0)
    kpre, kA = eff_kappa(sc)
    rho = (math.sqrt(kpre) - 1) / (math.sqrt(kpre) + 1)
    # defaults as DOCUMENTED by the property statement (1e-10), not as extracted: a changed default must not widen the floor
    eps = sc.get("eps") if sc.get("eps") is not None else 1e-10
    stop = sc.get("stop_updating_after") if sc.get("stop_updating_after") is not None else 1e-10
    u = unit(dt)
    # documented accuracy floor: relative residual ~ sqrt(eps) (safe division) / stop_updating_after (freeze) / rounding
    # (with a preconditioner the safe divisions act on z = M^-1 r: p'Ap < eps <=> |r| <~ lmax(M) sqrt(eps/lmin(A)),
    #  r'z < eps <=> |r| <~ sqrt(eps lmax(M)))
    lminA = float(torch.linalg.eigvalsh(A64)[..., 0].min())
    if sc.get("Minv") is not None:
        lmaxM = 1.0 / float(torch.linalg.eigvalsh(sc["Minv"].double())[..., 0].min())
        fm = max(1.0, lmaxM / math.sqrt(lminA), math.sqrt(lmaxM))
    else:
        fm = max(1.0, 1.0 / math.sqrt(lminA))
    relres_floor = 3 * math.sqrt(eps) * fm + 3 * stop + 50 * math.sqrt(kA) * u
    bnorm = rhs.double().norm(dim=-2)
    evs = torch.linalg.eigvalsh(A64)
    lmin = evs[..., :1]
    floor_abs = relres_floor * bnorm / torch.sqrt(lmin)        # ||e||_A <= ||r|| / sqrt(lambda_min)
    floor_abs = floor_abs + 50 * u * kA * (a_norm_err(A64, xs, torch.zeros_like(xs)) + a_norm_err(A64, x0, torch.zeros_like(xs)))
    t_eff = sc.get("tolerance") if sc.get("tolerance") is not None else float(sc["consts"]["cg_tolerance"])
    is_sub = bnorm < eps
    tol = sc.get("tolerance")
    maxb = min(n + 2, 40)
    prev, prev_x = e0.clone(), None
    cell = cell_of(sc, "budget")
    nontriv = n > 1
    frozen_at = {}
    desc = cell + "|" + bits(float(rhs.double().sum()))
    chk.case(desc, nontrivial=nontriv)
    for j in range(1, maxb + 1):
        r = run_impl(sc, max_iter=j, max_tridiag_iter=0, n_tridiag=0)
        if r.err is not None:
            chk.violation(cell + "/raises", f"linear_cg raised {r.err} on an SPD system with max_iter={j}", payload_of(sc, {"budget": j, "check": "budget"}))
            return
        if r.other_warn:
            chk.count("other_warnings")
        x = r.result.double()
        if not torch.isfinite(x).all():
            chk.violation(cell + "/nonfinite", f"non-finite solution with max_iter={j}", payload_of(sc, {"budget": j, "check": "budget"}))
            return
        e = a_norm_err(A64, xs, x)
        inc = e - prev
        slack = 0.1 * floor_abs + 1e-12 * e0
        if bool((inc > slack).any()):
            idx = torch.nonzero(inc > slack)[0].tolist()
            chk.violation(cell + "/monotone", f"A-norm error increased from budget {j - 1} to {j} at (batch, col) {idx}: "
                          f"{float(prev[tuple(idx)]):.6e} -> {float(e[tuple(idx)]):.6e} (||x*-x0||_A = {float(e0[tuple(idx)]):.3e}, allowed slack {float(slack[tuple(idx)]):.2e})",
                          payload_of(sc, {"budget": j, "check": "budget"}))
            return
        # classical bound (only while the run cannot have stopped early or frozen: tolerance None/0 case handled by floor)
        bound = 2 * rho ** j * e0 * (1 + 1e-6) + floor_abs
        stopped_early = t_eff > 0 and len(r.calls) - 1 < j
        viol = (e > bound) & ~is_sub
        if not stopped_early and bool(viol.any()):
            idx = torch.nonzero(viol)[0].tolist()
            chk.violation(cell + "/bound", f"A-norm error {float(e[tuple(idx)]):.6e} after {j} iterations exceeds the classical bound "
                          f"2 rho^j ||e0||_A + floor = {float(bound[tuple(idx)]):.6e} (kappa={kpre:.3g}) at (batch, col) {idx}",
                          payload_of(sc, {"budget": j, "check": "budget"}))
            return
        # zero right-hand side and zero guess -> exactly zero
        zero_cols = (rhs == 0).all(-2) & ((x0 == 0).all(-2))
        if bool(zero_cols.any()) and bool((r.result.transpose(-1, -2)[zero_cols] != 0).any()):
            chk.violation(cell + "/zero", f"a zero right-hand-side column (zero guess) has a non-zero solution with max_iter={j}",
                          payload_of(sc, {"budget": j, "check": "budget"}))
            return
        # frozen columns: once the relative residual is robustly below stop_updating_after the column never changes again
        relres = (rhs.double() - A64 @ x).norm(dim=-2) / bnorm.clamp_min(1e-300)
        if prev_x is not None:
            for key, (j0, xf) in list(frozen_at.items()):
                cur = r.result.transpose(-1, -2)[key]
                if not torch.equal(cur, xf):
                    chk.violation(cell + "/frozen", f"column {list(key)} had relative residual below stop_updating_after={stop:g} at budget {j0} "
                                  f"but its solution changed at budget {j} (max diff {float((cur - xf).abs().max()):.3e})",
                                  payload_of(sc, {"budget": j, "check": "budget"}))
                    return
        if dt == F64 and stop >= 1e-8:
            rt = r.result.transpose(-1, -2)
            for key in torch.nonzero((relres < stop * 0.99) & ~is_sub & (bnorm > 0)).tolist():
                key = tuple(key)
                if key not in frozen_at:
                    frozen_at[key] = (j, rt[key].clone())
                    chk.count("frozen_columns_tracked")
            # converse: a column far from converged (and far above the eps floor) must still move
            if prev_x is not None and eps <= 1e-20 and not stopped_early:
                prev_rel = sc["_prev_rel"]
                moving = (prev_rel > max(10 * stop, 1e-6)) & ~is_sub
                same = (r.result == prev_x).all(-2)
                if bool((moving & same).any()):
                    idx = torch.nonzero(moving & same)[0].tolist()
                    chk.violation(cell + "/stalled", f"column {idx} has relative residual {float(prev_rel[tuple(idx)]):.3e} >> stop_updating_after={stop:g} "
                                  f"after budget {j - 1} but did not change at budget {j}", payload_of(sc, {"budget": j, "check": "budget"}))
                    return
        sc["_prev_rel"] = relres
        # no NumericalWarning => mean relative residual below the tolerance
        if not r.warn and len(r.calls) > 1:
            t = tol if tol is not None else float(sc["consts"]["cg_tolerance"])
            masked = torch.where(is_sub, torch.zeros_like(relres), relres)
            m = float(masked.mean())
            if not m < t * (1 + 1e-6) + 100 * kA * u:
                chk.violation(cell + "/nowarn", f"no NumericalWarning with max_iter={j} but the mean relative residual {m:.6e} is not below the tolerance {t:g}",
                              payload_of(sc, {"budget": j, "check": "budget"}))
                return
            chk.count("nowarn_checked")
        prev, prev_x = e, r.result.clone()
        chk.evaluations += 1
    sc.pop("_prev_rel", None)


def check_scaling(chk, sc, c):
    if (sc["dtype"] == F32 or eff_kappa(sc)[0] > 1e3) and math.log2(abs(c)) != int(math.log2(abs(c))):
        c = math.copysign(2.0 ** round(math.log2(abs(c))), c)   # ill-conditioned / float32: exact (power-of-two) scalings only
    cell = cell_of(sc, f"scaling[c={c:g}]")
    eps = sc.get("eps") if sc.get("eps") is not None else float(sc["consts"]["eps"])
    bn = sc["rhs"].double().norm(dim=-2)
    for nrm in (bn, bn * abs(c)):
        if bool(((nrm > 0) & (nrm < 10 * eps)).any()):
            chk.count("scaling_skipped_subeps")
            return
    if sc.get("x0") is not None and bool(((bn == 0) & (sc["x0"].double().abs().amax(-2) > 0)).any()):
        chk.count("scaling_skipped_zero_rhs_with_guess")   # not normalised: absolute thresholds act on c*x0, outside the scaling law
        return
    r1 = run_impl(sc)
    sc2 = dict(sc)
    sc2["rhs"] = sc["rhs"] * c
    if sc.get("x0") is not None:
        sc2["x0"] = sc["x0"] * c
    r2 = run_impl(sc2)
    chk.case(cell + "|" + bits(float(sc["rhs"].double().sum())), nontrivial=sc["n"] > 1)
    if r1.err or r2.err:
        chk.violation(cell + "/raises", f"linear_cg raised: {r1.err} / {r2.err}", payload_of(sc, {"check": "scaling", "c": c}))
        return
    pow2 = math.log2(abs(c)) == int(math.log2(abs(c)))
    want, got = r1.result * c, r2.result
    if pow2:
        # scaling by +-2^k commutes with every rounding: the two runs must agree bit for bit
        ok = torch.equal(want, got) and len(r1.calls) == len(r2.calls) and r1.warn == r2.warn
    else:
        want, got = want.double(), got.double()
        scale = want.abs().amax(-2, keepdim=True).clamp_min(1e-300)
        if sc.get("x0") is not None:
            scale = torch.maximum(scale, (sc["x0"].double() * c).abs().amax(-2, keepdim=True))
        rt = 1e-7 if sc["dtype"] == F64 else 1e-3
        A64 = sc["A"].double()
        rr = ((sc["rhs"].double() - A64 @ r1.result.double()).norm(dim=-2, keepdim=True) / sc["rhs"].double().norm(dim=-2, keepdim=True).clamp_min(1e-300))
        allowed = rt * max(10.0, eff_kappa(sc)[0]) + 2 * eff_kappa(sc)[1] * rr   # both runs are only relres-accurate
        ok = bool((((want - got).abs() / scale) <= allowed).all()) and r1.warn == r2.warn
    if not ok:
        chk.violation(cell, f"x(c*b) != c*x(b) for c={c:g}: max |diff| {float((want - got).abs().max()):.3e}, iterations {len(r1.calls) - 1} vs {len(r2.calls) - 1}, "
                      f"warn {r1.warn} vs {r2.warn}", payload_of(sc, {"check": "scaling", "c": c}))
    if sc.get("n_tridiag") and r1.tmat is not None and r2.tmat is not None:
        gk = sc.get("_genuine_k") or 1
        t1, t2 = r1.tmat[..., :gk, :gk].double(), r2.tmat[..., :gk, :gk].double()
        if r1.tmat.shape != r2.tmat.shape or not torch.allclose(t1, t2, rtol=(1e-8 if sc["dtype"] == F64 else 1e-3) * max(1.0, sc["kappa"]), atol=1e-10):
            chk.violation(cell + "/tridiag", "tridiagonal matrices depend on the scale of the right-hand side", payload_of(sc, {"check": "scaling", "c": c}))


def check_precond_limit(chk, consts, g, n, fam, kappa, dtype, batch):
    """All SPD preconditioners lead to the same limit (the true solution)."""
    base = make_scenario(consts, g, n, fam, kappa, dtype, abatch=batch, cols=2, tolerance=1e-9 if dtype == F64 else 1e-4,
                         max_iter=6 * n + 30, max_tridiag_iter=0, eps=1e-30, stop_updating_after=1e-12 if dtype == F64 else 1e-6)
    A64 = base["A"]
    xs = torch.linalg.solve(A64, base["rhs"].double())
    e0 = a_norm_err(A64, xs, torch.zeros_like(xs))
    u = unit(dtype)
    for pre, form in (("none", "dense"), ("jacobi", "dense"), ("jacobi", "diag"), ("exact", "dense"), ("lowrank", "dense")):
        sc = dict(base)
        sc["pre"], sc["pre_form"] = pre, form
        sc["Minv"] = make_precond(pre, A64, g)
        cell = cell_of(sc, "precond-limit")
        r = run_impl(sc)
        chk.case(cell + "|" + bits(float(base["rhs"].double().sum())), nontrivial=n > 1)
        chk.count("pre:" + pre)
        if r.err:
            chk.violation(cell + "/raises", f"linear_cg raised {r.err} with preconditioner {pre}", payload_of(sc, {"check": "precond"}))
            continue
        e = a_norm_err(A64, xs, r.result)
        lim = (math.sqrt(kappa) * (1e-7 if dtype == F64 else 3e-3) + 100 * kappa * u) * e0 + 1e-300
        if bool((e > lim).any()):
            chk.violation(cell, f"with preconditioner {pre} ({form}) the solution is off: relative A-norm error {float((e / e0).max()):.3e} "
                          f"(allowed {float((lim / e0).max()):.3e}), iterations {len(r.calls) - 1}, warn={r.warn}", payload_of(sc, {"check": "precond"}))
        if pre == "exact" and len(r.calls) - 1 > 11 + 1:
            chk.violation(cell + "/speed", f"exact-inverse preconditioner needed {len(r.calls) - 1} iterations", payload_of(sc, {"check": "precond"}))
        # the preconditioner is applied to residuals only: once before the loop and once per iteration
        if pre != "none" and len(r.pcalls) != len(r.calls):
            chk.violation(cell + "/calls", f"preconditioner called {len(r.pcalls)} times for {len(r.calls)} matmul calls", payload_of(sc, {"check": "precond"}))


def dense_lanczos(A, q0, k):
    """Independent reference: Lanczos with full re-orthogonalisation (float64), returns the k×k tridiagonal."""
    n = A.shape[-1]
    Q = torch.zeros(n, k, dtype=F64)
    al, be = [], []
    q = q0 / q0.norm()
    for j in range(k):
        Q[:, j] = q
        w = A @ q
        a = float(q @ w)
        al.append(a)
        w = w - Q[:, :j + 1] @ (Q[:, :j + 1].T @ w)
        w = w - Q[:, :j + 1] @ (Q[:, :j + 1].T @ w)
        b = float(w.norm())
        if j < k - 1:
            be.append(b)
            if b < 1e-12:
                return None
            q = w / b
    T = torch.diag(torch.tensor(al, dtype=F64))
    for j, b in enumerate(be):
        T[j, j + 1] = T[j + 1, j] = b
    return T


def check_tridiag(chk, sc):
    """Tridiagonal output: shape, symmetric tridiagonal, Ritz values in the spectrum, Lanczos entries, quadrature at full dimension."""
    cell = cell_of(sc, "tridiag")
    n, dt, nt = sc["n"], sc["dtype"], sc["n_tridiag"]
    r = run_impl(sc)
    chk.case(cell + "|" + bits(float(sc["rhs"].double().sum())), nontrivial=n > 1)
    pl = payload_of(sc, {"check": "tridiag"})
    if r.err:
        chk.violation(cell + "/raises", f"linear_cg raised {r.err}", pl)
        return
    T = r.tmat
    bshape = tuple(torch.broadcast_shapes(sc["A"].shape[:-2], sc["rhs"].shape[:-2]))
    if T is None or T.dim() != 3 + len(bshape) or T.shape[0] != nt or tuple(T.shape[1:-2]) != bshape or T.shape[-1] != T.shape[-2]:
        chk.violation(cell + "/shape", f"tridiagonal output has shape {None if T is None else tuple(T.shape)}, expected ({nt}, *{bshape}, k, k)", pl)
        return
    k = T.shape[-1]
    mi = sc.get("max_iter") if sc.get("max_iter") is not None else int(sc["consts"]["max_cg_iterations"])
    mt = sc.get("max_tridiag_iter") if sc.get("max_tridiag_iter") is not None else int(sc["consts"]["max_lanczos_quadrature_iterations"])
    nit = min(mi, n) if sc.get("terminate") else mi
    kmax = min(mt, n, nit)
    if k > max(kmax, 1) or k < 1:
        chk.violation(cell + "/size", f"tridiagonal size {k} outside 1..min(max_tridiag_iter, n, n_iter) = {kmax}", pl)
        return
    T64 = T.double()
    if mi == 1 and k == 1 and not r.warn and len(r.calls) == 2 and bool((T64 == 0).all()):
        # defect fixed by be05109 (tolerance exit used to precede the tridiagonal block): must stay fixed
        chk.violation(f"C08/tridiag-empty/maxit=1/n={n}|ntri={nt}|dtype={'f32' if dt == F32 else 'f64'}",
                      f"linear_cg(max_iter=1, max_tridiag_iter={mt}, n_tridiag={nt}) reached the tolerance in its only iteration and returns the 1x1 "
                      f"tridiagonal matrix [[0]] (Ritz value 0 outside the spectrum [{float(torch.linalg.eigvalsh(sc['A'].double()).min()):.4g}, ...])", pl)
        return
    if not torch.equal(T, T.mT):
        chk.violation(cell + "/symmetric", f"tridiagonal output is not symmetric (max asym {float((T - T.mT).abs().max()):.3e})", pl)
        return
    band = torch.ones(k, k, dtype=torch.bool).tril(1).triu(-1)
    if bool((T64[..., ~band] != 0).any()):
        chk.violation(cell + "/band", "entries outside the three central diagonals are non-zero", pl)
        return
    if not torch.isfinite(T64).all():
        chk.violation(cell + "/finite", "non-finite tridiagonal entries", pl)
        return
    A64 = sc["A"].double().expand(*bshape, n, n)
    Minv = sc.get("Minv")
    if Minv is not None:
        L = torch.linalg.cholesky(Minv.double()).expand(*bshape, n, n)
        B = L.mT @ A64 @ L                       # the preconditioned operator M^{-1/2} A M^{-1/2} (similar to M^{-1}A)
        B = (B + B.mT) / 2
    else:
        L, B = None, A64
    ev = torch.linalg.eigvalsh(B)
    rhs64 = sc["rhs"].double().expand(*bshape, n, sc["rhs"].shape[-1])
    x0 = sc.get("x0")
    u = unit(dt)
    kap = float((ev[..., -1] / ev[..., 0]).max())
    robust = kap <= 1e3 and dt == F64
    for j in range(nt):
        for bidx in ([()] if not bshape else [tuple(i) for i in torch.cartesian_prod(*[torch.arange(s) for s in bshape]).reshape(-1, len(bshape)).tolist()]):
            Tj = T64[(j,) + bidx]
            b = rhs64[bidx][:, j]
            if float(b.norm()) < 1e-9 or (x0 is not None):
                continue  # start vector is the normalised initial residual; handled only for zero guess and non-degenerate columns
            ritz = torch.linalg.eigvalsh(Tj)
            lo, hi = float(ev[bidx][0]), float(ev[bidx][-1])
            # frozen / switched-off columns put 1 on the diagonal: only check rows produced by genuine CG steps
            kk = k
            if sc.get("_genuine_k") is not None:
                kk = min(k, sc["_genuine_k"])
            Tg = Tj[:kk, :kk]
            ritz = torch.linalg.eigvalsh(Tg)
            tolr = (1e-6 if dt == F64 else 2e-2) * max(1.0, kap ** 0.5)
            if float(ritz[0]) < lo * (1 - tolr) - 1e-12 or float(ritz[-1]) > hi * (1 + tolr) + 1e-12:
                chk.violation(cell + "/ritz", f"Ritz values [{float(ritz[0]):.6g}, {float(ritz[-1]):.6g}] of column {j} batch {bidx} leave the spectrum "
                              f"[{lo:.6g}, {hi:.6g}] of the (preconditioned) operator", pl)
                return
            chk.count("ritz_checked")
            if robust and sc.get("_genuine_k") is not None:
                z = b / b.norm()
                q0 = z if L is None else (L[bidx].mT @ z)   # start vector of the symmetrised preconditioned Lanczos
                ref = dense_lanczos(B[bidx], q0, kk)
                if ref is not None:
                    mcmp = min(kk, 8 if kap <= 100 else 4)   # CG has no re-orthogonalisation: compare the leading block only
                    d = float((ref[:mcmp, :mcmp] - Tg[:mcmp, :mcmp]).abs().max() / ref[:mcmp, :mcmp].abs().max())
                    if d > 1e-6 * max(1.0, kap):
                        chk.violation(cell + "/lanczos", f"tridiagonal of column {j} batch {bidx} differs from the Lanczos matrix of the (preconditioned) operator "
                                      f"started at the normalised rhs: max rel diff {d:.3e} (size {kk})", pl)
                        return
                    chk.count("lanczos_entries_checked")
                if Minv is not None and len(r.pcalls) >= 2:
                    # Lean `cg_tridiag_eq_lanczos` on the implementation's OWN vectors: the arguments of the preconditioner
                    # closure are the residuals r_k; with z_k = M^-1 r_k, s_k = (-1)^k / sqrt(r_k'z_k), zhat = s z, qhat = s r:
                    # zhat_i' A zhat_j = T[i, j] and qhat_i' zhat_j = delta_ij (band entries: local relations, robust without
                    # re-orthogonalisation)
                    mz = min(kk, len(r.pcalls), 8 if kap <= 100 else 4)
                    Mi = Minv.double()
                    if sc.get("pre_form", "dense") == "diag":
                        Mi = torch.diag_embed(torch.diagonal(Mi, dim1=-2, dim2=-1))
                    Mi = Mi.expand(*bshape, n, n)[bidx]
                    Zh, Qh = [], []
                    for i2 in range(mz):
                        rk = r.pcalls[i2].double().expand(*bshape, n, rhs64.shape[-1])[bidx][:, j]
                        zk = Mi @ rk
                        rz = float(rk @ zk)
                        if not rz > 1e-24:
                            break
                        sg = (-1.0) ** i2 / math.sqrt(rz)
                        Zh.append(sg * zk)
                        Qh.append(sg * rk)
                    mz = len(Zh)
                    if mz >= 1:
                        Zm, Qm = torch.stack(Zh, 1), torch.stack(Qh, 1)
                        G = Zm.T @ A64[bidx] @ Zm
                        I2 = Qm.T @ Zm
                        bandm = torch.ones(mz, mz, dtype=torch.bool).tril(1).triu(-1)
                        scale = float(Tg[:mz, :mz].abs().max())
                        d1 = float((G - Tg[:mz, :mz])[bandm].abs().max() / scale)
                        d2 = float((I2 - torch.eye(mz, dtype=torch.float64))[bandm].abs().max())
                        # measured over quick seeds 0..19 + thorough 0..1: worst deviation 2e-15 * kappa (local relations only)
                        if d1 > 1e-9 * max(1.0, kap) or d2 > 1e-9 * max(1.0, kap):
                            chk.violation(cell + "/zAz", f"tridiagonal of column {j} batch {bidx} is not Zhat' A Zhat of the normalised preconditioned residuals "
                                          f"observed at the preconditioner closure: max rel diff {d1:.3e}; Qhat' Zhat - I: {d2:.3e} (leading {mz} rows)", pl)
                            return
                        chk.count("zAz_checked")
                if kk == n and n <= 8 and kap <= 100:
                    # full dimension: e1' f(T) e1 = q0' f(B) q0 / (q0'q0)
                    w, V = torch.linalg.eigh(Tg)
                    wb, Vb = torch.linalg.eigh(B[bidx])
                    qq = q0 / q0.norm()
                    for nm, f in (("inv", lambda t: 1 / t), ("log", torch.log), ("id", lambda t: t), ("sq", lambda t: t * t)):
                        lhs = float((V[0, :] ** 2 * f(w)).sum())
                        rhsq = float(((Vb.T @ qq) ** 2 * f(wb)).sum())
                        if abs(lhs - rhsq) > 1e-6 * max(1.0, abs(rhsq)) * kap:
                            chk.violation(cell + "/quadrature", f"e1' f(T) e1 = {lhs:.9g} but z' f(A) z = {rhsq:.9g} for f={nm} at full dimension n={n} (column {j})", pl)
                            return
                    chk.count("quadrature_checked")
    # the solution returned together with the tridiagonals is the same as without them when the stop rule is not involved
    chk.evaluations += 1


def check_nowarn(chk, consts, g, rng):
    """No NumericalWarning => mean relative (true) residual below the tolerance: terminate_cg_by_size on/off x
    n <,=,> max_iter x ill-conditioned spectra x tolerances x preconditioner x tridiagonals x mixed-norm columns x dtype."""
    reps = 1 if chk.tier == "quick" else 4
    for rep_ in range(reps):
        for term in (True, False):
            for rel in ("n<maxit", "n=maxit", "n>maxit"):
                for kappa in (1e2, 1e4, 1e6):
                    for pre in ("none", "jacobi"):
                        dtype = F32 if (kappa == 1e2 and rng.random() < 0.5) else F64
                        n = rng.choice([5, 8, 16, 32])
                        mi = n + rng.choice([3, 25]) if rel == "n<maxit" else n if rel == "n=maxit" else max(1, n - rng.choice([1, n // 2]))
                        tol = rng.choice([1e-2, 1e-3] if dtype == F32 else [1e-4, 1e-2] if kappa > 1e4 else [1e-4, 1e-2, 1e-8])
                        fam = rng.choice(["geometric", "geometric", "uniform"])
                        cols = rng.choice([1, 3])
                        special = {0: "huge", 2: "tiny"} if cols == 3 and rng.random() < 0.6 else {}
                        nt = rng.choice([0, 0, 1]) if cols == 3 else 0            # n_tridiag < number of columns
                        mt = max(1, min(mi, rng.choice([1, 3]))) if nt else 0     # max_tridiag_iter < n_iter
                        x0k = rng.choice(["none", "none", "random"])
                        sc = make_scenario(consts, g, n, fam, kappa, dtype, cols=cols, special=special, x0_kind=x0k, pre=pre,
                                           pre_form=rng.choice(["dense", "diag"]), tolerance=tol, max_iter=mi, max_tridiag_iter=mt,
                                           n_tridiag=nt, terminate=term, eps=rng.choice([None, 1e-30]), stop_updating_after=rng.choice([None, 1e-14]))
                        cell = (f"C08/nowarn/term={int(term)}|{rel}|kappa={kappa:g}|pre={pre}|tol={tol:g}|ntri={nt}|cols={cols}"
                                f"|x0={x0k}|dtype={'f32' if dtype == F32 else 'f64'}")
                        chk.case(cell + f"|n={n}|" + bits(float(sc["rhs"].double().sum())), nontrivial=True)
                        r = run_impl(sc)
                        pl = payload_of(sc, {"check": "nowarn"})
                        if r.err:
                            chk.violation(cell + "/raises", f"linear_cg raised {r.err}", pl)
                            continue
                        chk.count("nowarn_sweep:" + ("warned" if r.warn else "silent"))
                        msg = nowarn_failure(sc, r)
                        if msg:
                            chk.violation(cell, msg, pl)


def nowarn_failure(sc, r):
    """None, or the description of a violated `no NumericalWarning => mean relative residual < tolerance`."""
    if r.warn or len(r.calls) <= 1:
        return None
    A64 = sc["A"].double()
    b = sc["rhs"].double()
    bn = b.norm(dim=-2)
    eps = sc.get("eps") if sc.get("eps") is not None else 1e-10
    relres = (b - A64 @ r.result.double()).norm(dim=-2) / bn.clamp_min(1e-300)
    masked = torch.where(bn < eps, torch.zeros_like(relres), relres)
    m = float(masked.mean())
    t = sc.get("tolerance") if sc.get("tolerance") is not None else float(sc["consts"]["cg_tolerance"])
    kA = eff_kappa(sc)[1]
    if not m < t * (1 + 1e-6) + 1000 * kA * unit(sc["dtype"]):
        mi = sc.get("max_iter")
        return (f"linear_cg returned after {len(r.calls) - 1} iterations (n={sc['n']}, max_iter={mi}, terminate_cg_by_size={sc.get('terminate')}) "
                f"WITHOUT a NumericalWarning although the mean relative residual {m:.4e} is not below the tolerance {t:g}")
    return None


def degenerate_mix(consts, g, n, deg, where, fam="uniform", kappa=10.0, pre="none"):
    """Tridiagonal scenario mixing a degenerate right-hand side (zero / eigenvector / 2-dimensional invariant subspace)
    with generic ones, across columns (`where='column'`) or across batch members (`where='batch'`).
    Returns the scenario with `_kdim[(batch idx…, col)]` = Krylov dimension of every column (n for generic ones)."""
    batch = (2,) if where == "batch" else ()
    cols = 3 if where == "column" else 2
    sc = make_scenario(consts, g, n, fam, kappa, F64, abatch=batch, cols=cols, pre=pre, n_tridiag=cols, max_iter=n + 2,
                       max_tridiag_iter=n, tolerance=0.0, eps=1e-30, stop_updating_after=1e-13)
    A = sc["A"]
    rhs = sc["rhs"].clone()
    pos = (1,) + (0,) if where == "batch" else ()      # degenerate probe: batch member 1 / column 0, or column 1
    col = 0 if where == "batch" else 1
    Ab = A[1] if where == "batch" else A
    w, V = torch.linalg.eigh(Ab)
    if deg == "zero":
        v, d = torch.zeros(n, dtype=F64), 0
    elif deg == "eigvec":
        v, d = V[:, n // 2] * 3.0, 1
    else:
        v, d = 2.0 * V[:, 0] - 1.5 * V[:, n - 1], 2
    if where == "batch":
        rhs[1, :, col] = v
    else:
        rhs[:, col] = v
    sc["rhs"] = rhs
    kd = {}
    for bi in ([(0,), (1,)] if where == "batch" else [()]):
        for j in range(cols):
            kd[bi + (j,)] = n
    kd[((1,) if where == "batch" else ()) + (col,)] = min(d, n)
    sc["_kdim"] = kd
    sc["_deg"], sc["_where"] = deg, where
    if n == 1:
        for k_ in kd:
            kd[k_] = min(kd[k_], 1)
    return sc


def check_tridiag_mixed(chk, sc):
    """One degenerate probe must not disturb the tridiagonal matrices of the generic ones: common size = largest Krylov dimension,
    every generic column symmetric tridiagonal = dense Lanczos matrix started at that column, quadrature identity at full dimension;
    the leading Krylov block of the degenerate column is its Lanczos matrix too."""
    n, nt = sc["n"], sc["n_tridiag"]
    cell = f"C08/tridiag-mixed/deg={sc['_deg']}|where={sc['_where']}|n={n}|fam={sc['fam']}|pre={sc['pre']}"
    chk.case(cell + "|" + bits(float(sc["rhs"].double().sum())), nontrivial=True)
    pl = payload_of(sc, {"check": "tridiag-mixed", "deg": sc["_deg"], "where": sc["_where"]})
    r = run_impl(sc)
    if r.err:
        chk.violation(cell + "/raises", f"linear_cg raised {r.err}", pl)
        return
    T = r.tmat.double()
    want = max(sc["_kdim"].values())
    if T.shape[-1] != want:
        chk.violation(cell + "/size", f"tridiagonal matrices have size {T.shape[-1]} but the generic columns have Krylov dimension {want} "
                      f"(max_tridiag_iter={sc['max_tridiag_iter']}, max_iter={sc['max_iter']}): a degenerate probe ({sc['_deg']}) next to them "
                      f"must not stop the tridiagonalisation of the others", pl)
        return
    if not torch.equal(T, T.mT) or bool((T[..., ~torch.ones(want, want, dtype=torch.bool).tril(1).triu(-1)] != 0).any()):
        chk.violation(cell + "/shape", "tridiagonal output not symmetric tridiagonal", pl)
        return
    A = sc["A"].double()
    Minv = sc.get("Minv")
    kap = eff_kappa(sc)[0]
    for key, kd in sc["_kdim"].items():
        bidx, j = key[:-1], key[-1]
        Ab = A[bidx] if A.dim() > 2 else A
        if Minv is not None:
            L = torch.linalg.cholesky(Minv.double()[bidx] if Minv.dim() > 2 else Minv.double())
            B = L.mT @ Ab @ L
            B = (B + B.mT) / 2
        else:
            L, B = None, Ab
        b = sc["rhs"].double()[bidx][:, j] if bidx else sc["rhs"].double()[:, j]
        if kd == 0:
            continue
        Tj = T[(j,) + bidx][:kd, :kd]
        q0 = b / b.norm() if L is None else L.mT @ (b / b.norm())
        ref = dense_lanczos(B, q0, kd)
        if ref is None:
            continue
        dlt = float((ref - Tj).abs().max() / ref.abs().max())
        if dlt > 1e-7 * max(10.0, kap):
            chk.violation(cell + "/lanczos", f"column {j} batch {bidx} (Krylov dimension {kd}): leading block differs from the Lanczos matrix started at "
                          f"that column by {dlt:.3e} (relative)", pl)
            return
        chk.count("mixed_lanczos_checked")
        if kd == n and n > 1:
            w, V = torch.linalg.eigh(Tj)
            wb, Vb = torch.linalg.eigh(B)
            qq = q0 / q0.norm()
            for nm, f in (("inv", lambda t: 1 / t), ("log", torch.log), ("sq", lambda t: t * t)):
                lhs = float((V[0, :] ** 2 * f(w)).sum())
                rq = float(((Vb.T @ qq) ** 2 * f(wb)).sum())
                if abs(lhs - rq) > 1e-8 * max(1.0, abs(rq)) * max(10.0, kap):
                    chk.violation(cell + "/quadrature", f"generic column {j} batch {bidx}: e1' f(T) e1 = {lhs:.12g} but z' f(A) z = {rq:.12g} for f={nm} "
                                  f"at full dimension n={n}", pl)
                    return
            chk.count("mixed_quadrature_checked")


def mixed_scenarios(chk, consts, g, rng):
    reps = 1 if chk.tier == "quick" else 3
    for _ in range(reps):
        for deg in ("zero", "eigvec", "inv2"):
            for where in ("column", "batch"):
                n = rng.choice([3, 4, 6, 8])
                pre = "jacobi" if deg == "zero" and rng.random() < 0.5 else "none"
                yield degenerate_mix(consts, g, n, deg, where, fam=rng.choice(["uniform", "geometric"]), kappa=rng.choice([4.0, 10.0]), pre=pre)


def check_raises(chk, consts, g):
    from linear_operator.utils.linear_cg import linear_cg
    for n, mi, mt in ((4, 3, 4), (6, 5, 20), (3, 0, 1), (5, 19, None)):
        A = spd(n, 10.0, "uniform", g)
        b = torch.randn(n, 2, generator=g, dtype=F64)
        cell = f"C08/raises/limits[max_iter={mi}|max_tridiag_iter={mt}]"
        chk.case(cell, nontrivial=True)
        try:
            kw = dict(max_iter=mi, n_tridiag=1)
            if mt is not None:
                kw["max_tridiag_iter"] = mt
            with warnings.catch_warnings():
                warnings.simplefilter("ignore")
                linear_cg(A.matmul, b, **kw)
            chk.violation(cell, f"max_tridiag_iter ({mt if mt is not None else 'default'}) > max_iter ({mi}) did not raise", {"check": "raises", "kind": "limits", "n": n, "max_iter": mi, "max_tridiag_iter": mt})
        except RuntimeError:
            chk.count("raises_ok")
        except Exception as e:
            chk.violation(cell, f"raised {type(e).__name__} instead of RuntimeError", {"check": "raises", "kind": "limits", "n": n, "max_iter": mi, "max_tridiag_iter": mt})
    for n, where, dtype, nt in ((4, "matrix", F64, 0), (5, "rhs", F64, 0), (3, "rhs", F32, 1), (6, "guess", F64, 0), (4, "matrix", F32, 2)):
        A = spd(n, 10.0, "uniform", g).to(dtype)
        b = torch.randn(2, n, 3, generator=g, dtype=F64).to(dtype)
        x0 = torch.zeros_like(b)
        if where == "matrix":
            A = A.clone()
            A[n // 2, 0] = float("nan")
        elif where == "rhs":
            b[1, n - 1, 2] = float("nan")
        else:
            x0[0, 0, 1] = float("nan")
        cell = f"C08/raises/nan[{where}|{'f32' if dtype == F32 else 'f64'}|ntri={nt}]"
        chk.case(cell, nontrivial=True)
        try:
            with warnings.catch_warnings():
                warnings.simplefilter("ignore")
                linear_cg(A.matmul, b, initial_guess=x0, n_tridiag=nt, max_iter=10, max_tridiag_iter=3)
            chk.violation(cell, f"NaN in the {where} did not raise", {"check": "raises", "kind": "nan", "where": where})
        except RuntimeError:
            chk.count("raises_ok")
        except Exception as e:
            chk.violation(cell, f"raised {type(e).__name__} instead of RuntimeError", {"check": "raises", "kind": "nan", "where": where})


def check_solve_route(chk, consts, g, n, fam, kappa, dtype, batch, vec):
    """`op.solve` routed to CG (max_cholesky_size(0)) agrees with the dense solution; uses linear_cg (closure is op._matmul)."""
    import linear_operator
    from linear_operator import settings
    from linear_operator.operators import DenseLinearOperator
    vec = vec and not batch
    A = spd(n, kappa, fam, g, batch).to(dtype)
    b = torch.randn(*batch, n, generator=g, dtype=F64).to(dtype) if vec else torch.randn(*batch, n, 3, generator=g, dtype=F64).to(dtype)
    cell = f"C08/solve-route/fam={fam}|kappa={kappa:g}|n={n}|batch={'x'.join(map(str, batch)) or '-'}|vec={int(vec)}|dtype={'f32' if dtype == F32 else 'f64'}"
    chk.case(cell + "|" + bits(float(b.double().sum())), nontrivial=n > 1)
    tolv = 1e-8 if dtype == F64 else 1e-4
    import linear_operator.utils.linear_cg as lcg
    seen = []
    orig = linear_operator.utils.linear_cg
    try:
        with settings.max_cholesky_size(0), settings.cg_tolerance(tolv), settings.max_cg_iterations(6 * n + 30), warnings.catch_warnings():
            warnings.simplefilter("ignore")
            x = DenseLinearOperator(A).solve(b)
    except Exception as e:
        chk.violation(cell + "/raises", f"op.solve via CG raised {type(e).__name__}: {str(e)[:80]}", {"check": "solve"})
        return
    xs = torch.linalg.solve(A.double(), b.double().unsqueeze(-1) if vec else b.double())
    xs = xs.squeeze(-1) if vec else xs
    if x.shape != b.shape:
        chk.violation(cell + "/shape", f"solve returned shape {tuple(x.shape)} for rhs {tuple(b.shape)}", {"check": "solve"})
        return
    rel = float(((x.double() - xs).norm(dim=-1 if vec else -2) / xs.norm(dim=-1 if vec else -2)).max())
    lim = kappa * (10 * tolv + 3e-5) + 100 * kappa * unit(dtype)   # 3e-5: documented floor sqrt(eps) of the default eps
    if not rel <= lim:
        chk.violation(cell, f"op.solve via CG (cg_tolerance={tolv:g}) has relative error {rel:.3e} > {lim:.3e}", {"check": "solve"})


# ---------------------------------------------------------------------------------------------- correspondence
PERT = 1e-11      # relative size of the data perturbation used to MEASURE the amplification of each compared quantity


def _dev(a, b):
    """relative 2-norm deviation of b from a (lists / tensors)"""
    a = torch.as_tensor(a, dtype=F64).flatten()
    b = torch.as_tensor(b, dtype=F64).flatten()
    return float((a - b).norm()), float(a.norm())


def compare_model(chk, sc, r, outs4, tol_rel):
    """outs4 = model outputs for (base, thresholds x lo, thresholds x hi, data perturbed by PERT).
    Returns 'ok' | 'fragile' | ('break', what).

    Robustness rule (by construction, not by tolerance tuning): a quantity q (one column of one closure argument, one row of one
    tridiagonal matrix, one solution column) is compared between implementation and model only while the MODEL's own q moves by
    less than `lim` (relative 2-norm) when the right-hand side, the initial guess and (non-symmetrically) the matrix are perturbed by PERT = 1e-11, i.e. while its measured amplification is
    below lim/PERT.  Implementation and model differ by rounding (~1e-14 relative for float64, ~1e-6 for float32 inputs), so
    the expected legitimate deviation is ~ lim * 1e-3; the largest deviation observed inside the regime over quick seeds 0..80 and
    thorough seeds 0..3 was 1.8e-6 relative (float64 rule lim = 2e-6), i.e. 5.5x below `tolv` = 1e-5.  Once a column has
    left that regime (Krylov space exhausted, stagnation at the eps floor, exact initial guess …) it is never compared again, and
    control-flow differences that occur after ALL columns have left it are discarded as fragile."""
    base, lo, hi, pert = [parse_model(o) for o in outs4]
    f32 = sc["dtype"] == F32
    lim, tolv = (3e-9, 5e-2) if f32 else (2e-6, 1e-5)
    disc = lambda d: (d.get("err"), d.get("iters"), d.get("warn"), d.get("pre"), d.get("tsize"))
    if disc(base) != disc(lo) or disc(base) != disc(hi) or disc(base) != disc(pert):
        return "fragile"
    if base.get("err") == "ok":
        for other in (lo, hi):
            for a, b in zip(base["xv"], other["xv"]):
                if any(abs(p - q) > 1e-9 * max(1.0, abs(p)) for p, q in zip(a, b)):
                    return "fragile"
    # exceptions
    if base.get("err") != "ok":
        if r.err is None or not r.err.startswith("RuntimeError"):
            return ("break", f"model raises {base.get('err')} but the implementation {'returned' if r.err is None else 'raised ' + r.err}")
        return "ok"
    if r.err is not None:
        return ("break", f"implementation raised {r.err} but the model returns")
    iters = len(r.calls) - 1
    # ---- trajectory of matmul_closure arguments, column by column, while the column is in the well-conditioned regime
    ncol = len(base["tracev"][0])
    dead_at = [None] * ncol            # call index at which the column left the comparable regime
    ncalls = min(len(r.calls), len(base["tracev"]), len(pert["tracev"]))
    # scale of each column's data: initial guess and first direction (normalised system); anything below `noise`*scale is rounding noise
    col_scale = [max([_dev(base["tracev"][ci][cj], base["tracev"][ci][cj])[1] for ci in range(min(2, ncalls))] + [0.0]) for cj in range(ncol)]
    noise = 1e-2 if f32 else 1e-9
    # regime boundaries from the MODEL alone (base vs perturbed run), over all of the model's calls
    for ci in range(min(len(base["tracev"]), len(pert["tracev"]))):
        for cj in range(ncol):
            if dead_at[cj] is None:
                dm, nm = _dev(base["tracev"][ci][cj], pert["tracev"][ci][cj])
                if (dm > lim * max(nm, 1e-300) and dm > 1e-300) or (ci >= 2 and nm < noise * col_scale[cj]):
                    dead_at[cj] = ci
    for ci in range(ncalls):
        cols = flat_cols(r.calls[ci].double())
        mcall, pcall = base["tracev"][ci], pert["tracev"][ci]
        if len(cols) != len(mcall):
            return ("break", f"matmul call {ci}: {len(cols)} columns vs model {len(mcall)}")
        for cj in range(ncol):
            if dead_at[cj] is not None and ci >= dead_at[cj]:
                continue
            dm, nm = _dev(mcall[cj], pcall[cj])
            di, _ = _dev(mcall[cj], cols[cj])
            if nm > 0:
                chk.extra["corr_max_dev_over_tol"] = max(chk.extra.get("corr_max_dev_over_tol", 0.0), di / (tolv * nm))
            if di > tolv * nm + 1e-300:
                return ("break", f"argument of matmul_closure call {ci}, column {cj}: relative deviation {di / max(nm, 1e-300):.3e} "
                        f"(implementation {cols[cj].tolist()[:3]}…, model {mcall[cj][:3]}…; measured amplification {dm / max(nm, 1e-300) / PERT:.1e})")
    chk.count("corr_calls_compared", sum(min(d if d is not None else ncalls, ncalls) for d in dead_at))
    inf_ = 10 ** 9
    all_dead_before = max((d if d is not None else inf_) for d in dead_at)   # first call at which nothing is comparable any more
    # the decision to leave the loop after iteration m (or to skip it, m = 0) is taken on the state that produces call m + 1
    noisy_tail = all_dead_before <= min(iters, int(base["iters"])) + 1
    if iters != int(base["iters"]):
        return "fragile" if noisy_tail else ("break", f"iteration count: implementation {iters}, model {base['iters']}")
    if r.warn != (base["warn"] == "1"):
        return "fragile" if noisy_tail else ("break", f"NumericalWarning: implementation {r.warn}, model {base['warn']}")
    want_pre = (len(r.pcalls) > 0) if sc.get("Minv") is not None else False
    if sc.get("Minv") is not None and want_pre != (base["pre"] == "1"):
        return ("break", f"preconditioner called before the loop: implementation {want_pre}, model {base['pre']}")
    if sc.get("Minv") is not None and want_pre and len(r.pcalls) != iters + 1:
        return ("break", f"preconditioner calls: implementation {len(r.pcalls)}, model {iters + 1}")
    # ---- solution, column by column
    xcols = flat_cols(r.result.double() if r.result.dim() > 1 else r.result.double().unsqueeze(-1))
    bsh = r.result.shape
    ref = torch.linalg.solve(sc["A"].double(), sc["rhs"].double()).expand(bsh)
    refs = flat_cols(ref)
    x0s = flat_cols(sc["x0"].double().expand(bsh)) if sc.get("x0") is not None else [torch.zeros(1, dtype=F64)] * len(refs)
    kA = eff_kappa(sc)[1]
    A64 = sc["A"].double()
    bcols = flat_cols(sc["rhs"].double().expand(*bsh[:-2], sc["n"], bsh[-1]) if len(bsh) >= 2 else sc["rhs"].double().unsqueeze(-1))
    Acols = A64.expand(*bsh[:-2], sc["n"], sc["n"]).reshape(-1, sc["n"], sc["n"]) if len(bsh) >= 2 else A64.reshape(-1, sc["n"], sc["n"])
    ccount = bsh[-1] if len(bsh) >= 2 else 1
    for cj, (col, mcol, pcol, rc, gc) in enumerate(zip(xcols, base["xv"], pert["xv"], refs, x0s)):
        scale = max(1e-300, float(col.norm()), float(rc.norm()), float(gc.norm()))
        dm, _ = _dev(mcol, pcol)
        if f32 and dm > 1e-8 * scale:
            continue
        allowed = max(tol_rel, 10 * dm / scale)
        if dead_at[cj] is not None and dead_at[cj] <= iters:
            # the column spent its last iterations outside the comparable regime: the two results are then only known to be
            # approximations of x* of the accuracy either run reached (relative error <= kappa * relative residual)
            Ab = Acols[cj // ccount]
            bn = float(bcols[cj].norm())
            rr_impl = float((bcols[cj] - Ab @ col).norm()) / max(bn, 1e-300) if bn > 0 else float((Ab @ col).norm())
            rr_model = base["rnsv"][cj] if cj < len(base["rnsv"]) else 0.0
            allowed = max(allowed, 2 * kA * max(rr_impl, rr_model) * max(1.0, float(rc.norm())) / scale if bn > 0 else 2 * kA * rr_impl / scale)
        di, _ = _dev(mcol, col)
        if di > allowed * scale:
            return ("break", f"solution column {cj}: relative deviation {di / scale:.3e} (allowed {allowed:.3e}); "
                    f"implementation {col.tolist()[:3]}…, model {mcol[:3]}…")
    # ---- tridiagonal matrices, row by row
    if sc.get("n_tridiag"):
        T = r.tmat.double()
        k = T.shape[-1]
        nt = sc["n_tridiag"]
        c = r.calls[0].shape[-1]
        nb = ncol // c
        tri_cols = [b_ * c + j for b_ in range(nb) for j in range(nt)]           # model order: batch member, then column
        tri_dead = max((dead_at[cj] if dead_at[cj] is not None else inf_) for cj in tri_cols)
        if k != int(base["tsize"]):
            # rows >= tri_dead - 1 are written from quantities outside the comparable regime (the `< 1e-6` switch-off acts on them)
            if tri_dead - 1 <= min(k, int(base["tsize"])) or (f32 and min(k, int(base["tsize"])) >= 2):
                return "fragile"   # (float32: the absolute `< 1e-6` switch-off test acts on entries at float32 rounding level)
            return ("break", f"tridiagonal size: implementation {k}, model {base['tsize']}")
        Tf = T.reshape(nt, -1, k, k)
        mi = 0
        for bi in range(Tf.shape[1]):
            for j in range(nt):
                mt, pt = base["tv"][mi], pert["tv"][mi]
                mi += 1
                cj = bi * c + j
                for row in range(k):
                    dm, nm = _dev(mt[row], pt[row])
                    if dm > lim * max(nm, 1e-300) or (dead_at[cj] is not None and row + 1 >= dead_at[cj]):
                        break   # this and all later rows of this matrix are outside the comparable regime
                    di, _ = _dev(mt[row], Tf[j, bi][row])
                    if di > tolv * nm + 1e-300:
                        return ("break", f"tridiagonal row {row} (column {j}, batch {bi}): relative deviation {di / max(nm, 1e-300):.3e}; "
                                f"implementation {Tf[j, bi][row].tolist()}, model {mt[row]}")
                    chk.count("corr_tridiag_rows_compared")
    return "ok"


def corr_scenarios(chk, consts, g, rng, count):
    scs = []
    pres = ["none", "jacobi", "exact", "lowrank"]
    for i in range(count):
        n = rng.choice([1, 2, 3, 5, 8, 8, 16] if i % 7 else [32])
        fam = rng.choice(FAMS)
        kappa = rng.choice([1.0, 10.0, 100.0, 1000.0] if n < 32 else [10.0])
        dtype = F32 if i % 6 == 5 else F64
        if dtype == F32:
            kappa = min(kappa, 10.0)
        ab, rb = rng.choice([((), ()), ((), ()), ((2,), (2,)), ((), (2,)), ((2, 1), (2, 3)) if n <= 8 else ((), ())])
        cols = rng.choice([1, 2, 3])
        special = {}
        kind = rng.choice(["none", "none", "zero", "tiny", "subeps", "huge"])
        if kind != "none":
            special[rng.randrange(cols)] = kind
        pre = pres[i % 4] if n > 1 else "none"
        mode = i % 5
        params = {}
        if mode == 0:      # defaults everywhere
            pass
        elif mode == 1:    # explicit thresholds, budget-limited
            params = dict(tolerance=rng.choice([0.0, 1e-2, 1e-6]), eps=rng.choice([1e-10, 1e-5, 1e-20]),
                          stop_updating_after=rng.choice([1e-10, 1e-3, 1e-6]), max_iter=rng.choice([1, 2, 3, 5, 12, 25]), max_tridiag_iter=0)
        elif mode == 2:    # tridiagonals
            mi = rng.choice([3, 6, 12, 25])
            params = dict(n_tridiag=rng.randint(1, cols), max_iter=mi, max_tridiag_iter=rng.choice([1, 2, min(mi, 5), mi]),
                          tolerance=rng.choice([None, 1e-3, 0.0]), eps=rng.choice([None, 1e-20]))
        elif mode == 3:    # terminate_cg_by_size
            params = dict(terminate=True, tolerance=rng.choice([None, 1e-4]), max_iter=rng.choice([None, 4, 40]), max_tridiag_iter=0)
        else:              # tridiagonals + terminate + defaults of the limits
            mi = rng.choice([None, 30])
            # (tolerance below the sqrt(eps) floor with the default budget means 1000 stagnating iterations: keep those rare)
            params = dict(n_tridiag=rng.randint(1, cols), terminate=rng.choice([True, False]),
                          tolerance=rng.choice([None, 1e-3] if mi is None and i % 25 else [None, 1e-5]), max_iter=mi)
        x0_kind = rng.choice(["none", "none", "random", "near", "exact"])
        sc = make_scenario(consts, g, n, fam, kappa, dtype, abatch=ab, rbatch=rb, cols=cols, special=special, x0_kind=x0_kind, pre=pre, **params)
        if sc.get("n_tridiag") is None:
            sc["n_tridiag"] = 0
        scs.append(sc)
    return scs


def run_correspondence(chk, scs):
    lines, owners, impls = [], [], []
    gp = torch.Generator().manual_seed(chk.rng.randrange(2 ** 31))
    for sc in scs:
        r = run_impl(sc)
        impls.append(r)
        d = 1e-3 if sc["dtype"] == F64 else 3e-2
        # eps is compared with squared, cancellation-prone quantities (p'Ap, r'z) only near the accuracy floor: wide window
        xi = torch.rand(sc["rhs"].shape, generator=gp, dtype=F64) * 2 - 1
        rhs_p = sc["rhs"].double() * (1 + PERT * xi)      # the model always computes in float64
        x0_p = None
        if sc.get("x0") is not None:
            x0_p = sc["x0"].double() * (1 + PERT * (torch.rand(sc["x0"].shape, generator=gp, dtype=F64) * 2 - 1))
        # NON-symmetric relative perturbation of the matrix: every matmul then carries a local error of relative size PERT that
        # violates the symmetry the CG recurrences rely on - it is amplified exactly like rounding errors are (loss of
        # orthogonality), which a perturbation of the initial data alone (another exact CG run) is not
        A_p = sc["A"].double() * (1 + PERT * (torch.rand(sc["A"].shape, generator=gp, dtype=F64) * 2 - 1))
        lines += [model_line(sc), model_line(sc, (0.5, 1 - d)), model_line(sc, (2.0, 1 + d)), model_line(sc, None, rhs_p, x0_p, A_p)]
    outs = chk.run_driver("C08", lines)
    if outs is None:
        return
    for i, (sc, r) in enumerate(zip(scs, impls)):
        cell = cell_of(sc, "corr")
        o3 = outs[4 * i:4 * i + 4]
        if any(o.startswith("bad") for o in o3):
            chk.proof_break("LinOp.C08.Driver", f"driver rejected a line: {o3[0][:80]}")
            return
        kk = max(10.0, eff_kappa(sc)[0], sc["kappa"])
        eps_used = sc.get("eps") if sc.get("eps") is not None else float(sc["consts"]["eps"])
        # below sqrt(eps) (normalised units) the safe divisions switch the recurrence off: vectors there are rounding noise
        tolc = 1e-8 * kk if sc["dtype"] == F64 else 2e-4 * kk     # solution only; trajectories/tridiagonals use the amplification rule
        verdict = compare_model(chk, sc, r, o3, tolc)
        chk.case(cell + "|" + bits(float(sc["rhs"].double().sum())), nontrivial=sc["n"] > 1)
        chk.count("corr:" + ("f32" if sc["dtype"] == F32 else "f64"))
        if verdict == "ok":
            chk.traces_validated += 1
            chk.count("corr_iters", len(r.calls) - 1 if r.err is None else 0)
        elif verdict == "fragile":
            chk.count("corr_discarded_for_margin")
        else:
            chk.corr_break(cell, verdict[1], payload_of(sc, {"check": "corr"}))


# ---------------------------------------------------------------------------------------------- driver of the check
def translator_crosscheck(chk, consts):
    from fractions import Fraction
    from linear_operator.utils.linear_cg import linear_cg
    from linear_operator import settings
    sig = inspect.signature(linear_cg)
    for name, key in (("eps", "eps"), ("stop_updating_after", "stop_updating_after"), ("n_tridiag", "n_tridiag_default")):
        rt = sig.parameters[name].default
        if consts[key] is None or float(consts[key]) != float(rt):
            chk.proof_break("translator(C08Consts)", f"default of `{name}` extracted as {consts[key]} but is {rt} at run time")
    for name in ("tolerance", "max_iter", "max_tridiag_iter", "initial_guess", "preconditioner"):
        if sig.parameters[name].default is not None:
            chk.proof_break("translator(C08Consts)", f"default of `{name}` is not None at run time")
    for cls, key in ((settings.max_cg_iterations, "max_cg_iterations"), (settings.max_lanczos_quadrature_iterations, "max_lanczos_quadrature_iterations"),
                     (settings.cg_tolerance, "cg_tolerance")):
        if consts[key] is None or Fraction(consts[key]) != Fraction(cls.value()):
            chk.proof_break("translator(C08Consts)", f"settings.{key} extracted as {consts[key]} but is {cls.value()} at run time")
    if str(settings.terminate_cg_by_size._default) != consts["terminate_cg_by_size"] or settings.terminate_cg_by_size.on() != (consts["terminate_cg_by_size"] == "True"):
        chk.proof_break("translator(C08Consts)", "settings.terminate_cg_by_size default differs at run time")


def property_scenarios(chk, consts, g, rng):
    quick = chk.tier == "quick"
    ns = [1, 2, 3, 5, 8, 16, 32, 64]
    kappas = [1.0, 10.0, 1e3, 1e6]
    reps = 1 if quick else 3
    i = 0
    for rep in range(reps):
        for n in ns:
            for fam in FAMS:
                for kappa in kappas:
                    i += 1
                    if quick and (i + chk.seed) % 2 and n >= 16:
                        continue
                    dtype = F32 if (i + rep) % 3 == 0 else F64
                    if dtype == F32 and kappa > 1e3:
                        kappa = 1e3
                    ab, rb = rng.choice([((), ()), ((2,), (2,)), ((), (3,)), ((2, 1), (2, 2))]) if n <= 16 else ((), ())
                    cols = rng.choice([1, 2, 4])
                    kind = rng.choice(["none", "zero", "tiny", "huge", "subeps"])
                    special = {rng.randrange(cols): kind} if kind != "none" else {}
                    if cols == 4 and rng.random() < 0.5:
                        special = {0: "huge", 2: "tiny"}        # huge and tiny columns mixed with normal ones
                    pre = rng.choice(["none", "none", "jacobi", "lowrank", "exact"]) if n > 1 else "none"
                    x0_kind = rng.choice(["none", "none", "none", "random", "near"])
                    mode = i % 4
                    if mode == 0:
                        params = {}
                    elif mode == 1:
                        params = dict(tolerance=0.0)
                    elif mode == 2:
                        params = dict(tolerance=rng.choice([1e-2, 1e-4]), eps=1e-30, stop_updating_after=rng.choice([1e-3, 1e-2, 1e-5]),
                                      terminate=rng.choice([None, True]))
                    else:
                        params = dict(tolerance=rng.choice([1e-3, 1.0]), eps=rng.choice([1e-20, 1e-10]), stop_updating_after=1e-8, terminate=rng.choice([True, False]))
                    sc = make_scenario(consts, g, n, fam, kappa, dtype, abatch=ab, rbatch=rb, cols=cols, special=special, x0_kind=x0_kind, pre=pre,
                                       pre_form=rng.choice(["dense", "diag"]), **params)
                    yield sc


def tridiag_scenarios(chk, consts, g, rng):
    quick = chk.tier == "quick"
    for rep in range(1 if quick else 3):
        for n in [1, 2, 3, 5, 8, 16, 32, 64]:
            for fam in FAMS:
                kappa = rng.choice([10.0, 100.0, 1e3] if n <= 16 else [10.0, 1e4])
                dtype = F32 if rng.random() < 0.2 else F64
                ab, rb = rng.choice([((), ()), ((2,), (2,)), ((), (2,)), ((2, 1), (2, 2))]) if n <= 16 else ((), ())
                cols = rng.choice([1, 2, 3])
                nt = rng.randint(1, cols)
                pre = rng.choice(["none", "none", "jacobi", "lowrank"]) if n > 1 else "none"
                full = n <= 16 and rng.random() < 0.6
                if full:
                    k = n
                    params = dict(max_iter=n + 2, max_tridiag_iter=n, tolerance=0.0, eps=1e-30, stop_updating_after=1e-14)
                else:
                    k = rng.choice([1, 2, 3, min(n, 6)])
                    k = max(1, min(k, n))
                    params = dict(max_iter=rng.choice([k, k + 1, k + 5]), max_tridiag_iter=k, tolerance=rng.choice([0.0, 1e-3]), eps=1e-30,
                                  stop_updating_after=1e-14)
                sc = make_scenario(consts, g, n, fam, kappa, dtype, abatch=ab, rbatch=rb, cols=cols, pre=pre, n_tridiag=nt, **params)
                # rows produced by genuine CG steps (Krylov space not exhausted): clustered spectra exhaust it early
                sc["_genuine_k"] = min(k, n if fam != "clustered" else min(n, 2))
                yield sc
        # max_iter = 1 with tridiagonals (known finding when the tolerance is met at k = 0)
        for n in (1, 3):
            sc = make_scenario(consts, g, n, "uniform", 1.0 if n > 1 else 10.0, F64, cols=1, n_tridiag=1, max_iter=1, max_tridiag_iter=1, tolerance=1e-3)
            sc["_genuine_k"] = 1
            yield sc
        # default limits (max_lanczos_quadrature_iterations = 20, max_cg_iterations = 1000), default thresholds
        for n in ([5, 32] if quick else [3, 8, 32, 64]):
            sc = make_scenario(consts, g, n, "geometric", 100.0, F64, cols=2, n_tridiag=2)
            sc["_genuine_k"] = None
            yield sc


def run(chk):
    consts = c08_cg.generate()
    chk.rule = ("SPD matrices with prescribed spectra (uniform / clustered / geometric, kappa 1..1e6) x n in {1,2,3,5,8,16,32,64} x batch/broadcast shapes "
                "x 1-4 columns incl. zero / tiny / sub-eps / huge columns x initial guesses x preconditioners {none, Jacobi (dense, diagonal closure), exact inverse, "
                "low-rank+diag} x tolerances x eps / stop_updating_after x max_iter / max_tridiag_iter / n_tridiag x terminate_cg_by_size x float32/float64; "
                "values seed-random; distinct = distinct cell + data; non-trivial = n > 1. Property checks run the real linear_cg for budgets 1..n+2; "
                "correspondence compares the Lean model on binary64 (closure-argument trajectory, iteration count, solution, tridiagonals, warning/exception), "
                "discarding cases whose outputs change when tolerance / stop_updating_after are perturbed by 1e-3 relative (3e-2 for float32) or eps by a factor 2")
    chk.assumptions += ["matmul_closure / preconditioner closures are pure, linear, symmetric positive definite",
                        "floating-point rounding is not modelled: theorems are over ordered fields, the gap is bridged by toleranced correspondence "
                        "(1e-8·max(10,kappa) relative float64, 2e-4·max(10,kappa) float32) and by the documented accuracy floor in the implementation checks",
                        "torch.linalg.solve / eigvalsh / cholesky (float64) as dense references"]
    translator_crosscheck(chk, consts)
    chk.prove("LinOp.Properties.C08", ["LinOp/C08", "LinOp/Generated/C08Consts.lean", "LinOp/Core/Basic.lean", "LinOp/Core/Parse.lean", "LinOp/Core/Bridge.lean"])
    g = torch.Generator().manual_seed(chk.rng.randrange(2 ** 31))
    rng = chk.rng
    quick = chk.tier == "quick"
    # ---- correspondence
    run_correspondence(chk, corr_scenarios(chk, consts, g, rng, 70 if quick else 400))
    # ---- property on the implementation
    check_raises(chk, consts, g)
    check_nowarn(chk, consts, g, rng)
    for sc in property_scenarios(chk, consts, g, rng):
        chk.count("fam:" + sc["fam"])
        chk.count(f"n:{sc['n']}")
        chk.count("dtype:" + ("f32" if sc["dtype"] == F32 else "f64"))
        chk.count("pre:" + sc["pre"])
        chk.count("x0:" + sc["x0_kind"])
        check_budgets(chk, sc)
        if sc["n"] <= 16 or not quick:
            c = rng.choice([2.0, 0.5, -1.0, 3.7, 1e5, 1e-4, -0.3])
            check_scaling(chk, sc, c)
    for sc in tridiag_scenarios(chk, consts, g, rng):
        chk.count("tridiag_scenarios")
        check_tridiag(chk, sc)
        if sc["n"] <= 8:
            check_scaling(chk, sc, rng.choice([2.0, -1.0, 5.5]))
    mixed = list(mixed_scenarios(chk, consts, g, rng))
    for sc in mixed:
        check_tridiag_mixed(chk, sc)
    run_correspondence(chk, mixed[:6])      # the model's switch-off is the max over all tridiagonal columns and batch members
    for n in ([2, 5, 16, 64] if quick else [1, 2, 3, 5, 8, 16, 32, 64]):
        for fam in FAMS:
            kappa = rng.choice([10.0, 1e3, 1e4])
            dtype = F32 if rng.random() < 0.25 else F64
            if dtype == F32:
                kappa = min(kappa, 100.0)
            check_precond_limit(chk, consts, g, n, fam, kappa, dtype, rng.choice([(), (2,)]))
            check_solve_route(chk, consts, g, n, fam, min(kappa, 1e3), dtype, rng.choice([(), (2,)]), rng.random() < 0.4)


def replay(chk, payload):
    consts = c08_cg.generate()
    p = payload.get("payload") or {}
    if "A" not in p:
        print("replay carries no stored input (broken obligation / generated case); re-running the check:", json.dumps(p)[:1500])
        return run(chk)
    sc = sc_from_payload(p, consts)
    kind = p.get("check")
    if kind == "budget":
        check_budgets(chk, sc)
    elif kind == "scaling":
        check_scaling(chk, sc, p.get("c", 2.0))
    elif kind == "tridiag":
        sc["_genuine_k"] = None
        check_tridiag(chk, sc)
    elif kind == "corr":
        run_correspondence(chk, [sc])
    elif kind == "tridiag-mixed":
        sc2 = degenerate_mix(consts, torch.Generator().manual_seed(0), sc["n"], p.get("deg", "zero"), p.get("where", "column"))
        sc2["A"], sc2["rhs"], sc2["Minv"], sc2["pre"] = sc["A"], sc["rhs"], sc.get("Minv"), sc.get("pre") or "none"
        check_tridiag_mixed(chk, sc2)
    elif kind == "nowarn":
        msg = nowarn_failure(sc, run_impl(sc))
        if msg:
            chk.violation(cell_of(sc, "nowarn"), "replay: " + msg, p)
        chk.case("replay-nowarn")
    elif kind == "precond":
        r = run_impl(sc)
        xs = torch.linalg.solve(sc["A"], sc["rhs"].double())
        e = a_norm_err(sc["A"], xs, r.result) / a_norm_err(sc["A"], xs, torch.zeros_like(xs))
        if r.err or float(e.max()) > 1e-3:
            chk.violation(cell_of(sc, "precond-limit"), f"replay: relative A-norm error {float(e.max()):.3e}, err={r.err}", p)
        chk.case("replay-precond")
    else:
        return run(chk)
