"""C10 — `PivotedCholesky.backward` (part of the C10 check; called from c10.run).

`backward` does not differentiate the loop: it recomputes the factor from the saved pivots
(`res_pivoted = [chol(Krows[:m]); Krows[m:] chol(Krows[:m])^-T]`, `res = res_pivoted[pi^-1]`, Krows = K[pi, pi[:m]]) and
back-propagates through that (Lean: `pc_backward_krows_factorizes_partial` is the identity this rests on).

impl : gradient of  sum(W * op.pivoted_cholesky(rank, error_tol))  w.r.t. the tensors defining the operator (real autograd Function).
spec : (1) dense autograd through an INDEPENDENT differentiable textbook pivoted Cholesky (explicit Schur updates R <- R - c c^T / d,
       pivots fixed to the ones the forward pass chose), (2) central finite differences of the real forward pass along random
       SYMMETRIC directions.  Only the symmetric part of dL/dA is determined by the function on symmetric matrices, so for a dense
       operator the symmetrised gradients are compared; for parametrised operators (Root, ConstantMul) the chain rule symmetrises.
Inputs: well-conditioned SPD matrices with separated residual diagonals (arg-max margins checked), so pivots are locally constant.
"""
import math

import torch


def ref_factor(A, piv, r):
    """Differentiable textbook pivoted Cholesky with given pivots: A (b, n, n), piv (b, n) -> (b, n, r)."""
    outs = []
    for i in range(A.shape[0]):
        R = A[i]
        cols = []
        for t in range(r):
            p = int(piv[i, t])
            d = R[p, p]
            col = R[:, p] / d.sqrt()
            mask = torch.ones_like(col)
            for u in range(t):
                mask[int(piv[i, u])] = 0.0
            col = col * mask
            cols.append(col)
            R = R - torch.outer(col, col)
        outs.append(torch.stack(cols, dim=-1))
    return torch.stack(outs)


def spd(rng, nb, n):
    """SPD batch with well separated greedy pivots: random orthogonal-ish mixing of a geometric spectrum + distinct diagonal."""
    g = torch.Generator().manual_seed(rng.randrange(2 ** 31))
    B = torch.randn(nb, n, n, generator=g, dtype=torch.float64) * 0.3
    d = torch.tensor([[1.0 + 0.9 * j + 0.2 * rng.random() for j in range(n)] for _ in range(nb)], dtype=torch.float64)
    for row in d:
        perm = list(range(n))
        rng.shuffle(perm)
        row.copy_(row[perm])
    return B @ B.mT + torch.diag_embed(d)


def backward_cases(chk, only, viol, quick):
    from linear_operator.operators import ConstantMulLinearOperator, DenseLinearOperator, RootLinearOperator
    from . import c10
    rng = chk.rng
    kinds = ["Dense", "Root", "ConstantMul"]
    for kind in kinds:
        for bshape in [(), (2,)] + ([] if quick else [(1, 2)]):
            for tname in ("none", "tight", "loose"):
                cell = f"C10/backward/{kind}/b={bshape}/tol={tname}"
                if only and only != cell:
                    continue
                for rep in range(1 if quick else 3):
                    nb = int(torch.Size(bshape).numel())
                    n = rng.choice([3, 4, 5, 6])
                    rank = rng.randint(1, n + 1)
                    tolv = {"none": None, "tight": 1e-12, "loose": 0.3}[tname]
                    from linear_operator import settings
                    tol_eff = settings.preconditioner_tolerance.value() if tolv is None else tolv
                    A0 = spd(rng, nb, n)
                    mo, Lo, po, margin, stop_margin, minpiv = c10.oracle_float(A0, rank, tol_eff)
                    if not (margin > 1e-2 and stop_margin > 1e-2 and minpiv > 1e-3):
                        chk.count("backward_not_robust")
                        continue
                    g = torch.Generator().manual_seed(rng.randrange(2 ** 31))
                    W = torch.randn(nb, n, mo, generator=g, dtype=torch.float64)
                    payload = {"kind": "backward", "opkind": kind, "n": n, "rank": rank, "tol": tolv}
                    chk.case(f"{cell}|n={n}|rank={rank}|r={mo}|{A0.flatten()[:6].tolist()}", nontrivial=True)
                    chk.count("backward")
                    # parametrisation
                    if kind == "Dense":
                        params = [A0.reshape(*bshape, n, n).clone().requires_grad_(True)]
                        mk = lambda ps: DenseLinearOperator(ps[0])
                        dense = lambda ps: ps[0]
                    elif kind == "Root":
                        F0 = torch.linalg.cholesky(A0).reshape(*bshape, n, n)
                        params = [F0.clone().requires_grad_(True)]
                        mk = lambda ps: RootLinearOperator(ps[0])
                        dense = lambda ps: ps[0] @ ps[0].mT
                    else:
                        c0 = torch.tensor([rng.choice([0.5, 2.0, 3.0]) for _ in range(nb)], dtype=torch.float64).reshape(bshape)
                        params = [(A0.reshape(*bshape, n, n) / c0[..., None, None]).clone().requires_grad_(True), c0.clone().requires_grad_(True)]
                        mk = lambda ps: ConstantMulLinearOperator(DenseLinearOperator(ps[0]), ps[1])
                        dense = lambda ps: ps[0] * ps[1][..., None, None]
                    call = lambda op: op.pivoted_cholesky(rank, return_pivots=True) if tolv is None else op.pivoted_cholesky(rank, error_tol=tolv, return_pivots=True)
                    try:
                        L, piv = call(mk(params))
                        if L.shape[-1] != mo or c10.flat_batch(piv, 1).tolist() != po:
                            viol(cell, f"forward differs from the textbook algorithm: r={L.shape[-1]} vs {mo}", payload)
                            continue
                        loss = (L.reshape(nb, n, mo) * W).sum()
                        grads = torch.autograd.grad(loss, params)
                    except Exception as e:
                        viol(cell, f"exception {type(e).__name__}: {str(e)[:300]} (n={n}, rank={rank})", payload)
                        continue
                    # (1) dense autograd through the independent differentiable reference with the same pivots
                    ps2 = [p.detach().clone().requires_grad_(True) for p in params]
                    Lref = ref_factor(dense(ps2).reshape(nb, n, n), c10.flat_batch(piv, 1), mo)
                    if float((Lref - L.reshape(nb, n, mo)).abs().max()) > 1e-9:
                        viol(cell, f"forward factor differs from the differentiable reference by {float((Lref - L.reshape(nb, n, mo)).abs().max()):.3e}", payload)
                        continue
                    gref = torch.autograd.grad((Lref * W).sum(), ps2)
                    bad = None
                    for k, (gi, gr) in enumerate(zip(grads, gref)):
                        if gi is None:
                            bad = f"no gradient for parameter {k}"
                            break
                        if kind in ("Dense", "ConstantMul") and k == 0:
                            # the parameter is a symmetric matrix: only the symmetric part of the gradient is determined
                            gi, gr = (gi + gi.mT) / 2, (gr + gr.mT) / 2
                        err = float((gi - gr).abs().max()) / max(1.0, float(gr.abs().max()))
                        if gi.shape != gr.shape or err > 1e-7:
                            bad = f"gradient w.r.t. parameter {k} differs from dense autograd through a textbook pivoted Cholesky (same pivots) by {err:.3e} (relative)"
                            break
                    if bad:
                        viol(cell, f"{bad}; n={n}, rank={rank}, r={mo}, pivots {po}", payload)
                        continue
                    # (2) finite differences of the real forward along a symmetric direction of the dense matrix / a parameter direction
                    gd = torch.Generator().manual_seed(rng.randrange(2 ** 31))
                    dirs = [torch.randn(p.shape, generator=gd, dtype=torch.float64) for p in params]
                    if kind in ("Dense", "ConstantMul"):
                        dirs[0] = (dirs[0] + dirs[0].mT) / 2
                    eps = 1e-6

                    def f(sign):
                        with torch.no_grad():
                            ps = [p.detach() + sign * eps * d for p, d in zip(params, dirs)]
                            Lx, px = call(mk(ps))
                            return (Lx.reshape(nb, n, -1) * W).sum() if Lx.shape[-1] == mo and torch.equal(px, piv) else None
                    fp, fm = f(+1), f(-1)
                    if fp is None or fm is None:
                        chk.count("backward_fd_pivot_change")
                        continue
                    fd = float((fp - fm) / (2 * eps))
                    an = float(sum((g_ * d).sum() for g_, d in zip(grads, dirs)))
                    if abs(fd - an) > 1e-5 * max(1.0, abs(fd)):
                        viol(cell, f"directional derivative {an:.8g} from backward vs central finite difference {fd:.8g} of the real forward pass "
                                   f"(n={n}, rank={rank}, r={mo})", payload)
                        continue
                    chk.count("backward_ok")
