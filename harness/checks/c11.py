"""C11 — MINRES solves all shifted systems; contour quadrature gives the matrix root.

Pipeline: translator (literals / statement texts / rotation block of minres.py, contour_integral_quad.py,
_sqrt_inv_matmul.py, settings -> Generated/C11Consts.lean, cross-checked against run-time signatures and settings),
Lean build + axiom audit of LinOp.Properties.C11, then

  * property on the implementation (dense float64 references computed with torch.linalg only):
    real `minres` on SPD K x spectra x sizes 1..40 x batch/broadcast shapes x column counts x shift kinds
    {None, 0-d, one-element vector, vector, batched} x preconditioners x value x tolerance x max_iter:
    solution of (value K + s I) x = b per shift (s P with a preconditioner P^-1: listed finding), zero columns -> zero,
    scaling in b, output-shape rule, iteration-count rule; `contour_integral_quad` (inverse True/False): shapes,
    shifts[0] = 0, no-shift solve = -K^-1 b, sum_q w_q solves_q = K^-+1/2 b from eigh; `op.sqrt_inv_matmul` twice = A^-1 R,
    left-factor variant (L A^-1/2 R, diag(L A^-1 L^T)), vector rhs, function form, operator classes with and without an
    active preconditioner; CIQ sampling covariance with substituted noise;
  * correspondence: the Lean model run on binary64 on the same inputs (closure-argument trajectory, iteration count,
    solutions; CIQ shifts/weights/solves from recorded scipy ellipk/ellipj outputs; output shapes exactly).
"""
import inspect
import json
import math
import struct
import warnings

import torch

from ..extract import c11_minres

F64, F32 = torch.float64, torch.float32
FAMS = ("uniform", "clustered", "geometric")


# ---------------------------------------------------------------------------------------------- inputs
def spectrum(n, kappa, fam, g):
    if n == 1:
        return torch.tensor([float(kappa)], dtype=F64)
    if fam == "uniform":
        return torch.linspace(1.0, kappa, n, dtype=F64)
    if fam == "geometric":
        return kappa ** (torch.arange(n, dtype=F64) / (n - 1))
    lam = torch.ones(n, dtype=F64)
    lam[-max(1, n // 3):] = kappa
    return lam * (1 + 0.01 * torch.rand(n, generator=g, dtype=F64))


def spd(n, kappa, fam, g, batch=(), scale=1.0):
    num = 1
    for b in batch:
        num *= b
    mats = []
    for _ in range(num):
        lam = spectrum(n, kappa, fam, g) * scale
        q, _ = torch.linalg.qr(torch.randn(n, n, generator=g, dtype=F64))
        a = (q * lam) @ q.T
        mats.append((a + a.T) / 2)
    return torch.stack(mats).reshape(*batch, n, n) if batch else mats[0]


def make_precond(kind, A, g):
    """(P, P^-1): the matrix the preconditioner approximates and the dense closure matrix; (None, None) for 'none'."""
    n = A.shape[-1]
    if kind == "none":
        return None, None
    if kind == "jacobi":
        d = torch.diagonal(A, dim1=-2, dim2=-1)
        return torch.diag_embed(d), torch.diag_embed(1.0 / d)
    if kind == "exact":
        m = torch.linalg.inv(A)
        return A, (m + m.mT) / 2
    if kind == "spd":
        r = max(1, n // 3)
        u = torch.randn(*A.shape[:-2], n, r, generator=g, dtype=F64)
        p = u @ u.mT + torch.diag_embed(torch.diagonal(A, dim1=-2, dim2=-1).mean(-1, keepdim=True).expand(*A.shape[:-1]).clone())
        p = (p + p.mT) / 2
        mi = torch.linalg.inv(p)
        return p, (mi + mi.mT) / 2
    raise ValueError(kind)


def bits(x):
    return str(struct.unpack("<Q", struct.pack("<d", float(x)))[0])


def unbits(s):
    return struct.unpack("<d", struct.pack("<Q", int(s)))[0]


def enc_vec(v):
    v = v.tolist() if hasattr(v, "tolist") else list(v)
    return ",".join(bits(x) for x in v) if len(v) else "-"


def enc_mat(m):
    return ";".join(enc_vec(r) for r in m)


def dec_vec(s):
    return [] if s in ("-", "") else [unbits(x) for x in s.split(",")]


def bstr(shape):
    return "x".join(str(int(s)) for s in shape) or "-"


def make_shifts(kind, batch, g, value, P_scale=1.0):
    """Shift tensors of every supported kind.  Signs follow `value` so that value*K + s*I stays definite."""
    sgn = -1.0 if (value is not None and value < 0) else 1.0

    def vals(*shape):
        return sgn * torch.rand(*shape, generator=g, dtype=F64) * 3.0 * P_scale

    if kind == "none":
        return None
    if kind == "scalar":
        return vals(1).reshape(())
    if kind == "vec1":
        return vals(1)
    if kind == "vec":
        q = 2 + int(torch.randint(0, 3, (1,), generator=g))
        s = vals(q)
        s[0] = 0.0
        return s
    if kind == "batched":
        q = 2 + int(torch.randint(0, 2, (1,), generator=g))
        s = vals(q, *batch)
        s[0] = 0.0
        return s
    if kind == "batched1":
        return vals(1, *batch)
    raise ValueError(kind)


# ---------------------------------------------------------------------------------------------- implementation
class Call:
    """One call of the real minres with recording closures."""

    def __init__(self, A, rhs, shifts=None, Minv=None, value=None, max_iter=None, tol=None, eps=None, pre_form="dense"):
        from linear_operator.utils.minres import minres
        from linear_operator import settings
        self.calls, self.pcalls = [], []
        dt = rhs.dtype
        Ad = A.to(dt)

        def mm(v):
            self.calls.append(v.detach().clone())
            return Ad @ v

        kw = {}
        if Minv is not None:
            Md = Minv.to(dt)
            if pre_form == "diag":
                dg = torch.diagonal(Md, dim1=-2, dim2=-1).unsqueeze(-1).clone()

                def pc(v):
                    self.pcalls.append(v.detach().clone())
                    return dg * v
            else:
                def pc(v):
                    self.pcalls.append(v.detach().clone())
                    return Md @ v
            kw["preconditioner"] = pc
        if shifts is not None:
            kw["shifts"] = shifts.to(dt)
        if value is not None:
            kw["value"] = value
        if max_iter is not None:
            kw["max_iter"] = max_iter
        if eps is not None:
            kw["eps"] = eps
        self.err, self.result = None, None
        rhs_in = rhs.clone()
        with warnings.catch_warnings():
            warnings.simplefilter("ignore")
            try:
                if tol is None:
                    self.result = minres(mm, rhs_in, **kw)
                else:
                    with settings.minres_tolerance(tol):
                        self.result = minres(mm, rhs_in, **kw)
            except Exception as e:
                self.err = type(e).__name__ + ": " + str(e)[:100]
        self.rhs_changed = not torch.equal(rhs_in, rhs)
        self.iters = len(self.calls) - 1


def run_impl(sc, **over):
    kw = dict(shifts=sc.get("shifts"), Minv=sc.get("Minv"), value=sc.get("value"), max_iter=sc.get("max_iter"), tol=sc.get("tol"),
              eps=sc.get("eps"), pre_form=sc.get("pre_form", "dense"))
    kw.update(over)
    rhs = kw.pop("rhs", sc["rhs"])
    return Call(sc["A"], rhs, **kw)


def padded_shifts(shifts, prod_dim, dtype=F64):
    if shifts is None:
        shifts = torch.tensor(0.0, dtype=dtype)
    s = shifts.to(dtype)
    return s.reshape(*s.shape, *([1] * max(0, prod_dim - s.dim() + 1)))


def spec_shape(sc):
    """The documented shape: (leading shift dimension iff several shifts) + broadcast batch + rhs matrix shape."""
    rhs, A, shifts = sc["rhs"], sc["A"], sc.get("shifts")
    vec = rhs.dim() == 1
    r2 = rhs.unsqueeze(-1) if vec else rhs
    bshape = tuple(torch.broadcast_shapes(A.shape[:-2], r2.shape[:-2]))
    base = bshape + ((r2.shape[-2],) if vec else tuple(r2.shape[-2:]))
    if shifts is None or shifts.numel() == 1:
        return base
    return (shifts.shape[0],) + base


def dense_solutions(sc, pencil):
    """Reference (Q, *batch, n, c): solutions of (value*K + s*B) x = b with B = P (pencil=True, the preconditioned matrix)
    or I (the property's statement)."""
    A, rhs = sc["A"].double(), sc["rhs"].double()
    vec = rhs.dim() == 1
    r2 = rhs.unsqueeze(-1) if vec else rhs
    n = A.shape[-1]
    bshape = tuple(torch.broadcast_shapes(A.shape[:-2], r2.shape[:-2]))
    sh = padded_shifts(sc.get("shifts"), len(bshape) + 2)
    val = 1.0 if sc.get("value") is None else float(sc["value"])
    B = sc["P"].double() if (pencil and sc.get("P") is not None) else torch.eye(n, dtype=F64)
    M = val * A + sh * B
    M = M.expand(sh.shape[0], *bshape, n, n)
    rr = r2.expand(*bshape, *r2.shape[-2:])
    return torch.linalg.solve(M, rr.expand(sh.shape[0], *rr.shape)), M


def cell_of(sc, check):
    sk = sc.get("shift_kind", "none")
    return (f"C11/minres/{check}/fam={sc['fam']}|kappa={sc['kappa']:g}|n={sc['n']}|Abatch={bstr(sc['A'].shape[:-2])}"
            f"|rhs={'vec' if sc['rhs'].dim() == 1 else bstr(sc['rhs'].shape[:-2]) + ':' + str(sc['rhs'].shape[-1])}|special={sc.get('special', '-')}"
            f"|shifts={sk}|pre={sc.get('pre', 'none')}/{sc.get('pre_form', 'dense')}|value={sc.get('value')}|tol={sc.get('tol')}|maxit={sc.get('max_iter')}"
            f"|dtype={'f32' if sc['rhs'].dtype == F32 else 'f64'}")


def payload_of(sc, extra=None):
    p = {k: sc.get(k) for k in ("fam", "kappa", "n", "special", "shift_kind", "pre", "pre_form", "value", "tol", "max_iter", "eps")}
    p["dtype"] = "f32" if sc["rhs"].dtype == F32 else "f64"
    for k in ("A", "rhs", "shifts", "Minv", "P"):
        p[k] = sc[k].tolist() if sc.get(k) is not None else None
    if extra:
        p.update(extra)
    return p


def sc_from_payload(p):
    dt = F32 if p.get("dtype") == "f32" else F64
    sc = {k: p.get(k) for k in ("fam", "kappa", "n", "special", "shift_kind", "pre", "pre_form", "value", "tol", "max_iter", "eps")}
    sc["A"] = torch.tensor(p["A"], dtype=F64)
    sc["rhs"] = torch.tensor(p["rhs"], dtype=dt)
    for k in ("shifts", "Minv", "P"):
        sc[k] = torch.tensor(p[k], dtype=F64) if p.get(k) is not None else None
    sc["pre_form"] = sc.get("pre_form") or "dense"
    return sc


def make_scenario(g, n, fam, kappa, dtype=F64, abatch=(), rbatch=None, cols=1, vec=False, special="-", shift_kind="none",
                  pre="none", pre_form="dense", value=None, tol=None, max_iter=None, eps=None):
    rbatch = abatch if rbatch is None else rbatch
    A = spd(n, kappa, fam, g, abatch)
    if vec:
        rhs = torch.randn(n, generator=g, dtype=F64)
    else:
        rhs = torch.randn(*rbatch, n, cols, generator=g, dtype=F64)
        if special != "-" and cols >= 1:
            j = cols - 1 if special.endswith("last") else 0
            if special.startswith("zero"):
                rhs[..., j] = 0
            elif special.startswith("tiny"):
                rhs[..., j] *= 1e-4
            elif special.startswith("huge"):
                rhs[..., j] *= 1e7
    bshape = tuple(torch.broadcast_shapes(tuple(abatch), tuple(() if vec else rbatch)))
    if shift_kind in ("batched", "batched1") and not bshape:
        shift_kind = "vec"
    P, Minv = make_precond(pre, A, g)
    shifts = make_shifts(shift_kind, bshape, g, value)
    return dict(n=n, fam=fam, kappa=float(kappa), A=A, rhs=rhs.to(dtype), special=special, shift_kind=shift_kind, shifts=shifts,
                pre=pre, pre_form=pre_form if pre == "jacobi" else "dense", P=P, Minv=Minv, value=value, tol=tol, max_iter=max_iter, eps=eps)


def f32_only_nonfinite(sc, **over):
    """Defining condition of the float32 breakdown finding: the float32 run yields non-finite entries while the very same
    inputs in float64 give a finite result (eps ** 2 = 1e-50 underflows only in float32)."""
    if sc["rhs"].dtype != F32:
        return False
    sc64 = dict(sc)
    sc64["rhs"] = sc["rhs"].double()
    if "rhs" in over:
        over = dict(over)
        over["rhs"] = over["rhs"].double()
    r = run_impl(sc64, **over)
    return r.err is None and bool(torch.isfinite(r.result).all())


def f32_cell(sc):
    return f"C11/minres/f32-exact-breakdown/n={sc['n']}|kappa={sc['kappa']:g}|pre={sc.get('pre', 'none')}"


def n_loop(sc, consts):
    mi = sc.get("max_iter") if sc.get("max_iter") is not None else int(consts["max_cg_iterations"])
    return min(mi, sc["n"] + int(consts["size_slack"])) + int(consts["extra_iters"])


# ---------------------------------------------------------------------------------------------- property checks (minres)
def check_solve(chk, sc, consts):
    """Shape rule, solutions per shift vs dense solve, zero columns, iteration-count rule, rhs not modified."""
    cell = cell_of(sc, "solve")
    r = run_impl(sc)
    n, dt = sc["n"], sc["rhs"].dtype
    chk.case(cell + "|" + bits(float(sc["rhs"].double().sum())), nontrivial=n > 1)
    pl = payload_of(sc, {"check": "solve"})
    if r.err:
        chk.violation(cell + "/raises", f"minres raised {r.err}", pl)
        return None
    want_shape = spec_shape(sc)
    if tuple(r.result.shape) != want_shape:
        chk.violation(cell + "/shape", f"minres returned shape {tuple(r.result.shape)}, documented shape {want_shape} "
                      f"(shifts {None if sc.get('shifts') is None else tuple(sc['shifts'].shape)}, rhs {tuple(sc['rhs'].shape)}, K {tuple(sc['A'].shape)})", pl)
        return None
    if r.rhs_changed:
        chk.violation(cell + "/rhs-modified", "minres modified the caller's rhs tensor", pl)
    # iteration-count rule
    nl = n_loop(sc, consts)
    ke = int(consts["check_every"])
    if r.iters > nl or (r.iters < nl and r.iters % ke != 0) or r.iters < min(nl, ke):
        chk.violation(cell + "/iterations", f"{r.iters} loop iterations; the loop bound is {nl} and it may stop early only after a multiple of {ke} iterations", pl)
    if sc.get("Minv") is not None and len(r.pcalls) != r.iters + 1:
        chk.violation(cell + "/precond-calls", f"preconditioner called {len(r.pcalls)} times for {r.iters} iterations (expected one call before the loop and one per iteration)", pl)
    vec = sc["rhs"].dim() == 1
    got = r.result.double()
    if vec:
        got = got.unsqueeze(-1)
    if sc.get("shifts") is None or sc["shifts"].numel() == 1:
        got = got.unsqueeze(0)
    xs_I, M_I = dense_solutions(sc, pencil=False)
    xs_P, _ = dense_solutions(sc, pencil=True)
    zero_cols = (sc["rhs"].double().unsqueeze(-1) if vec else sc["rhs"].double()).abs().amax(-2) == 0
    zc = zero_cols.expand(got.shape[:-2] + got.shape[-1:])
    if bool(zc.any()):
        chk.count("zero_columns")
        if bool((got.transpose(-1, -2)[zc] != 0).any()):
            chk.violation(cell + "/zero", "a zero right-hand-side column has a non-zero (or NaN) solution", pl)
            return r
    if not torch.isfinite(got).all():
        if f32_only_nonfinite(sc):
            chk.violation(f32_cell(sc), "float32 only (the same inputs in float64 give a finite result): non-finite solution", pl)
        else:
            chk.violation(cell + "/nonfinite", "non-finite solution entries", pl)
        return r
    # accuracy: the stopping tolerance bounds the last relative update (mean over shifts x columns)
    tol = sc.get("tol") if sc.get("tol") is not None else float(consts["minres_tolerance"])
    ev = torch.linalg.eigvalsh((M_I + M_I.mT) / 2)
    kap = float((ev.abs().amax(-1) / ev.abs().amin(-1)).max())
    if sc.get("Minv") is not None:
        # the iteration runs on the preconditioned pencil: spectrum of L^T (value K) L + s I with P^-1 = L L^T
        Lc = torch.linalg.cholesky(sc["Minv"].double())
        val = 1.0 if sc.get("value") is None else float(sc["value"])
        shp = padded_shifts(sc.get("shifts"), M_I.dim() - 1)
        Bp = val * (Lc.mT @ sc["A"].double() @ Lc) + shp * torch.eye(n, dtype=F64)
        evp = torch.linalg.eigvalsh((Bp + Bp.mT) / 2)
        kap = max(kap, float((evp.abs().amax(-1) / evp.abs().amin(-1)).max()))
    entries = got.numel() // n
    u = 1.1e-16 if dt == F64 else 6e-8
    stopped_early = r.iters < nl
    mi_user = sc.get("max_iter") if sc.get("max_iter") is not None else int(consts["max_cg_iterations"])
    cap_by_size = (not stopped_early) and mi_user > n + int(consts["size_slack"]) - 1 and r.iters >= n + 1
    has_p = sc.get("pre", "none") != "none"
    robust_exhaustion = cap_by_size and (n <= 5 or (not has_p and ((kap <= 150 and n <= 12) or (sc["fam"] != "geometric" and n <= 8)))) and dt == F64
    cap_cell = None
    if robust_exhaustion:
        # the Krylov space is exhausted and orthogonality is not yet lost: working-precision accuracy
        lim = 200 * kap * u * (1000 if has_p else 1)
    elif stopped_early:
        lim = 4 * tol * entries * (math.sqrt(kap) + 1) + 200 * kap * u
    elif cap_by_size:
        # the loop ended because of `min(max_iter, n + 1) + 2`, not because of the tolerance: in floating point the Krylov space
        # is not exhausted after n steps for ill-conditioned spectra (listed finding); coarse check only
        lim = 4 * max(tol, 1e-4) * entries * (math.sqrt(kap) + 1) + 200 * kap * u
        if n >= 8 and kap >= 100:
            # defining condition of the finding: the loop ran into the size cap (the stopping test never passed), the system is
            # large / ill-conditioned enough for floating-point Lanczos not to terminate after n steps
            cap_cell = f"C11/minres/iteration-cap/n={n}|kappa_eff>=100|fam={sc['fam']}|pre={sc.get('pre', 'none')}"
    else:   # budget-limited by the caller: only the classical residual bound is available
        rho = (math.sqrt(kap) - 1) / (math.sqrt(kap) + 1)
        lim = max(4 * tol * entries * (math.sqrt(kap) + 1) + 200 * kap * u, min(1.5, 4 * kap * rho ** max(r.iters - int(consts["extra_iters"]), 0)))
    has_pre, nonzero_shift = sc.get("Minv") is not None, sc.get("shifts") is not None and bool((sc["shifts"] != 0).any())

    def relerr(ref):
        d = (got - ref).norm(dim=-2)
        nr = ref.norm(dim=-2)
        rel = torch.where(nr > 0, d / nr.clamp_min(1e-300), d)
        return rel

    rel_I, rel_P = relerr(xs_I), relerr(xs_P)
    if has_pre and nonzero_shift:
        # model of the code: with a preconditioner P^-1 the shifted operator is value*K + s*P
        if float(rel_P.max()) > lim:
            chk.violation(cap_cell or cell.replace("/solve/", "/solve-pencil/"), f"solution differs from the solution of (value K + s P) x = b: max relative error {float(rel_P.max()):.3e} > {lim:.3e} "
                          f"({r.iters} iterations, kappa {kap:.3g})", pl)
        # the property's statement: (K + s I)
        sh = padded_shifts(sc["shifts"], got.dim() - 1)
        bad = (rel_I > max(lim, 1e-6)) & (sh.squeeze(-1) != 0).expand(rel_I.shape)
        if bool(bad.any()):
            chk.violation("C11/minres/precond-shifted/pre=" + sc["pre"] + "|shifts=" + sc["shift_kind"],
                          f"with a preconditioner the solution for a non-zero shift s is that of (K + s P) x = b, not (K + s I) x = b: relative error {float(rel_I[bad].max()):.3e}", pl)
        # unshifted members must still solve K x = b
        ok0 = (sh.squeeze(-1) == 0).expand(rel_I.shape)
        if bool(ok0.any()) and float(rel_I[ok0].max()) > lim:
            chk.violation(cap_cell or (cell + "/unshifted"), f"unshifted solve with preconditioner is off: {float(rel_I[ok0].max()):.3e} > {lim:.3e}", pl)
    else:
        if float(rel_I.max()) > lim:
            idx = torch.nonzero(rel_I == rel_I.max())[0].tolist()
            chk.violation(cap_cell or cell, f"solution of (value K + s I) x = b is off at (shift, batch…, column) {idx}: relative error {float(rel_I.max()):.3e} > {lim:.3e} "
                          f"({r.iters} iterations of at most {nl}, kappa {kap:.3g}, tolerance {tol:g})", pl)
    return r


def pow2_ok(c):
    """Scaling by +-2^k commutes with rounding: the comparison is then exact."""
    return math.log2(abs(c)) == int(math.log2(abs(c)))


def check_scaling(chk, sc, c, consts):
    cell = cell_of(sc, f"scaling[c={c:g}]")
    r1 = run_impl(sc)
    r2 = run_impl(sc, rhs=sc["rhs"] * c)
    chk.case(cell + "|" + bits(float(sc["rhs"].double().sum())), nontrivial=sc["n"] > 1)
    pl = payload_of(sc, {"check": "scaling", "c": c})
    if r1.err or r2.err:
        chk.violation(cell + "/raises", f"minres raised: {r1.err} / {r2.err}", pl)
        return
    want, got = r1.result * c, r2.result
    if sc["rhs"].dtype == F32 and not (torch.isfinite(want).all() and torch.isfinite(got).all()):
        if f32_only_nonfinite(sc) and f32_only_nonfinite(sc, rhs=sc["rhs"] * c):
            chk.violation(f32_cell(sc), "float32 only (the same inputs in float64 give a finite result): non-finite solution", pl)
        else:
            chk.violation(cell + "/nonfinite", "non-finite solution entries", pl)
        return
    if not pow2_ok(c) and (sc["kappa"] > 1e3 or sc["n"] > 12 or sc["rhs"].dtype == F32 or (sc.get("pre", "none") != "none" and sc["n"] > 5)):
        c = 4.0 if c > 0 else -2.0
        r2 = run_impl(sc, rhs=sc["rhs"] * c)
        if r2.err:
            chk.violation(cell + "/raises", f"minres raised: {r2.err}", pl)
            return
        want, got = r1.result * c, r2.result
    pow2 = pow2_ok(c)
    if pow2:
        ok = torch.equal(want, got) and r1.iters == r2.iters
    else:
        scale = want.double().abs().amax(-1 if sc["rhs"].dim() == 1 else -2, keepdim=True).clamp_min(1e-300)
        rt = 1e-8 if sc["rhs"].dtype == F64 else 2e-3
        ok = bool((((want.double() - got.double()).abs() / scale) <= rt * max(1.0, sc["kappa"])).all()) and r1.iters == r2.iters
    if not ok:
        chk.violation(cell, f"x(c*b) != c*x(b) for c={c:g}: max |diff| {float((want - got).abs().max()):.3e}, iterations {r1.iters} vs {r2.iters}", pl)


# ---------------------------------------------------------------------------------------------- correspondence (minres)
def model_line(sc, tol_mult=1.0, consts=None):
    A, rhs = sc["A"].double(), sc["rhs"].double()
    vec = rhs.dim() == 1
    r2 = rhs.unsqueeze(-1) if vec else rhs
    n, c = r2.shape[-2], r2.shape[-1]
    bshape = tuple(torch.broadcast_shapes(A.shape[:-2], r2.shape[:-2]))
    Ab = A.expand(*bshape, n, n).reshape(-1, n, n)
    rb = r2.expand(*bshape, n, c).reshape(-1, n, c)
    Minv = sc.get("Minv")
    Mb = Minv.double().expand(*bshape, n, n).reshape(-1, n, n) if Minv is not None else None
    sh = padded_shifts(sc.get("shifts"), len(bshape) + 2)
    shb = sh.expand(sh.shape[0], *bshape, 1, 1).reshape(sh.shape[0], -1)
    K = Ab.shape[0]
    tol = sc.get("tol") if sc.get("tol") is not None else float(consts["minres_tolerance"])
    eps = "d" if sc.get("eps") is None else bits(sc["eps"])
    words = ["minres", str(n), eps, "d", bits(tol * tol_mult), "d" if sc.get("max_iter") is None else str(sc["max_iter"]),
             "-" if sc.get("value") is None else bits(sc["value"]), str(K)]
    words += [enc_mat(Ab[k]) for k in range(K)]
    words += [enc_mat(Mb[k]) if Mb is not None else "-" for k in range(K)]
    words.append(str(K * c))
    for k in range(K):
        for j in range(c):
            words.append(f"{k}:{enc_vec(rb[k, :, j])}:{enc_vec(shb[:, k])}")
    return " ".join(words)


def parse_model(out):
    d = {}
    for w in out.split(" "):
        if "=" in w:
            k, v = w.split("=", 1)
            d[k] = v
    if "iters" not in d:
        return d
    d["xv"] = [[dec_vec(v) for v in col.split(";")] for col in d["x"].split("|")] if d.get("x") else []
    d["tracev"] = [[dec_vec(v) for v in call.split(";")] for call in d["trace"].split("|")]
    d["betasv"] = [dec_vec(v) for v in d["betas"].split("|")] if d.get("betas") else []
    return d


def nan_close(a, b, tol, scale):
    if a != a or b != b:
        return a != a and b != b
    return abs(a - b) <= tol * scale


def compare_model(sc, r, outs3, tol_rel):
    """'ok' | 'fragile' | ('break', what)."""
    base, lo, hi = [parse_model(o) for o in outs3]
    if "iters" not in base:
        return ("break", "driver rejected the line: " + outs3[0][:60])
    if base["iters"] != lo.get("iters") or base["iters"] != hi.get("iters"):
        return "fragile"
    tolv = sc.get("tol") if sc.get("tol") is not None else None
    for cv in dec_vec(base.get("convs", "-")):
        t = tolv if tolv is not None else 1e-4
        if cv == cv and t / 30 <= cv <= t * 30:
            return "fragile"
    if r.err is not None:
        return ("break", f"implementation raised {r.err} but the model returns")
    if r.iters != int(base["iters"]):
        return ("break", f"iteration count: implementation {r.iters}, model {base['iters']}")
    A, rhs = sc["A"].double(), sc["rhs"].double()
    vec = rhs.dim() == 1
    r2 = rhs.unsqueeze(-1) if vec else rhs
    n, c = r2.shape[-2], r2.shape[-1]
    bshape = tuple(torch.broadcast_shapes(A.shape[:-2], r2.shape[:-2]))
    ncol = c
    for b in bshape:
        ncol *= b
    amax = float(A.abs().max()) * (abs(sc["value"]) if sc.get("value") is not None else 1.0) * math.sqrt(n)
    if sc.get("Minv") is not None:
        amax *= max(1.0, float(sc["Minv"].abs().max()) * math.sqrt(n))
    u = 1.1e-16 if sc["rhs"].dtype == F64 else 6e-8
    # per column: the first iteration after which rounding noise, amplified by ||A|| / beta per Lanczos step, may exceed the tolerance
    alive = [10 ** 9] * ncol
    amp = [1.0] * ncol
    for it, bs in enumerate(base["betasv"]):
        for ci, bv in enumerate(bs):
            if alive[ci] != 10 ** 9:
                continue
            if not (bv == bv and bv > 0):
                alive[ci] = it
                continue
            amp[ci] = (amp[ci] + 1.0) * max(1.0, amax / bv)
            if amp[ci] * u > tol_rel / 30:
                alive[ci] = it
    compared = 0
    for ci_call, (call, mcall) in enumerate(zip(r.calls, base["tracev"])):
        t = call.double()
        t = t.expand(*bshape, n, c).reshape(-1, n, c)
        if t.shape[0] * c != len(mcall):
            return ("break", f"matmul call {ci_call}: {t.shape[0] * c} columns vs model {len(mcall)}")
        for k in range(t.shape[0]):
            for j in range(c):
                ci = k * c + j
                # call 0 = normalised rhs, call t>=1 = q vector produced by iteration t-2 (t=1: initial q)
                if ci_call >= 2 and alive[ci] <= ci_call - 2:
                    continue
                col = t[k, :, j].tolist()
                mcol = mcall[ci]
                sc_ = max(1.0, max((abs(x) for x in col if x == x), default=1.0))
                for a, b in zip(col, mcol):
                    if not nan_close(a, b, tol_rel, sc_):
                        return ("break", f"argument of matmul_closure call {ci_call} (column {ci}): implementation {a!r}, model {b!r}")
                compared += 1
    got = r.result.double()
    if vec:
        got = got.unsqueeze(-1)
    if sc.get("shifts") is None or sc["shifts"].numel() == 1:
        got = got.unsqueeze(0)
    Q = got.shape[0]
    gb = got.reshape(Q, -1, n, c)
    for k in range(gb.shape[1]):
        for j in range(c):
            mcol = base["xv"][k * c + j]
            if alive[k * c + j] < r.iters - 1:
                continue    # trajectory of this column not robust to rounding: solutions are compared in the property checks only
            if len(mcol) != Q:
                return ("break", f"number of shifts: implementation {Q}, model {len(mcol)}")
            for q in range(Q):
                col = gb[q, k, :, j].tolist()
                sc_ = max(1e-300, max(abs(x) for x in col))
                for a, b in zip(col, mcol[q]):
                    if not nan_close(a, b, tol_rel * 10, sc_) and not abs(a - b) < 1e-300:
                        return ("break", f"solution (shift {q}, column {k * c + j}): implementation {a!r}, model {b!r}")
    return "ok"


def run_correspondence(chk, scs, consts):
    lines, impls = [], []
    for sc in scs:
        impls.append(run_impl(sc))
        d = 1e-3
        lines += [model_line(sc, 1.0, consts), model_line(sc, 1 - d, consts), model_line(sc, 1 + d, consts)]
    outs = chk.run_driver("C11", lines)
    if outs is None:
        return
    for i, (sc, r) in enumerate(zip(scs, impls)):
        cell = cell_of(sc, "corr")
        verdict = compare_model(sc, r, outs[3 * i:3 * i + 3], 1e-6 if sc["rhs"].dtype == F64 else 3e-3)
        chk.case(cell + "|" + bits(float(sc["rhs"].double().sum())), nontrivial=sc["n"] > 1)
        if verdict == "ok":
            chk.traces_validated += 1
            chk.count("corr_ok")
            chk.count("corr_iters", max(r.iters, 0))
        elif verdict == "fragile":
            chk.count("corr_discarded_for_margin")
        else:
            chk.corr_break(cell, verdict[1], payload_of(sc, {"check": "corr"}))


def corr_scenarios(g, rng, count):
    scs = []
    pres = ["none", "jacobi", "spd", "exact"]
    kinds = ["none", "scalar", "vec1", "vec", "batched", "batched1"]
    for i in range(count):
        n = rng.choice([1, 2, 3, 4, 5, 8, 8, 12, 16] if i % 6 else [24, 40])
        fam = rng.choice(FAMS)
        kappa = rng.choice([1.0, 10.0, 100.0, 1000.0] if n <= 16 else [10.0, 100.0])
        ab, rb = rng.choice([((), ()), ((), ()), ((2,), (2,)), ((), (2,)), ((2,), ()), ((2, 1), (1, 3)) if n <= 8 else ((), ())])
        vec = (i % 9 == 4) and rb == ()
        cols = rng.choice([1, 2, 3])
        special = rng.choice(["-", "-", "-", "zero-first", "zero-last", "tiny-last", "huge-first"]) if not vec else "-"
        value = rng.choice([None, None, -1.0, 2.0])
        pre = pres[i % 4] if n > 1 else "none"
        tol = rng.choice([None, 1e-2, 1e-6, 1e-9])
        mi = rng.choice([None, None, 3, 7, 15, 25])
        sc = make_scenario(g, n, fam, kappa, F64, abatch=ab, rbatch=rb, cols=cols, vec=vec, special=special,
                           shift_kind=kinds[i % 6], pre=pre, pre_form=rng.choice(["dense", "diag"]), value=value, tol=tol, max_iter=mi)
        scs.append(sc)
    return scs



# ---------------------------------------------------------------------------------------------- residual identity / optimality
def krylov_ls_residual(As, b, j):
    """Independent oracle for MINRES optimality: min ||b - As x|| over x in span{b, As b, ..., As^(j-1) b}
    (orthonormal basis by Gram-Schmidt with re-orthogonalisation, dense least squares)."""
    n = b.shape[0]
    V = []
    v = b.clone()
    for _ in range(min(j, n)):
        for _rep in range(2):
            for u in V:
                v = v - (u @ v) * u
        nv = float(v.norm())
        if nv < 1e-10 * float(b.norm()):
            break
        v = v / nv
        V.append(v)
        v = As @ v
    Vm = torch.stack(V, dim=1)
    y = torch.linalg.lstsq(As @ Vm, b.unsqueeze(-1)).solution
    return float((b - (As @ Vm @ y).squeeze(-1)).norm())


def check_residual_identity(chk, g, rng, consts, count):
    """Ties `minres_residual_norm` / `minres_optimal` to the real code (no preconditioner, iteration counts below the size, so
    that neither the clamp nor loss of orthogonality interferes): the true residual norm ||rhs - (value K + s I) x|| of the
    vector returned by the REAL minres after j iterations equals |scale_prev| * rhs_norm of the Lean model after j iterations,
    and equals the least-squares optimum over the j-dimensional Krylov space (independent dense oracle)."""
    scs = []
    for i in range(count):
        n = rng.choice([3, 4, 5, 6, 7, 8, 9])
        fam = rng.choice(FAMS)
        kappa = rng.choice([3.0, 10.0, 100.0])
        ab = rng.choice([(), (), (2,)])
        value = rng.choice([None, None, -1.0, 2.0])
        sk = ["none", "scalar", "vec", "batched", "vec1"][i % 5]
        m = rng.randrange(1, n - 1)            # the loop runs m + 2 <= n iterations, all below the 10th (no convergence test)
        pre = "none" if i % 4 else rng.choice(["jacobi", "spd"])   # every 4th case preconditioned: M^-1-norm identity for the pencil value K + s P
        if pre != "none" and value is not None and value < 0:
            value = None
        scs.append(make_scenario(g, n, fam, kappa, F64, abatch=ab, cols=rng.choice([1, 2]), shift_kind=sk, pre=pre, value=value, max_iter=m))
    impls = [run_impl(sc) for sc in scs]
    outs = chk.run_driver("C11", [model_line(sc, 1.0, consts) for sc in scs])
    if outs is None:
        return
    for sc, r, out in zip(scs, impls, outs):
        cell = cell_of(sc, "resid-identity")
        chk.case(cell + "|" + bits(float(sc["rhs"].double().sum())), nontrivial=True)
        d = parse_model(out)
        pl = payload_of(sc, {"check": "resid"})
        if r.err is not None or "scales" not in d or "iters" not in d:
            chk.corr_break(cell, f"no result to compare: implementation error {r.err}, driver output {out[:60]!r}", pl)
            continue
        j = r.iters
        if j != int(d["iters"]):
            chk.corr_break(cell, f"iteration count: implementation {j}, model {d['iters']}", pl)
            continue
        A, rhs = sc["A"].double(), sc["rhs"].double()
        n, c = rhs.shape[-2], rhs.shape[-1]
        bshape = tuple(torch.broadcast_shapes(A.shape[:-2], rhs.shape[:-2]))
        Ab = A.expand(*bshape, n, n).reshape(-1, n, n)
        rb = rhs.expand(*bshape, n, c).reshape(-1, n, c)
        sh = padded_shifts(sc.get("shifts"), len(bshape) + 2)
        shb = sh.expand(sh.shape[0], *bshape, 1, 1).reshape(sh.shape[0], -1)
        got = r.result.double()
        if sc.get("shifts") is None or sc["shifts"].numel() == 1:
            got = got.unsqueeze(0)
        Q = got.shape[0]
        gb = got.reshape(Q, -1, n, c)
        val = 1.0 if sc.get("value") is None else float(sc["value"])
        Pb = sc["P"].double().expand(*bshape, n, n).reshape(-1, n, n) if sc.get("P") is not None else None
        Mb = sc["Minv"].double().expand(*bshape, n, n).reshape(-1, n, n) if sc.get("Minv") is not None else None
        mscales = [dec_vec(col) for col in d["scales"].split("|")]
        bad = None
        for k in range(Ab.shape[0]):
            for jc in range(c):
                b = rb[k, :, jc]
                bn = float(b.norm())
                for q in range(Q):
                    if Pb is None:
                        As = val * Ab[k] + float(shb[q, k]) * torch.eye(n, dtype=F64)
                        rn = float((b - As @ gb[q, k, :, jc]).norm())
                        opt = krylov_ls_residual(As, b, j)
                    else:
                        # theorem minres_residual_norm_preconditioned: M^-1-norm of the residual of the pencil value K + s P
                        As = val * Ab[k] + float(shb[q, k]) * Pb[k]
                        rv = b - As @ gb[q, k, :, jc]
                        rn = math.sqrt(max(0.0, float(rv @ (Mb[k] @ rv))))
                        opt = rn
                        chk.count("resid_identity_preconditioned")
                    ms = abs(mscales[k * c + jc][q])
                    chk.count("resid_identity_entries")
                    if rn > 1e-4 * bn:
                        chk.count("resid_identity_nontrivial")
                    bnm = bn if Pb is None else math.sqrt(float(b @ (Mb[k] @ b)))
                    if not abs(rn - ms) <= 1e-7 * max(bn, bnm):
                        bad = bad or f"true residual norm of the returned solution {rn!r} != |scale_prev|*rhs_norm of the model {ms!r} (shift {q}, column {k * c + jc}, {j} iterations, preconditioner {sc.get('pre')})"
                    if not abs(rn - opt) <= 1e-7 * bn:
                        bad = bad or f"residual norm {rn!r} is not the Krylov least-squares optimum {opt!r} (shift {q}, column {k * c + jc}, {j} iterations)"
        if bad:
            chk.corr_break(cell, bad, pl)
        else:
            chk.traces_validated += 1
            chk.count("resid_identity_ok")



# ---------------------------------------------------------------------------------------------- zvec / qvec shift (buffers)
def check_shift_alias(chk, g, consts):
    """Ties `lanczos_shift_no_alias` / the driver's `rotshift` to the real loop: closures that return new tensors record the
    storage of every argument and result (all kept alive, so a storage address is a faithful buffer id).  Numbering as in the Lean
    model (initial names 0..4, iteration i allocates prod = 5+2i, qvec_curr = 6+2i): the argument of the (i+1)-th matmul call must
    be the buffer the model binds to `qvec_prev1` after i iterations, the argument of the preconditioner in iteration i must be the
    buffer bound to `prod` (`zvec_curr` is `prod` updated in place)."""
    from linear_operator.utils.minres import minres
    n, iters_wanted = 5, 6
    A = spd(n, 10.0, "uniform", g)
    dg = (torch.rand(n, 1, generator=g, dtype=F64) + 0.5)
    rhs = torch.randn(n, 2, generator=g, dtype=F64)
    keep, ids, ev = [], {}, []
    nxt = [5]

    def sid(t):
        return t.untyped_storage().data_ptr()

    def mm(v):
        keep.append(v)
        out = A @ v
        keep.append(out)
        if len([e for e in ev if e[0] == "mm"]) >= 1:      # the call before the loop only sizes `prod`
            ids[sid(out)] = nxt[0]
        ev.append(("mm", sid(v), sid(out)))
        return out

    def pc(v):
        keep.append(v)
        out = dg * v
        keep.append(out)
        if not any(e[0] == "pc" for e in ev):
            ids[sid(v)], ids[sid(out)] = 1, 3                # zvec_prev1, qvec_prev1 before the loop
        else:
            ids[sid(out)] = nxt[0] + 1
            nxt[0] += 2
        ev.append(("pc", sid(v), sid(out)))
        return out

    with warnings.catch_warnings():
        warnings.simplefilter("ignore")
        minres(mm, rhs.clone(), preconditioner=pc, max_iter=iters_wanted - 2)
    loop_mm = [e for e in ev if e[0] == "mm"][1:]
    loop_pc = [e for e in ev if e[0] == "pc"][1:]
    outs = chk.run_driver("C11", [f"rotshift {k}" for k in range(len(loop_mm) + 1)])
    if outs is None:
        return
    cell = "C11/minres/shift-alias"
    chk.case(cell, nontrivial=True, sample=False)
    what = None
    envs = []
    for o in outs:
        try:
            envs.append({kv.split(":")[0]: int(kv.split(":")[1]) for kv in o.split(" ")[0].split("=", 1)[1].split(",")})
        except Exception:
            what = what or "driver rejected the line: " + o[:60]
    if what is None:
        if len(loop_mm) != iters_wanted or len(loop_pc) != iters_wanted:
            what = f"{len(loop_mm)} matmul / {len(loop_pc)} preconditioner calls in the loop, expected {iters_wanted}"
    if what is None:
        for i in range(iters_wanted):
            a = ids.get(loop_mm[i][1])
            if a != envs[i]["qvec_prev1"]:
                what = what or f"iteration {i}: matmul_closure received buffer {a}, the model binds qvec_prev1 to {envs[i]['qvec_prev1']}"
            z = ids.get(loop_pc[i][1])
            if z != envs[i + 1]["prod"] or envs[i + 1]["prod"] != envs[i + 1]["zvec_prev1"]:
                what = what or f"iteration {i}: preconditioner received buffer {z}, the model binds prod / zvec_prev1 to {envs[i + 1]['prod']} / {envs[i + 1]['zvec_prev1']}"
            live = [envs[i]["zvec_prev2"], envs[i]["zvec_prev1"], envs[i]["qvec_prev1"]]
            if len(set(live)) != 3:
                what = what or f"iteration {i}: model binds live names to {live}"
    if what:
        chk.corr_break(cell, what, {"check": "shift-alias"})
    else:
        chk.traces_validated += 1
        chk.count("shift_alias_ok")


# ---------------------------------------------------------------------------------------------- shapes (exact)
def check_shapes(chk, g, consts):
    """Every (shift kind, rhs rank, batch) combination: real output shape = Lean `outShape` = documented shape."""
    from linear_operator.utils.minres import minres
    combos = []
    for ab in [(), (2,), (3, 2), (1,)]:
        for rb in [None, (), (2,), (3, 2), (3, 1)]:
            for vec in (False, True):
                for cols in (1, 2):
                    for sk in ("none", "scalar", "vec1", "vec", "batched", "batched1", "vec-as-col"):
                        combos.append((ab, rb, vec, cols, sk))
    lines, recs = [], []
    for ab, rb, vec, cols, sk in combos:
        if vec and (rb not in (None, ()) or cols != 1):
            continue
        rbb = ab if rb is None else rb
        try:
            bshape = tuple(torch.broadcast_shapes(ab, () if vec else rbb))
        except RuntimeError:
            continue
        n = 3
        A = spd(n, 5.0, "uniform", g, ab)
        rhs = torch.randn(n, generator=g, dtype=F64) if vec else torch.randn(*rbb, n, cols, generator=g, dtype=F64)
        if sk == "vec-as-col":
            shifts = torch.rand(3, generator=g, dtype=F64)
        else:
            shifts = make_shifts(sk if (bshape or not sk.startswith("batched")) else "vec", bshape, g, None)
        sc = dict(n=n, fam="uniform", kappa=5.0, A=A, rhs=rhs, shifts=shifts, shift_kind=sk, special="-")
        cell = f"C11/minres/shape/Abatch={bstr(ab)}|rhs={'vec' if vec else bstr(rbb) + ':' + str(cols)}|shifts={sk}:{'none' if shifts is None else bstr(shifts.shape)}"
        try:
            with warnings.catch_warnings():
                warnings.simplefilter("ignore")
                out = minres(A.matmul, rhs.clone(), shifts=None if shifts is None else shifts.clone())
            impl = tuple(out.shape)
        except Exception as e:
            impl = "raises " + type(e).__name__
        prod_shape = bshape + (n, 1 if vec else cols)
        lines.append(f"shape {'none' if shifts is None else (','.join(map(str, shifts.shape)) or '-')} {','.join(map(str, prod_shape))} {1 if vec else 0}")
        recs.append((cell, sc, impl))
    outs = chk.run_driver("C11", lines)
    if outs is None:
        return
    for (cell, sc, impl), out, line in zip(recs, outs, lines):
        chk.case(cell, nontrivial=True, sample=False)
        want = spec_shape(sc)
        model = tuple(int(x) for x in out.split("=", 1)[1].split(",")) if out.startswith("shape=") and out != "shape=-" else ()
        if impl != want:
            chk.violation(cell, f"minres returned shape {impl}, documented shape {want}", {"check": "shape", "line": line, "A": list(sc['A'].shape), "rhs": list(sc['rhs'].shape),
                                                                                          "shifts": None if sc['shifts'] is None else list(sc['shifts'].shape)})
        elif model != impl:
            chk.corr_break(cell, f"output shape: implementation {impl}, Lean outShape {model}", {"check": "shape", "line": line})
        else:
            chk.traces_validated += 1
            chk.count("shape_ok")


# ---------------------------------------------------------------------------------------------- contour_integral_quad
class EllipRecorder:
    """Wraps scipy.special.ellipk / ellipj (imported inside contour_integral_quad on every call) and torch.linalg.eigvalsh."""

    def __enter__(self):
        import scipy.special
        self.sp = scipy.special
        self.k0, self.j0, self.e0 = scipy.special.ellipk, scipy.special.ellipj, torch.linalg.eigvalsh
        self.kcalls, self.jcalls, self.ecalls = [], [], []

        def ek(m):
            out = self.k0(m)
            self.kcalls.append((float(m), float(out)))
            return out

        def ej(u, m):
            out = self.j0(u, m)
            self.jcalls.append((u.copy() if hasattr(u, "copy") else u, float(m), tuple(o.copy() for o in out)))
            return out

        def ev(x, *a, **k):
            out = self.e0(x, *a, **k)
            self.ecalls.append(out.detach().clone())
            return out

        scipy.special.ellipk, scipy.special.ellipj, torch.linalg.eigvalsh = ek, ej, ev
        return self

    def __exit__(self, *a):
        self.sp.ellipk, self.sp.ellipj, torch.linalg.eigvalsh = self.k0, self.j0, self.e0


def sym_fun(A, f):
    ev, V = torch.linalg.eigh(A.double())
    return (V * f(ev).unsqueeze(-2)) @ V.mT


def ciq_bound(kappa, Q):
    """Hale-Higham-Trefethen: error ~ exp(-2 pi^2 Q / (log kappa + 3)); generous constant."""
    return 50.0 * math.exp(-2 * math.pi ** 2 * Q / (math.log(max(kappa, 1.0)) + 3.0))


def check_ciq(chk, g, rng, n, fam, kappa, batch, rbatch_extra, cols, inverse, Q, opkind, consts, corr_lines, A_given=None, rhs_given=None, tag=""):
    from linear_operator.utils.contour_integral_quad import contour_integral_quad
    from linear_operator.operators import DenseLinearOperator, DiagLinearOperator
    from linear_operator import settings
    A = spd(n, kappa, fam, g, batch) if A_given is None else A_given.clone()
    if opkind == "diag":
        A = torch.diag_embed(torch.diagonal(A, dim1=-2, dim2=-1))
        op = DiagLinearOperator(torch.diagonal(A, dim1=-2, dim2=-1).clone())
    else:
        op = DenseLinearOperator(A.clone())
    rhs = torch.randn(*rbatch_extra, *batch, n, cols, generator=g, dtype=F64) if rhs_given is None else rhs_given.clone()
    cell = (f"C11/ciq/{'inverse' if inverse else 'sqrt'}/op={opkind}|fam={fam}|kappa={kappa:g}|n={n}|batch={bstr(batch)}|extra={bstr(rbatch_extra)}|cols={cols}|Q={Q}{tag}")
    chk.case(cell + "|" + bits(float(rhs.sum())), nontrivial=n > 1)
    pl = {"check": "ciq", "A": A.tolist(), "rhs": rhs.tolist(), "inverse": inverse, "Q": Q, "opkind": opkind, "fam": fam, "kappa": kappa, "n": n}
    tolm = 1e-10
    with warnings.catch_warnings():
        warnings.simplefilter("ignore")
        try:
            with settings.minres_tolerance(tolm), EllipRecorder() as rec:
                kw = {} if Q is None else {"num_contour_quadrature": Q}
                solves, weights, no_shift, shifts = contour_integral_quad(op, rhs.clone(), inverse=inverse, **kw)
        except Exception as e:
            chk.violation(cell + "/raises", f"contour_integral_quad raised {type(e).__name__}: {str(e)[:100]}", pl)
            return
    Qn = int(consts["num_contour_quadrature"]) if Q is None else Q
    obs = tuple(torch.broadcast_shapes(batch, rhs.shape[:-2]))
    want_shapes = ((Qn,) + obs + (n, cols), (Qn,) + obs + (1, 1), obs + (n, cols), (Qn + 1,) + obs)
    got_shapes = (tuple(solves.shape), tuple(weights.shape), tuple(no_shift.shape), tuple(shifts.shape))
    if got_shapes != want_shapes:
        chk.violation(cell + "/shape", f"(solves, weights, no_shift_solves, shifts) have shapes {got_shapes}, expected {want_shapes}", pl)
        return
    if bool((shifts[0] != 0).any()):
        chk.violation(cell + "/shift0", "shifts[0] is not zero (shift_offset = 0): the 'no shift' solve is shifted", pl)
        return
    exact_est = n <= int(consts["max_lanczos_iter"])
    Ainv_b = torch.linalg.solve(A, rhs)
    e0 = float(((no_shift + Ainv_b).norm(dim=-2) / Ainv_b.norm(dim=-2)).max())
    if not e0 <= (1e-8 * max(1.0, kappa) if exact_est else 2e-3):
        chk.violation(cell + "/noshift", f"no_shift_solves differs from -K^-1 b: relative error {e0:.3e}", pl)
    res = (solves * weights).sum(0)
    ref = sym_fun(A, (lambda t: t.rsqrt()) if inverse else (lambda t: t.sqrt())) @ rhs
    err = float(((res - ref).norm(dim=-2) / ref.norm(dim=-2)).max())
    exact_est = n <= int(consts["max_lanczos_iter"])
    lim = ciq_bound(kappa, Qn) + 1e-7 * max(1.0, kappa ** 0.5) if exact_est else 2e-3
    if not err <= lim:
        chk.violation(cell, f"sum_q w_q solves_q differs from K^{'-' if inverse else ''}1/2 b: relative error {err:.3e} > {lim:.3e} (kappa {kappa:g}, Q {Qn}, n {n})", pl)
    # each solve really is a shifted solve (K·solve when not inverse): (-K + s_q) x_q = b
    Ib = torch.eye(n, dtype=F64)
    Mq = -A + shifts[1:].unsqueeze(-1).unsqueeze(-1) * Ib
    xq = torch.linalg.solve(Mq, rhs.expand(Qn, *obs, n, cols))
    if not inverse:
        xq = A @ xq
    es = float(((solves - xq).norm(dim=-2) / xq.norm(dim=-2)).max())
    if not es <= (1e-7 * max(1.0, kappa) if exact_est else 2e-3):
        chk.violation(cell + "/solves", f"returned solves differ from {'K ' if not inverse else ''}(-K + s_q I)^-1 b: relative error {es:.3e}", pl)
    # ---- `ciq_reduction` on the real outputs: with the eigen-decomposition K = U diag(lam) U^T (torch.linalg.eigh) and the
    # SCALAR rule rho_i = sum_q w_q / (s_q - lam_i) built from the returned weights and shifts, the returned weighted sum must be
    # U diag(rho) U^T b (K U diag(rho) U^T b when not inverse), and the matrix error is bounded by the worst scalar error
    lam, U = torch.linalg.eigh(A)
    rho = (weights.squeeze(-1) / (shifts[1:].unsqueeze(-1) - lam)).sum(0)
    target = lam.rsqrt()
    scal_err = float(((rho - target).abs() / target).max())
    if not inverse:
        rho = rho * lam
    red = U @ (rho.unsqueeze(-1) * (U.mT @ rhs))
    er = float(((res - red).norm(dim=-2) / red.norm(dim=-2)).max())
    slack = 1e-7 * max(1.0, kappa) if exact_est else 2e-3
    if not er <= slack:
        chk.corr_break(cell + "/reduction", f"sum_q w_q solves_q differs from U diag(sum_q w_q/(s_q - lam_i)) U^T b (theorem ciq_reduction, returned weights/shifts): relative error {er:.3e}", pl)
    elif not err <= scal_err * (1 + 1e-6) * max(1.0, kappa ** 0.5 if not inverse else 1.0) + slack:
        chk.corr_break(cell + "/reduction", f"matrix error {err:.3e} exceeds the worst scalar quadrature error {scal_err:.3e} of the returned rule", pl)
    else:
        chk.traces_validated += 1
        chk.count("ciq_reduction_ok")
    chk.count("ciq_cases")
    # ---- correspondence lines, one per batch member (first column): the Lean plumbing fed with THAT member's recorded
    # eigenvalue estimates and with elliptic-function values computed here by scipy (independently of the library's calls)
    if rbatch_extra == () and n <= 12 and rec.ecalls and opkind == "dense":
        import numpy as np
        import scipy.special as sps
        eig_all = rec.ecalls[0].double().reshape(-1, rec.ecalls[0].shape[-1])
        Am, rm = A.reshape(-1, n, n), rhs.reshape(-1, n, cols)
        nmem = Am.shape[0]
        if eig_all.shape[0] == nmem:
            sh_m, w_m = shifts.reshape(Qn + 1, nmem), weights.reshape(Qn, nmem)
            ns_m, so_m = no_shift.reshape(nmem, n, cols), solves.reshape(Qn, nmem, n, cols)
            for mi in range(min(nmem, 4)):
                eigs, dg = eig_all[mi], torch.diagonal(Am[mi])
                use = eigs if float(eigs.min()) > 0 else dg
                k2 = float(use.min() / use.max())
                kp = float(sps.ellipk(1 - k2))
                sn, cn, dn, _ = sps.ellipj((np.arange(1, Qn + 1) - 0.5) * kp / Qn, 1 - k2)
                words = ["ciq", str(n), str(Qn), "1" if inverse else "0", bits(0.0), bits(math.pi), enc_vec(eigs), enc_vec(dg),
                         bits(kp), enc_vec(sn), enc_vec(cn), enc_vec(dn), enc_mat(Am[mi]), "-", enc_vec(rm[mi, :, 0]), bits(tolm), "d"]
                k2rec = rec.kcalls[0][0] if (nmem == 1 and len(rec.kcalls) == 1) else 1 - k2
                corr_lines.append((cell + f"|member={mi}", " ".join(words),
                                   dict(shifts=sh_m[:, mi], weights=w_m[:, mi], noshift=ns_m[mi, :, 0], solves=so_m[:, mi, :, 0], k2arg=k2rec), pl))


def compare_ciq(chk, corr_lines):
    if not corr_lines:
        return
    outs = chk.run_driver("C11", [l for _, l, _, _ in corr_lines])
    if outs is None:
        return
    for (cell, _, impl, pl), out in zip(corr_lines, outs):
        d = {}
        for w in out.split(" "):
            if "=" in w:
                k, v = w.split("=", 1)
                d[k] = v
        cellc = cell.replace("C11/ciq/", "C11/ciq-corr/")
        chk.case(cellc, nontrivial=True, sample=False)
        if "shifts" not in d:
            chk.corr_break(cellc, "driver rejected the line: " + out[:60], pl)
            continue
        what = None

        def cmp(name, a, b, tol):
            a, b = list(a), list(b)
            if len(a) != len(b):
                return f"{name}: {len(a)} entries vs model {len(b)}"
            s = max(1e-300, max(abs(x) for x in a))
            for x, y in zip(a, b):
                if not abs(x - y) <= tol * s:
                    return f"{name}: implementation {x!r}, model {y!r}"
            return None

        k2 = unbits(d["k2"])
        what = what or (None if abs((1 - k2) - impl["k2arg"]) <= 1e-12 else f"ellipk argument: implementation {impl['k2arg']!r}, model 1 - min/max = {1 - k2!r}")
        what = what or cmp("shifts", impl["shifts"].tolist(), dec_vec(d["shifts"]), 1e-12)
        what = what or cmp("weights", impl["weights"].tolist(), dec_vec(d["weights"]), 1e-12)
        what = what or cmp("no_shift_solves", impl["noshift"].tolist(), dec_vec(d["noshift"]), 1e-7)
        msol = [dec_vec(v) for v in d["solves"].split(";")]
        if what is None and len(msol) != impl["solves"].shape[0]:
            what = f"number of solves: implementation {impl['solves'].shape[0]}, model {len(msol)}"
        if what is None:
            for q, mv in enumerate(msol):
                what = what or cmp(f"solves[{q}]", impl["solves"][q].tolist(), mv, 1e-7)
        if what:
            chk.corr_break(cellc, what, pl)
        else:
            chk.traces_validated += 1
            chk.count("ciq_corr_ok")


# ---------------------------------------------------------------------------------------------- operator level
def op_instances(g, rng, n, batch):
    """(name, builder, dense, has_preconditioner_when_forced)."""
    from linear_operator.operators import (AddedDiagLinearOperator, ConstantDiagLinearOperator, DenseLinearOperator, DiagLinearOperator,
                                           IdentityLinearOperator, KroneckerProductLinearOperator, RootLinearOperator, SumLinearOperator,
                                           BlockDiagLinearOperator, ToeplitzLinearOperator, ConstantMulLinearOperator, PsdSumLinearOperator)
    res = []
    A = spd(n, 20.0, rng.choice(FAMS), g, batch)
    res.append(("Dense", lambda A=A: DenseLinearOperator(A.clone()), A, False))
    d = torch.rand(*batch, n, generator=g, dtype=F64) * 4 + 0.5
    res.append(("Diag", lambda d=d: DiagLinearOperator(d.clone()), torch.diag_embed(d), False))
    res.append(("Identity", lambda: IdentityLinearOperator(n, batch_shape=torch.Size(batch), dtype=F64), torch.eye(n, dtype=F64).expand(*batch, n, n).clone(), False))
    c = torch.rand(*batch, 1, generator=g, dtype=F64) + 0.5
    res.append(("ConstantDiag", lambda c=c: ConstantDiagLinearOperator(c.clone(), n), torch.diag_embed(c.expand(*batch, n)), False))
    r = max(1, n // 2)
    L = torch.randn(*batch, n, r, generator=g, dtype=F64)
    dd = torch.rand(*batch, n, generator=g, dtype=F64) + 0.5
    res.append(("AddedDiag(Root,Diag)", lambda L=L, dd=dd: AddedDiagLinearOperator(RootLinearOperator(L.clone()), DiagLinearOperator(dd.clone())),
                L @ L.mT + torch.diag_embed(dd), True))
    B = spd(n, 8.0, "uniform", g, batch)
    res.append(("AddedDiag(Dense,Diag)", lambda B=B, dd=dd: AddedDiagLinearOperator(DenseLinearOperator(B.clone()), DiagLinearOperator(dd.clone())),
                B + torch.diag_embed(dd), True))
    res.append(("Sum(Dense,Dense)", lambda A=A, B=B: SumLinearOperator(DenseLinearOperator(A.clone()), DenseLinearOperator(B.clone())), A + B, False))
    res.append(("ConstantMul", lambda A=A: ConstantMulLinearOperator(DenseLinearOperator(A.clone()), torch.tensor(2.5, dtype=F64)), 2.5 * A, False))
    if n % 2 == 0 and n >= 4:
        K1, K2 = spd(2, 3.0, "uniform", g, batch), spd(n // 2, 5.0, "uniform", g, batch)
        kd = (K1.unsqueeze(-1).unsqueeze(-3) * K2.unsqueeze(-2).unsqueeze(-4)).reshape(*batch, n, n)
        res.append(("Kronecker", lambda K1=K1, K2=K2: KroneckerProductLinearOperator(DenseLinearOperator(K1.clone()), DenseLinearOperator(K2.clone())), kd, False))
        blocks = spd(n // 2, 6.0, "uniform", g, batch + (2,))
        bd = torch.zeros(*batch, n, n, dtype=F64)
        h = n // 2
        bd[..., :h, :h], bd[..., h:, h:] = blocks[..., 0, :, :], blocks[..., 1, :, :]
        res.append(("BlockDiag", lambda blocks=blocks: BlockDiagLinearOperator(DenseLinearOperator(blocks.clone())), bd, False))
    col = torch.zeros(*batch, n, dtype=F64)
    col[..., 0] = 3.0
    if n > 1:
        col[..., 1] = 1.0
    idx = (torch.arange(n).unsqueeze(0) - torch.arange(n).unsqueeze(1)).abs()
    res.append(("Toeplitz", lambda col=col: ToeplitzLinearOperator(col.clone()), col[..., idx], False))
    return res


def check_ops(chk, g, rng, consts, quick):
    import linear_operator
    from linear_operator import settings
    sizes = [(1, ()), (4, ()), (6, (2,)), (9, ())] if quick else [(1, ()), (2, ()), (4, ()), (6, (2,)), (9, ()), (8, (2, 1)), (16, ()), (30, ())]
    for n, batch in sizes:
        for name, build, dense, can_pre in op_instances(g, rng, n, batch):
            ev = torch.linalg.eigvalsh(dense)
            kap = float((ev[..., -1] / ev[..., 0]).max())
            for mode in ("default", "precond") if (can_pre and n >= 4) else ("default",):
                cols = rng.choice([1, 2, 3])
                vec = (batch == ()) and rng.random() < 0.3
                R = torch.randn(n, generator=g, dtype=F64) if vec else torch.randn(*batch, n, cols, generator=g, dtype=F64)
                Lh = torch.randn(*batch, rng.choice([1, 2, 3]), n, generator=g, dtype=F64)
                func_form = rng.random() < 0.5
                cell = f"C11/op/{name}|n={n}|batch={bstr(batch)}|rhs={'vec' if vec else cols}|{mode}"
                chk.case(cell + "|" + bits(float(R.sum())), nontrivial=n > 1 and name != "Identity")
                chk.count("op:" + name)
                pl = {"check": "op", "name": name, "n": n, "mode": mode}
                ctxs = [settings.minres_tolerance(1e-10)]
                k_pre = None
                if mode == "precond":
                    k_pre = rng.choice([1, 2])
                    ctxs += [settings.min_preconditioning_size(1), settings.max_preconditioner_size(k_pre)]
                try:
                    with warnings.catch_warnings():
                        warnings.simplefilter("ignore")
                        for c in ctxs:
                            c.__enter__()
                        try:
                            op = build()
                            has_pre = op._preconditioner()[0] is not None
                            op = build()
                            f = (lambda *a: linear_operator.sqrt_inv_matmul(op, *a)) if func_form else op.sqrt_inv_matmul
                            y1 = f(R.clone())
                            y2 = f(y1.clone())
                            Mfull = f(torch.eye(n, dtype=F64).expand(*batch, n, n).clone())
                            res_l, iq = f(R.clone(), Lh.clone())
                        finally:
                            for c in reversed(ctxs):
                                c.__exit__(None, None, None)
                except Exception as e:
                    chk.violation(cell + "/raises", f"sqrt_inv_matmul raised {type(e).__name__}: {str(e)[:100]}", pl)
                    continue
                R2 = R.unsqueeze(-1) if vec else R
                want2 = torch.linalg.solve(dense, R2)
                root = sym_fun(dense, lambda t: t.rsqrt())
                want1 = root @ R2
                if vec:
                    want1, want2 = want1.squeeze(-1), want2.squeeze(-1)
                lim = ciq_bound(kap, int(consts["num_contour_quadrature"])) + 1e-7 * max(1.0, kap ** 0.5)

                def rel(a, b):
                    return float((a - b).norm() / b.norm().clamp_min(1e-300))
                if y1.shape != R.shape or y2.shape != R.shape:
                    chk.violation(cell + "/shape", f"sqrt_inv_matmul returned shape {tuple(y1.shape)} for rhs {tuple(R.shape)}", pl)
                    continue
                if mode == "precond" and has_pre:
                    chk.count("op_with_preconditioner")
                    # what the code computes with a preconditioner: a (non-symmetric) M with M M^T = A^-1
                    e_mm = rel(Mfull @ Mfull.mT, torch.linalg.inv(dense))
                    if e_mm > 10 * lim:
                        chk.violation(cell + "/MMt", f"with a preconditioner M = sqrt_inv_matmul(I) does not satisfy M M^T = A^-1: relative error {e_mm:.3e}", pl)
                    e2 = rel(y2, want2)
                    if e2 > max(10 * lim, 1e-5):
                        chk.violation(f"C11/op-precond/twice/{name}", f"with an active preconditioner (rank {k_pre}) sqrt_inv_matmul applied twice differs from A^-1 R: relative error {e2:.3e}", pl)
                    eq = rel(iq, torch.diagonal(Lh @ torch.linalg.solve(dense, Lh.mT), dim1=-2, dim2=-1))
                    if eq > max(10 * lim, 1e-5):
                        chk.violation(f"C11/op-precond/inv_quad/{name}", f"with an active preconditioner the inv_quad term differs from diag(L A^-1 L^T): relative error {eq:.3e}", pl)
                    continue
                e1, e2 = rel(y1, want1), rel(y2, want2)
                if e1 > lim:
                    chk.violation(cell + "/once", f"sqrt_inv_matmul(R) differs from A^-1/2 R: relative error {e1:.3e} > {lim:.3e}", pl)
                if e2 > 3 * lim * max(1.0, kap ** 0.5):
                    chk.violation(cell + "/twice", f"sqrt_inv_matmul applied twice differs from A^-1 R: relative error {e2:.3e}", pl)
                wl = Lh @ (root @ R2)
                wq = torch.diagonal(Lh @ torch.linalg.solve(dense, Lh.mT), dim1=-2, dim2=-1)
                if vec:
                    wl = wl.squeeze(-1)
                if res_l.shape != wl.shape or iq.shape != wq.shape:
                    chk.violation(cell + "/lhs-shape", f"left-factor variant returned shapes {tuple(res_l.shape)}, {tuple(iq.shape)}; expected {tuple(wl.shape)}, {tuple(wq.shape)}", pl)
                    continue
                if rel(res_l, wl) > 3 * lim * max(1.0, kap ** 0.5) + 1e-9:
                    chk.violation(cell + "/lhs", f"L A^-1/2 R is off: relative error {rel(res_l, wl):.3e}", pl)
                if rel(iq, wq) > 1e-7 * max(1.0, kap):
                    chk.violation(cell + "/inv_quad", f"inv_quad term differs from diag(L A^-1 L^T): relative error {rel(iq, wq):.3e}", pl)


def check_sampling(chk, g, rng, consts, quick):
    """CIQ sampling: with the noise replaced by the identity the samples are the rows of a root S with S^T S = A."""
    from linear_operator import settings
    from linear_operator.operators import DenseLinearOperator, AddedDiagLinearOperator, DiagLinearOperator, RootLinearOperator
    real = torch.randn
    for n, batch, kind in ([(5, (), "dense"), (4, (2,), "dense"), (6, (), "added")] if quick else
                           [(1, (), "dense"), (5, (), "dense"), (4, (2,), "dense"), (6, (), "added"), (12, (), "dense"), (7, (3,), "added")]):
        A = spd(n, 30.0, rng.choice(FAMS), g, batch)
        if kind == "added":
            L = torch.randn(*batch, n, 2, generator=g, dtype=F64)
            dd = torch.rand(*batch, n, generator=g, dtype=F64) + 0.5
            A = L @ L.mT + torch.diag_embed(dd)
            op = AddedDiagLinearOperator(RootLinearOperator(L.clone()), DiagLinearOperator(dd.clone()))
        else:
            op = DenseLinearOperator(A.clone())
        cell = f"C11/sampling/{kind}|n={n}|batch={bstr(batch)}"
        chk.case(cell + "|" + bits(float(A.sum())), nontrivial=n > 1)
        seen = []

        def fake(*size, **kw):
            if inspect.stack()[1].function != "zero_mean_mvn_samples":
                return real(*size, **kw)
            if len(size) == 1 and isinstance(size[0], (tuple, list, torch.Size)):
                size = tuple(size[0])
            seen.append(tuple(size))
            # (*batch, n, num_samples) with num_samples = n: identity noise
            return torch.eye(n, dtype=kw.get("dtype", F64)).expand(*size).clone()

        torch.randn = fake
        try:
            with warnings.catch_warnings():
                warnings.simplefilter("ignore")
                with settings.ciq_samples(True), settings.minres_tolerance(1e-10):
                    S = op.zero_mean_mvn_samples(n)
        except Exception as e:
            chk.violation(cell + "/raises", f"CIQ sampling raised {type(e).__name__}: {str(e)[:100]}", {"check": "sampling"})
            continue
        finally:
            torch.randn = real
        if tuple(S.shape) != (n,) + tuple(batch) + (n,):
            chk.violation(cell + "/shape", f"samples have shape {tuple(S.shape)}, expected {(n,) + tuple(batch) + (n,)}", {"check": "sampling"})
            continue
        Sm = S.permute(*range(1, 1 + len(batch)), 0, -1) if batch else S     # (*batch, sample, n): row k = A^{1/2} e_k
        cov = Sm.mT @ Sm
        err = float(((cov - A).norm(dim=(-2, -1)) / A.norm(dim=(-2, -1))).max())
        lim = ciq_bound(30.0 * 3, int(consts["num_contour_quadrature"])) + 1e-6
        if err > lim:
            chk.violation(cell, f"CIQ samples with identity noise give S^T S != A: relative error {err:.3e} > {lim:.3e}", {"check": "sampling", "A": A.tolist()})
        chk.count("sampling_cases")


SCALES = (1.0 / 1024, 1.0, 256.0)


def ciq_sample_root(op, n):
    """`zero_mean_mvn_samples(n)` under ciq_samples with identity noise: returns S with rows A^{1/2} e_k per batch member."""
    from linear_operator import settings
    real = torch.randn

    def fake(*size, **kw):
        if inspect.stack()[1].function != "zero_mean_mvn_samples":
            return real(*size, **kw)
        if len(size) == 1 and isinstance(size[0], (tuple, list, torch.Size)):
            size = tuple(size[0])
        return torch.eye(n, dtype=kw.get("dtype", F64)).expand(*size).clone()

    torch.randn = fake
    try:
        with warnings.catch_warnings():
            warnings.simplefilter("ignore")
            with settings.ciq_samples(True), settings.minres_tolerance(1e-10):
                return op.zero_mean_mvn_samples(n)
    finally:
        torch.randn = real


def check_op_root(chk, cell, A, R, Lh, consts, kappa):
    """Dense operator with matrix A (possibly batched): sqrt_inv_matmul once / twice / with lhs and CIQ sampling, each compared
    per batch member with the eigh reference."""
    from linear_operator import settings
    from linear_operator.operators import DenseLinearOperator
    n, batch = A.shape[-1], tuple(A.shape[:-2])
    pl = {"check": "op-scale", "A": A.tolist(), "R": R.tolist()}
    lim = ciq_bound(kappa, int(consts["num_contour_quadrature"])) + 1e-7 * max(1.0, kappa ** 0.5)

    def rel(a, b):
        return float(((a - b).norm(dim=-2) / b.norm(dim=-2).clamp_min(1e-300)).max())
    try:
        with warnings.catch_warnings():
            warnings.simplefilter("ignore")
            with settings.minres_tolerance(1e-10):
                op = DenseLinearOperator(A.clone())
                y1 = op.sqrt_inv_matmul(R.clone())
                y2 = DenseLinearOperator(A.clone()).sqrt_inv_matmul(y1.clone())
                rl, iq = DenseLinearOperator(A.clone()).sqrt_inv_matmul(R.clone(), Lh.clone())
        S = ciq_sample_root(DenseLinearOperator(A.clone()), n)
    except Exception as e:
        chk.violation(cell + "/raises", f"raised {type(e).__name__}: {str(e)[:100]}", pl)
        return
    root = sym_fun(A, lambda t: t.rsqrt())
    if rel(y1, root @ R) > lim:
        chk.violation(cell + "/once", f"sqrt_inv_matmul(R) differs from A^-1/2 R (per batch member): relative error {rel(y1, root @ R):.3e} > {lim:.3e}", pl)
    if rel(y2, torch.linalg.solve(A, R)) > 3 * lim * max(1.0, kappa ** 0.5):
        chk.violation(cell + "/twice", f"sqrt_inv_matmul applied twice differs from A^-1 R (per batch member): relative error {rel(y2, torch.linalg.solve(A, R)):.3e}", pl)
    if rel(rl, Lh @ (root @ R)) > 3 * lim * max(1.0, kappa ** 0.5) + 1e-9:
        chk.violation(cell + "/lhs", f"L A^-1/2 R is off: relative error {rel(rl, Lh @ (root @ R)):.3e}", pl)
    wq = torch.diagonal(Lh @ torch.linalg.solve(A, Lh.mT), dim1=-2, dim2=-1)
    if float(((iq - wq).abs() / wq.abs()).max()) > 1e-7 * max(1.0, kappa):
        chk.violation(cell + "/inv_quad", f"inv_quad term differs from diag(L A^-1 L^T): relative error {float(((iq - wq).abs() / wq.abs()).max()):.3e}", pl)
    Sm = S.permute(*range(1, 1 + len(batch)), 0, -1) if batch else S
    e = float((((Sm.mT @ Sm) - A).norm(dim=(-2, -1)) / A.norm(dim=(-2, -1))).max())
    if e > lim * 10 + 1e-6:
        chk.violation(cell + "/sampling", f"CIQ samples with identity noise give S^T S != A (per batch member): relative error {e:.3e}", pl)
    chk.count("scale_cases")


def check_scales_and_histories(chk, g, rng, consts, corr_lines, quick):
    """(a) batches whose members have the same condition number but scales 1/1024, 1, 256 (bit-identical eigenvalue-ratio
    estimates); (b) multi-call histories in one process: K, 256 K, K, K/1024, 32 K with the same right-hand side."""
    cfgs = [(4, 20.0), (9, 60.0)] if quick else [(2, 5.0), (4, 20.0), (6, 100.0), (9, 60.0), (12, 30.0)]
    for n, kappa in cfgs:
        fam = rng.choice(FAMS)
        K = spd(n, kappa, fam, g)
        cols = rng.choice([1, 2])
        b = torch.randn(n, cols, generator=g, dtype=F64)
        Lh = torch.randn(2, n, generator=g, dtype=F64)
        # (a) one batch
        A3 = torch.stack([K * sc_ for sc_ in SCALES])
        b3 = b.expand(3, n, cols).clone()
        for inverse in (True, False):
            check_ciq(chk, g, rng, n, fam, kappa, (3,), (), cols, inverse, rng.choice([None, 10]), "dense", consts, corr_lines,
                      A_given=A3, rhs_given=b3, tag="|scales=1/1024,1,256")
        cell = f"C11/op-scale/batch|n={n}|kappa={kappa:g}|scales=1/1024,1,256"
        chk.case(cell + "|" + bits(float(b.sum())), nontrivial=True)
        check_op_root(chk, cell, A3, b3, Lh.expand(3, 2, n).clone(), consts, kappa)
        # (b) history in one process
        for step, sc_ in enumerate((1.0, 256.0, 1.0, 1.0 / 1024, 32.0)):
            for inverse in (True, False):
                check_ciq(chk, g, rng, n, fam, kappa, (), (), cols, inverse, None, "dense", consts, corr_lines,
                          A_given=K * sc_, rhs_given=b, tag=f"|history={step}:x{sc_:g}")
            cell = f"C11/op-scale/history={step}:x{sc_:g}|n={n}|kappa={kappa:g}"
            chk.case(cell + "|" + bits(float(b.sum())), nontrivial=True)
            check_op_root(chk, cell, K * sc_, b, Lh, consts, kappa)


# ---------------------------------------------------------------------------------------------- translator cross-check
def translator_crosscheck(chk, consts):
    from fractions import Fraction
    from linear_operator.utils.minres import minres
    from linear_operator.utils.contour_integral_quad import contour_integral_quad
    from linear_operator import settings
    sig = inspect.signature(minres)
    if consts["eps"] is None or float(consts["eps"]) != float(sig.parameters["eps"].default):
        chk.proof_break("translator(C11Consts)", f"default of `eps` extracted as {consts['eps']} but is {sig.parameters['eps'].default} at run time")
    for name in ("shifts", "value", "max_iter", "preconditioner"):
        if sig.parameters[name].default is not None:
            chk.proof_break("translator(C11Consts)", f"default of `{name}` is not None at run time")
    for cls, key in ((settings.minres_tolerance, "minres_tolerance"), (settings.max_cg_iterations, "max_cg_iterations"),
                     (settings.num_contour_quadrature, "num_contour_quadrature")):
        if consts[key] is None or Fraction(consts[key]) != Fraction(str(cls.value())):
            chk.proof_break("translator(C11Consts)", f"settings.{key} extracted as {consts[key]} but is {cls.value()} at run time")
    if settings.ciq_samples.on() != (consts["ciq_samples"] == "True"):
        chk.proof_break("translator(C11Consts)", "settings.ciq_samples default differs at run time")
    csig = inspect.signature(contour_integral_quad)
    if consts["max_lanczos_iter"] is None or int(consts["max_lanczos_iter"]) != csig.parameters["max_lanczos_iter"].default:
        chk.proof_break("translator(C11Consts)", "max_lanczos_iter default differs at run time")
    if consts.get("module_state"):
        chk.proof_break("translator(C11Consts)", "module-level mutable state / memoisation in the solver modules: " + "; ".join(consts["module_state"])[:300])
    for k in ("zero_thresh", "check_every", "extra_iters", "size_slack", "ciq_value"):
        if consts[k] is None:
            chk.proof_break("translator(C11Consts)", f"literal `{k}` not recognised in the source")


# ---------------------------------------------------------------------------------------------- scenarios
def property_scenarios(chk, g, rng):
    quick = chk.tier == "quick"
    ns = [1, 2, 3, 5, 8, 12, 20, 40]
    kappas = [1.0, 10.0, 1e2, 1e4]
    kinds = ["none", "scalar", "vec1", "vec", "batched", "batched1"]
    pres = ["none", "none", "jacobi", "spd", "exact"]
    i = 0
    for rep in range(1 if quick else 4):
        for n in ns:
            for fam in FAMS:
                for kappa in kappas:
                    i += 1
                    if quick and (i + chk.seed) % 2 and n >= 12:
                        continue
                    dtype = F32 if (i + rep) % 5 == 0 else F64
                    if dtype == F32 and kappa > 1e2:
                        kappa = 1e2
                    ab, rb = rng.choice([((), ()), ((2,), (2,)), ((), (3,)), ((2,), ()), ((2, 1), (1, 2))]) if n <= 20 else rng.choice([((), ()), ((2,), (2,))])
                    vec = rb == () and rng.random() < 0.2
                    cols = rng.choice([1, 2, 4])
                    special = rng.choice(["-", "-", "zero-first", "zero-last", "tiny-last", "huge-first"]) if not vec else "-"
                    pre = rng.choice(pres) if n > 1 else "none"
                    value = rng.choice([None, None, None, -1.0, 2.0])
                    mode = i % 4
                    if mode == 0:
                        params = {}
                    elif mode == 1:
                        params = dict(tol=rng.choice([1e-8, 1e-10]))
                    elif mode == 2:
                        params = dict(tol=rng.choice([1e-2, 1e-6]), max_iter=rng.choice([None, 2 * n + 5]))
                    else:
                        params = dict(max_iter=rng.choice([n + 1, n + 5, 1000]), tol=1e-9)
                    if dtype == F32 and params.get("tol") is not None:
                        params["tol"] = max(params["tol"], 1e-5)
                    yield make_scenario(g, n, fam, kappa, dtype, abatch=ab, rbatch=rb, cols=cols, vec=vec, special=special,
                                        shift_kind=kinds[(i + rep) % 6], pre=pre, pre_form=rng.choice(["dense", "diag"]), value=value, **params)


DOCUMENTED = {"size_slack": 1, "extra_iters": 2, "check_every": 10, "max_cg_iterations": 1000, "minres_tolerance": "1/10000",
              "num_contour_quadrature": 15, "max_lanczos_iter": 20}


def with_defaults(consts):
    """Literals the translator could not recognise fall back to the documented values (the unrecognised literal is
    already recorded as a broken obligation by `translator_crosscheck`), so that the implementation checks still run."""
    from fractions import Fraction
    for k, v in DOCUMENTED.items():
        if consts.get(k) is None:
            consts[k] = Fraction(v)
    return consts


def run(chk):
    consts = c11_minres.generate()
    chk.rule = ("SPD matrices with prescribed spectra (uniform / clustered / geometric, kappa 1..1e4) x n in {1,2,3,5,8,12,20,40} x batch/broadcast shapes "
                "x 1-4 columns (vector rhs; zero / tiny / huge columns) x shifts {None, 0-d, 1-element, vector, batched (Q,*batch), (1,*batch)} x preconditioners "
                "{none, Jacobi (dense / diagonal closure), SPD low-rank+diag, exact inverse} x value {None,-1,2} x minres_tolerance x max_iter x float32/float64; "
                "contour_integral_quad on Dense/Diag operators (inverse both ways, batch, extra leading rhs dims, Q in {None,6,10,20}); sqrt_inv_matmul on operator "
                "classes with and without an active preconditioner; CIQ sampling with identity noise. Values seed-random; distinct = distinct cell + data; "
                "non-trivial = n > 1. Correspondence: Lean model on binary64 (closure-argument trajectory while beta is robustly positive, iteration count, solutions; "
                "CIQ shifts/weights/solves from recorded ellipk/ellipj outputs; shapes exactly), cases whose iteration count changes under a 1e-3 perturbation of the "
                "tolerance are discarded; residual identity: true residual norm of the real result after 3..n iterations (n 3-9, no preconditioner) = model scale output = "
                "dense Krylov least-squares optimum; CIQ reduction: returned weighted sum = eigen-reduction with the returned weights/shifts; buffer identities of the Lanczos vectors")
    chk.assumptions += ["matmul_closure / preconditioner closures are pure, linear, symmetric (positive definite for the preconditioner)",
                        "floating-point rounding is not modelled: theorems are over ordered fields with an exact square root; the gap is bridged by toleranced "
                        "correspondence (1e-6 relative float64) and by tolerances derived from the stopping tolerance in the implementation checks",
                        "scipy.special.ellipk / ellipj are correct; quadrature accuracy (Hale-Higham-Trefethen) is not proved, only checked numerically (the matrix statement is reduced to the scalar rule by theorem ciq_reduction); MINRES optimality / residual norm are proved in exact arithmetic for iterations before the clamp is active and checked on the real code by check_residual_identity",
                        "torch.linalg.solve / eigh / eigvalsh (float64) as dense references"]
    translator_crosscheck(chk, consts)
    consts = with_defaults(consts)
    chk.prove("LinOp.Properties.C11", ["LinOp/C11", "LinOp/Generated/C11Consts.lean", "LinOp/Core/Basic.lean", "LinOp/Core/Parse.lean", "LinOp/Core/Bridge.lean"])
    g = torch.Generator().manual_seed(chk.rng.randrange(2 ** 31))
    rng = chk.rng
    quick = chk.tier == "quick"
    # ---- correspondence
    run_correspondence(chk, corr_scenarios(g, rng, 60 if quick else 300), consts)
    check_shapes(chk, g, consts)
    check_residual_identity(chk, g, rng, consts, 20 if quick else 80)
    check_shift_alias(chk, g, consts)
    # ---- property on the implementation: minres
    for sc in property_scenarios(chk, g, rng):
        chk.count("fam:" + sc["fam"])
        chk.count(f"n:{sc['n']}")
        chk.count("pre:" + sc["pre"])
        chk.count("shifts:" + sc["shift_kind"])
        check_solve(chk, sc, consts)
        if sc["n"] <= 12 or not quick:
            check_scaling(chk, sc, rng.choice([2.0, 0.5, -1.0, 3.7, 1e4, 1e-3, -0.3]), consts)
    # ---- contour_integral_quad
    corr_lines = []
    cfgs = []
    for n in ([1, 3, 6, 12, 20] if quick else [1, 2, 3, 6, 9, 12, 16, 20]):
        for kappa in ([1.0, 50.0, 1e4 if n <= 6 else 100.0] if n > 1 else [4.0]):
            cfgs.append((n, kappa))
    cfgs += [(32, 30.0), (40, 10.0)] if quick else [(24, 30.0), (32, 30.0), (40, 30.0), (40, 10.0)]
    for j, (n, kappa) in enumerate(cfgs):
        for inverse in (True, False):
            batch = rng.choice([(), (), (2,), (2, 2)]) if n <= 12 else ()
            extra = rng.choice([(), (), (3,)]) if n <= 12 else ()
            Q = rng.choice([None, None, 10, 20]) if kappa <= 100 else rng.choice([None, 20])
            if kappa <= 1.0:
                Q = rng.choice([None, 6])
            check_ciq(chk, g, rng, n, rng.choice(FAMS), kappa, batch, extra, rng.choice([1, 2]), inverse, Q,
                      "diag" if (j % 5 == 4 and n > 1) else "dense", consts, corr_lines)
    for n in ([4, 9] if quick else [2, 4, 7, 9, 12]):   # unbatched cases for the plumbing correspondence
        for inverse in (True, False):
            check_ciq(chk, g, rng, n, rng.choice(FAMS), rng.choice([5.0, 100.0]), (), (), 1, inverse, rng.choice([None, 8]), "dense", consts, corr_lines)
    check_scales_and_histories(chk, g, rng, consts, corr_lines, quick)
    compare_ciq(chk, corr_lines)
    # ---- operators, sampling
    check_ops(chk, g, rng, consts, quick)
    check_sampling(chk, g, rng, consts, quick)


def replay(chk, payload):
    consts = with_defaults(c11_minres.generate())
    p = payload.get("payload") or {}
    kind = p.get("check")
    if kind in ("solve", "scaling", "corr", "resid") and "A" in p:
        sc = sc_from_payload(p)
        if kind == "solve":
            check_solve(chk, sc, consts)
        elif kind == "scaling":
            check_scaling(chk, sc, p.get("c", 2.0), consts)
        else:
            run_correspondence(chk, [sc], consts)
        return
    print("replay carries no stored minres input (operator-level / generated case or broken obligation); re-running the check:", json.dumps(p)[:800])
    return run(chk)
