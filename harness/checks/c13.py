"""C13 — no operation mutates caller-owned tensors or an existing operator's matrix.

1. translator (harness/extract/c13_alias.py) regenerates the alias IR of every function of the package,
2. Lean proves `Safe` for every obligation from the regenerated IR (LinOp.Properties.C13),
3. the Lean abstract interpreter is run (driver) on the generated functions and compared with the translator's
   Python mirror (model-vs-mirror correspondence),
4. a broad catalogue of public calls is executed under a TorchDispatchMode write logger with `_version` + bitwise
   snapshots of every caller-owned tensor (the property on the implementation) and every observed write is
   matched against the IR write sites (translator-vs-implementation correspondence)."""
import inspect
import json
import os
import sys
import traceback

import torch
from torch.utils._python_dispatch import TorchDispatchMode

from ..common import REPO
from ..extract import c13_alias
from ..extract import c13_sites

PKGDIR = os.path.join(os.path.realpath(REPO), "linear_operator") + os.sep


# ----------------------------------------------------------------------------- observation
def sptr(t):
    try:
        return t.untyped_storage().data_ptr()
    except Exception:
        return None


def pkg_frame():
    f = sys._getframe(2)
    while f is not None:
        fn = os.path.realpath(f.f_code.co_filename)
        if fn.startswith(PKGDIR) and os.sep + "test" + os.sep not in fn:
            return os.path.relpath(fn, PKGDIR), f.f_lineno
        f = f.f_back
    return None, 0


class WriteLogger(TorchDispatchMode):
    """logs every aten op that writes one of its arguments (schema alias_info.is_write)"""

    def __init__(self, protected):
        super().__init__()
        self.protected = protected      # storage ptr -> name
        self.writes = []                # (rel, line, op, storage ptr, protected name or None)
        self.born = {}                  # storage ptr -> (rel, line) where it first appeared as an output

    def __torch_dispatch__(self, func, types, args=(), kwargs=None):
        kwargs = kwargs or {}
        written = []
        try:
            sch = func._schema
            for i, a in enumerate(sch.arguments):
                if a.alias_info is not None and a.alias_info.is_write:
                    v = args[i] if i < len(args) else kwargs.get(a.name)
                    if isinstance(v, torch.Tensor):
                        written.append(v)
                    elif isinstance(v, (list, tuple)):
                        written += [x for x in v if isinstance(x, torch.Tensor)]
        except Exception:
            pass
        rel = line = None
        if written:
            rel, line = pkg_frame()
            for v in written:
                p = sptr(v)
                self.writes.append((rel, line, str(func), p, self.protected.get(p)))
        out = func(*args, **kwargs)
        outs = out if isinstance(out, (list, tuple)) else [out]
        for o in outs:
            if isinstance(o, torch.Tensor):
                p = sptr(o)
                if p is not None and p not in self.born and p not in self.protected:
                    if rel is None:
                        rel, line = pkg_frame()
                    self.born[p] = (rel, line)
        return out


def snapshot(tensors):
    snap = {}
    for name, t in tensors.items():
        try:
            if t.is_sparse:
                tc = t
                snap[name] = ("sparse", t._version, tuple(t.shape), t._indices().clone(), t._values().clone(),
                              t._indices()._version, t._values()._version)
                continue
            st = t.untyped_storage()
            raw = torch.empty(st.nbytes(), dtype=torch.uint8)
            raw.untyped_storage().copy_(st)
            snap[name] = ("dense", t._version, tuple(t.shape), tuple(t.stride()), t.storage_offset(), raw, t.dtype, t.requires_grad)
        except Exception as e:  # pragma: no cover
            snap[name] = ("error", repr(e))
    return snap


def diff_snapshot(snap, tensors):
    bad = []
    for name, t in tensors.items():
        s = snap[name]
        if s[0] == "sparse":
            if tuple(t.shape) != s[2] or t._indices().shape != s[3].shape or not torch.equal(t._indices(), s[3]) \
                    or t._values().shape != s[4].shape or not torch.equal(t._values(), s[4]):
                bad.append(f"{name}: sparse tensor content changed (nnz {s[4].numel()} -> {t._values().numel()})")
            elif t._indices()._version != s[5] or t._values()._version != s[6]:
                bad.append(f"{name}: written in place (_version of indices/values bumped), values equal")
            continue
        if s[0] != "dense":
            continue
        _, ver, shape, stride, off, raw, dtype, rg = s
        if tuple(t.shape) != shape or tuple(t.stride()) != stride or t.storage_offset() != off:
            bad.append(f"{name}: shape/stride changed {shape}/{stride} -> {tuple(t.shape)}/{tuple(t.stride())}")
            continue
        st = t.untyped_storage()
        now = torch.empty(st.nbytes(), dtype=torch.uint8)
        now.untyped_storage().copy_(st)
        if now.numel() != raw.numel() or not torch.equal(now, raw):
            nd = int((now != raw).sum()) if now.numel() == raw.numel() else -1
            bad.append(f"{name}: storage bytes changed ({nd} bytes differ)")
        elif t._version != ver:
            bad.append(f"{name}: written in place (_version {ver} -> {t._version}), values equal")
        if t.dtype != dtype:
            bad.append(f"{name}: dtype changed")
    return bad


# ----------------------------------------------------------------------------- data
LAYOUTS = ["contig", "expanded", "transposed", "slice"]
# aten in-place ops that only change the tensor object's metadata (the translator emits no storage write for them when
# the object was created inside the function; on caller-owned objects the snapshot reports the shape change)
META_OPS = {"unsqueeze_", "squeeze_", "transpose_", "t_", "swapaxes_", "swapdims_", "detach_", "requires_grad_", "rename_"}


def relayout(t, layout):
    """same values (and shape, except `expanded`: leading stride-0 batch dim of 2), different memory layout"""
    if t is None:
        return None
    if layout == "contig":
        return t.clone()
    if layout == "expanded":
        return t.clone().unsqueeze(0).expand(2, *t.shape)
    if layout == "transposed":
        if t.dim() >= 2:
            return t.mT.contiguous().mT
        buf = torch.full((2 * t.numel() + 1,), 7, dtype=t.dtype)
        v = buf[1::2]
        v.copy_(t)
        return v
    if layout == "slice":
        buf = torch.full((t.numel() + 9,), 7, dtype=t.dtype)
        v = buf[4:4 + t.numel()].view(t.shape)
        v.copy_(t)
        return v
    raise ValueError(layout)


class Data:
    def __init__(self, seed, n=5):
        self.g = torch.Generator().manual_seed(seed)
        self.n = n

    def mat(self, *shape):
        return torch.randn(*shape, generator=self.g, dtype=torch.float64)

    def psd(self, n=None, shift=None):
        n = n or self.n
        a = self.mat(n, n)
        return a @ a.T / n + (shift if shift is not None else 1.0) * torch.eye(n, dtype=torch.float64)

    def pos(self, *shape):
        return torch.rand(*shape, generator=self.g, dtype=torch.float64) + 0.5


def builders():
    """name -> f(D, L) returning (operator, {name: caller-owned defining tensor}, is_psd).  L relayouts a tensor."""
    import linear_operator.operators as O
    B = {}

    def reg(name, psd=True):
        def deco(f):
            B[name] = (f, psd)
            return f
        return deco

    @reg("Dense")
    def _(D, L):
        a = L(D.psd())
        return O.DenseLinearOperator(a), {"tensor": a}

    @reg("Diag")
    def _(D, L):
        d = L(D.pos(D.n))
        return O.DiagLinearOperator(d), {"diag": d}

    @reg("ConstantDiag")
    def _(D, L):
        d = L(D.pos(1))
        return O.ConstantDiagLinearOperator(d, diag_shape=D.n), {"diag": d}

    @reg("Toeplitz")
    def _(D, L):
        c = torch.tensor([4.0, 1.0, 0.5, 0.25, 0.1][:D.n], dtype=torch.float64) + 0.01 * D.pos(D.n)
        c = L(c)
        return O.ToeplitzLinearOperator(c), {"column": c}

    @reg("Triangular", psd=False)
    def _(D, L):
        a = L(torch.linalg.cholesky(D.psd()))
        return O.TriangularLinearOperator(a), {"tensor": a}

    @reg("Chol")
    def _(D, L):
        a = L(torch.linalg.cholesky(D.psd()))
        return O.CholLinearOperator(O.TriangularLinearOperator(a)), {"chol": a}

    @reg("Root")
    def _(D, L):
        r = L(D.mat(D.n, D.n) + 2 * torch.eye(D.n, dtype=torch.float64))
        return O.RootLinearOperator(r), {"root": r}

    @reg("LowRankRootAddedDiag")
    def _(D, L):
        r, d = L(D.mat(D.n, 2)), L(D.pos(D.n))
        return O.LowRankRootAddedDiagLinearOperator(O.LowRankRootLinearOperator(r), O.DiagLinearOperator(d)), {"root": r, "diag": d}

    @reg("AddedDiag")
    def _(D, L):
        a, d = L(D.psd()), L(D.pos(D.n))
        return O.AddedDiagLinearOperator(O.DenseLinearOperator(a), O.DiagLinearOperator(d)), {"tensor": a, "diag": d}

    @reg("AddedDiag(LowRankRoot)")
    def _(D, L):
        r, d = L(D.mat(D.n, 2)), L(D.pos(D.n))
        return O.AddedDiagLinearOperator(O.RootLinearOperator(r), O.DiagLinearOperator(d)), {"root": r, "diag": d}

    @reg("Kronecker")
    def _(D, L):
        a, b = L(D.psd(2)), L(D.psd(3))
        return O.KroneckerProductLinearOperator(O.DenseLinearOperator(a), O.DenseLinearOperator(b)), {"a": a, "b": b}

    @reg("KroneckerAddedDiag")
    def _(D, L):
        a, b, d = L(D.psd(2)), L(D.psd(3)), L(D.pos(6))
        k = O.KroneckerProductLinearOperator(O.DenseLinearOperator(a), O.DenseLinearOperator(b))
        return O.KroneckerProductAddedDiagLinearOperator(k, O.DiagLinearOperator(d)), {"a": a, "b": b, "diag": d}

    @reg("KroneckerAddedConstDiag")
    def _(D, L):
        a, b, d = L(D.psd(2)), L(D.psd(3)), L(D.pos(1))
        k = O.KroneckerProductLinearOperator(O.DenseLinearOperator(a), O.DenseLinearOperator(b))
        return O.KroneckerProductAddedDiagLinearOperator(k, O.ConstantDiagLinearOperator(d, diag_shape=6)), {"a": a, "b": b, "diag": d}

    @reg("Sum")
    def _(D, L):
        a, b = L(D.psd()), L(D.psd())
        return O.SumLinearOperator(O.DenseLinearOperator(a), O.DenseLinearOperator(b)), {"a": a, "b": b}

    @reg("PsdSum")
    def _(D, L):
        a, r = L(D.psd()), L(D.mat(D.n, 2))
        return O.PsdSumLinearOperator(O.DenseLinearOperator(a), O.RootLinearOperator(r)), {"a": a, "root": r}

    @reg("Matmul", psd=False)
    def _(D, L):
        a, b = L(D.psd()), L(D.psd())
        return O.MatmulLinearOperator(O.DenseLinearOperator(a), O.DenseLinearOperator(b)), {"a": a, "b": b}

    @reg("Mul")
    def _(D, L):
        a, b = L(D.mat(D.n, 2)), L(D.mat(D.n, 2))
        return O.MulLinearOperator(O.RootLinearOperator(a), O.RootLinearOperator(b)).add_jitter(1.0), {"a": a, "b": b}

    @reg("ConstantMul")
    def _(D, L):
        a, c = L(D.psd()), L(D.pos(1).squeeze(0))
        return O.ConstantMulLinearOperator(O.DenseLinearOperator(a), c), {"tensor": a, "const": c}

    @reg("BlockDiag")
    def _(D, L):
        a = L(torch.stack([D.psd(3), D.psd(3)]))
        return O.BlockDiagLinearOperator(O.DenseLinearOperator(a)), {"blocks": a}

    @reg("BlockInterleaved")
    def _(D, L):
        a = L(torch.stack([D.psd(3), D.psd(3)]))
        return O.BlockInterleavedLinearOperator(O.DenseLinearOperator(a)), {"blocks": a}

    @reg("SumBatch")
    def _(D, L):
        a = L(torch.stack([D.psd(), D.psd()]))
        return O.SumBatchLinearOperator(O.DenseLinearOperator(a)), {"blocks": a}

    @reg("BatchRepeat")
    def _(D, L):
        a = L(D.psd())
        return O.BatchRepeatLinearOperator(O.DenseLinearOperator(a), torch.Size([2])), {"tensor": a}

    @reg("Cat", psd=False)
    def _(D, L):
        a, b = L(D.mat(2, D.n)), L(D.mat(3, D.n))
        return O.CatLinearOperator(O.DenseLinearOperator(a), O.DenseLinearOperator(b), dim=-2), {"a": a, "b": b}

    @reg("Interpolated")
    def _(D, L):
        a = L(D.psd(4))
        li = L(torch.tensor([[0, 1], [1, 2], [2, 3], [3, 0], [0, 2]]))
        lv = L(D.pos(5, 2))
        ri, rv = L(li.clone() if li.dim() == 2 else li[0].clone()), L(lv.clone() if lv.dim() == 2 else lv[0].clone())
        return O.InterpolatedLinearOperator(O.DenseLinearOperator(a), li, lv, ri, rv).add_jitter(1.0), \
            {"base": a, "left_idx": li, "left_val": lv, "right_idx": ri, "right_val": rv}

    @reg("Masked", psd=False)
    def _(D, L):
        a = L(D.psd())
        m = L(torch.tensor([True, False, True, True, False][:D.n]))
        if m.dim() > 1:
            m = m[0]
        return O.MaskedLinearOperator(O.DenseLinearOperator(a), m, m), {"tensor": a, "mask": m}

    @reg("Permutation", psd=False)
    def _(D, L):
        p = L(torch.tensor([2, 0, 1, 4, 3][:D.n]))
        return O.PermutationLinearOperator(p), {"perm": p}

    @reg("Identity")
    def _(D, L):
        return O.IdentityLinearOperator(D.n, dtype=torch.float64), {}

    @reg("Zero", psd=False)
    def _(D, L):
        return O.ZeroLinearOperator(D.n, D.n, dtype=torch.float64), {}

    @reg("KernelLO")
    def _(D, L):
        x = L(D.mat(D.n, 2))
        ls = L(D.pos(1, 1))

        def covar(x1, x2, lengthscale):
            return torch.exp(-0.5 * torch.cdist(x1 / lengthscale, x2 / lengthscale) ** 2)
        return O.KernelLinearOperator(x, x, covar, lengthscale=ls, num_nonbatch_dimensions={"lengthscale": 2}).add_jitter(0.5), {"x": x, "ls": ls}

    @reg("LowRankRoot", psd=False)
    def _(D, L):
        r = L(D.mat(D.n, 2))
        return O.LowRankRootLinearOperator(r), {"root": r}

    @reg("SumKronecker")
    def _(D, L):
        a, b, c, d = L(D.psd(2)), L(D.psd(3)), L(D.psd(2)), L(D.psd(3))
        k1 = O.KroneckerProductLinearOperator(O.DenseLinearOperator(a), O.DenseLinearOperator(b))
        k2 = O.KroneckerProductLinearOperator(O.DenseLinearOperator(c), O.DenseLinearOperator(d))
        return O.SumKroneckerLinearOperator(k1, k2), {"a": a, "b": b, "c": c, "d": d}

    # ---- nestings whose inner `_matmul` may return (a view of) its argument: Identity / Zero inside every wrapper
    def ident(n, batch=()):
        return O.IdentityLinearOperator(n, batch_shape=torch.Size(batch), dtype=torch.float64)

    def nest(name, psd=True):
        def deco(f):
            B[name] = (f, psd)
            NESTED.add(name)
            return f
        return deco

    @nest("AddedDiag(Triangular(Identity))")
    def _(D, L):
        d = L(D.pos(D.n))
        return O.AddedDiagLinearOperator(O.TriangularLinearOperator(ident(D.n, d.shape[:-1])), O.DiagLinearOperator(d)), {"diag": d}

    @nest("AddedDiag(Kronecker(Identity,Identity))")
    def _(D, L):
        d = L(D.pos(6))
        k = O.KroneckerProductLinearOperator(ident(2, d.shape[:-1]), ident(3, d.shape[:-1]))
        return O.AddedDiagLinearOperator(k, O.DiagLinearOperator(d)), {"diag": d}

    @nest("AddedDiag(BatchRepeat1(Identity))")
    def _(D, L):
        d = L(D.pos(1, D.n))
        return O.AddedDiagLinearOperator(O.BatchRepeatLinearOperator(ident(D.n), torch.Size([1])), O.DiagLinearOperator(d)), {"diag": d}

    @nest("AddedDiag(Root(Identity))")
    def _(D, L):
        d = L(D.pos(D.n))
        return O.AddedDiagLinearOperator(O.RootLinearOperator(ident(D.n, d.shape[:-1])), O.DiagLinearOperator(d)), {"diag": d}

    @nest("Identity.root_decomposition()+Diag")
    def _(D, L):
        d = L(D.pos(D.n))
        return ident(D.n, d.shape[:-1]).root_decomposition() + O.DiagLinearOperator(d), {"diag": d}

    @nest("Sum(Identity,Dense)")
    def _(D, L):
        a = L(D.psd())
        return O.SumLinearOperator(ident(D.n, a.shape[:-2]), O.DenseLinearOperator(a)), {"a": a}

    @nest("Sum(Identity,Identity)")
    def _(D, L):
        return O.SumLinearOperator(ident(D.n), ident(D.n)), {}

    @nest("PsdSum(Identity,Root)")
    def _(D, L):
        r = L(D.mat(D.n, 2))
        return O.PsdSumLinearOperator(ident(D.n, r.shape[:-2]), O.RootLinearOperator(r)), {"root": r}

    @nest("ConstantMul(Identity)")
    def _(D, L):
        c = D.pos(1).squeeze(0)
        return O.ConstantMulLinearOperator(ident(D.n), c), {"const": c}

    @nest("Matmul(Identity,Dense)", psd=False)
    def _(D, L):
        a = L(D.psd())
        return O.MatmulLinearOperator(ident(D.n, a.shape[:-2]), O.DenseLinearOperator(a)), {"a": a}

    @nest("Matmul(Dense,Identity)", psd=False)
    def _(D, L):
        a = L(D.psd())
        return O.MatmulLinearOperator(O.DenseLinearOperator(a), ident(D.n, a.shape[:-2])), {"a": a}

    @nest("Matmul(Identity,Identity)", psd=False)
    def _(D, L):
        return O.MatmulLinearOperator(ident(D.n), ident(D.n)), {}

    @nest("Kronecker(Identity,Dense)")
    def _(D, L):
        b = L(D.psd(3))
        return O.KroneckerProductLinearOperator(ident(2, b.shape[:-2]), O.DenseLinearOperator(b)), {"b": b}

    @nest("Kronecker(Dense,Identity)")
    def _(D, L):
        a = L(D.psd(2))
        return O.KroneckerProductLinearOperator(O.DenseLinearOperator(a), ident(3, a.shape[:-2])), {"a": a}

    @nest("Kronecker(Identity,Identity)")
    def _(D, L):
        return O.KroneckerProductLinearOperator(ident(2), ident(3)), {}

    @nest("Root(Identity)")
    def _(D, L):
        return O.RootLinearOperator(ident(D.n)), {}

    @nest("Triangular(Identity)", psd=False)
    def _(D, L):
        return O.TriangularLinearOperator(ident(D.n)), {}

    @nest("Chol(Triangular(Identity))")
    def _(D, L):
        return O.CholLinearOperator(O.TriangularLinearOperator(ident(D.n))), {}

    @nest("BatchRepeat1(Identity)")
    def _(D, L):
        return O.BatchRepeatLinearOperator(ident(D.n), torch.Size([1])), {}

    @nest("BatchRepeat2(Identity)")
    def _(D, L):
        return O.BatchRepeatLinearOperator(ident(D.n), torch.Size([2])), {}

    @nest("BlockDiag(Identity)")
    def _(D, L):
        return O.BlockDiagLinearOperator(ident(3, (2,))), {}

    @nest("BlockDiag1(Identity)")
    def _(D, L):
        return O.BlockDiagLinearOperator(ident(D.n, (1,))), {}

    @nest("BlockInterleaved(Identity)")
    def _(D, L):
        return O.BlockInterleavedLinearOperator(ident(3, (2,))), {}

    @nest("BlockInterleaved1(Identity)")
    def _(D, L):
        return O.BlockInterleavedLinearOperator(ident(D.n, (1,))), {}

    @nest("SumBatch1(Identity)")
    def _(D, L):
        return O.SumBatchLinearOperator(ident(D.n, (1,))), {}

    @nest("Interpolated(Identity)")
    def _(D, L):
        return O.InterpolatedLinearOperator(ident(D.n)).add_jitter(1.0), {}

    @nest("Masked(Identity)", psd=False)
    def _(D, L):
        m = torch.tensor([True, False, True, True, False][:D.n])
        return O.MaskedLinearOperator(ident(D.n), m, m), {"mask": m}

    @nest("Cat(Identity,Dense)", psd=False)
    def _(D, L):
        b = L(D.mat(3, D.n))
        return O.CatLinearOperator(ident(D.n, b.shape[:-2]), O.DenseLinearOperator(b), dim=-2), {"b": b}

    @nest("Mul(Root(Identity),Root)")
    def _(D, L):
        b = L(D.mat(D.n, 2))
        return O.MulLinearOperator(O.RootLinearOperator(ident(D.n, b.shape[:-2])), O.RootLinearOperator(b)).add_jitter(1.0), {"b": b}

    @nest("ConstantDiag1", psd=True)
    def _(D, L):
        d = torch.ones(1, dtype=torch.float64)
        return O.ConstantDiagLinearOperator(d, diag_shape=D.n), {"diag": d}

    # ---- rectangular and unequal-batch instances (shape bookkeeping of an existing operator must survive every operation)
    def rect(name):
        def deco(f):
            B[name] = (f, False)
            RECT.add(name)
            return f
        return deco

    @rect("Zero(3x5)")
    def _(D, L):
        return O.ZeroLinearOperator(3, 5, dtype=torch.float64), {}

    @rect("Zero(2,3,4,5)")
    def _(D, L):
        return O.ZeroLinearOperator(2, 3, 4, 5, dtype=torch.float64), {}

    @rect("Zero(2,4,4)")
    def _(D, L):
        return O.ZeroLinearOperator(2, 4, 4, dtype=torch.float64), {}

    @rect("Dense(3x5)")
    def _(D, L):
        a = L(D.mat(3, 5))
        return O.DenseLinearOperator(a), {"tensor": a}

    @rect("Dense(2,3,4,5)")
    def _(D, L):
        a = D.mat(2, 3, 4, 5)
        return O.DenseLinearOperator(a), {"tensor": a}

    @rect("Diag(2,3,4)")
    def _(D, L):
        d = D.pos(2, 3, 4)
        return O.DiagLinearOperator(d), {"diag": d}

    @rect("Identity(2,3|4)")
    def _(D, L):
        return O.IdentityLinearOperator(4, batch_shape=torch.Size([2, 3]), dtype=torch.float64), {}

    @rect("Toeplitz(2,3,4)")
    def _(D, L):
        c = D.pos(2, 3, 4) + torch.tensor([4.0, 0, 0, 0], dtype=torch.float64)
        return O.ToeplitzLinearOperator(c), {"column": c}

    @rect("Triangular(2,3,4,4)")
    def _(D, L):
        a = torch.tril(D.mat(2, 3, 4, 4)) + 3 * torch.eye(4, dtype=torch.float64)
        return O.TriangularLinearOperator(a), {"tensor": a}

    @rect("Matmul(3x4,4x5)")
    def _(D, L):
        a, b = L(D.mat(3, 4)), L(D.mat(4, 5))
        return O.MatmulLinearOperator(O.DenseLinearOperator(a), O.DenseLinearOperator(b)), {"a": a, "b": b}

    @rect("Sum(3x5)")
    def _(D, L):
        a, b = L(D.mat(3, 5)), L(D.mat(3, 5))
        return O.SumLinearOperator(O.DenseLinearOperator(a), O.DenseLinearOperator(b)), {"a": a, "b": b}

    @rect("Sum(Zero,Dense)(3x5)")
    def _(D, L):
        a = L(D.mat(3, 5))
        return O.SumLinearOperator(O.ZeroLinearOperator(*a.shape, dtype=torch.float64), O.DenseLinearOperator(a)), {"a": a}

    @rect("ConstantMul(3x5)")
    def _(D, L):
        a, c = L(D.mat(3, 5)), D.pos(1).squeeze(0)
        return O.ConstantMulLinearOperator(O.DenseLinearOperator(a), c), {"tensor": a, "const": c}

    @rect("Kronecker(2x3,2x2)")
    def _(D, L):
        a, b = L(D.mat(2, 3)), L(D.mat(2, 2))
        return O.KroneckerProductLinearOperator(O.DenseLinearOperator(a), O.DenseLinearOperator(b)), {"a": a, "b": b}

    @rect("BlockInterleaved(3,2|3x4)")
    def _(D, L):
        a = D.mat(3, 2, 3, 4)
        return O.BlockInterleavedLinearOperator(O.DenseLinearOperator(a)), {"blocks": a}

    @rect("SumBatch(2,3|4x5)")
    def _(D, L):
        a = D.mat(2, 3, 4, 5)
        return O.SumBatchLinearOperator(O.DenseLinearOperator(a)), {"blocks": a}

    @rect("BatchRepeat(2|4x5 x(3,1))")
    def _(D, L):
        a = D.mat(2, 4, 5)
        return O.BatchRepeatLinearOperator(O.DenseLinearOperator(a), torch.Size([3, 1])), {"tensor": a}

    @rect("BatchRepeat(Zero 3x5 x(2,))")
    def _(D, L):
        return O.BatchRepeatLinearOperator(O.ZeroLinearOperator(3, 5, dtype=torch.float64), torch.Size([2])), {}

    @rect("Cat(batch dim 0)")
    def _(D, L):
        a, b = D.mat(2, 3, 5), D.mat(1, 3, 5)
        return O.CatLinearOperator(O.DenseLinearOperator(a), O.DenseLinearOperator(b), dim=0), {"a": a, "b": b}

    @rect("Cat(cols)")
    def _(D, L):
        a, b = L(D.mat(4, 2)), L(D.mat(4, 3))
        return O.CatLinearOperator(O.DenseLinearOperator(a), O.DenseLinearOperator(b), dim=-1), {"a": a, "b": b}

    @rect("Interpolated(5x3)")
    def _(D, L):
        a = L(D.psd(4))
        li, lv = torch.tensor([[0, 1], [1, 2], [2, 3], [3, 0], [0, 2]]), D.pos(5, 2)
        ri, rv = torch.tensor([[0, 1], [1, 2], [2, 3]]), D.pos(3, 2)
        if a.dim() > 2:
            li, lv, ri, rv = li.expand(2, 5, 2), lv.expand(2, 5, 2), ri.expand(2, 3, 2), rv.expand(2, 3, 2)
        return O.InterpolatedLinearOperator(O.DenseLinearOperator(a), li, lv, ri, rv), \
            {"base": a, "left_idx": li, "left_val": lv, "right_idx": ri, "right_val": rv}

    @rect("Masked(3x4 of 5x5)")
    def _(D, L):
        a = L(D.psd())
        rm, cm = torch.tensor([True, False, True, True, False]), torch.tensor([True, True, False, True, True])
        return O.MaskedLinearOperator(O.DenseLinearOperator(a), rm, cm), {"tensor": a, "row_mask": rm, "col_mask": cm}

    @rect("LowRankRoot(2,3|5x2)")
    def _(D, L):
        r = D.mat(2, 3, 5, 2)
        return O.LowRankRootLinearOperator(r), {"root": r}

    @rect("KernelLO(4x3)")
    def _(D, L):
        x1, x2, ls = L(D.mat(4, 2)), L(D.mat(3, 2)), D.pos(1, 1)

        def covar(x1, x2, lengthscale):
            return torch.exp(-0.5 * torch.cdist(x1 / lengthscale, x2 / lengthscale) ** 2)
        return O.KernelLinearOperator(x1, x2, covar, lengthscale=ls, num_nonbatch_dimensions={"lengthscale": 2}), {"x1": x1, "x2": x2, "ls": ls}

    @rect("Mul(2,3|4x4)")
    def _(D, L):
        a, b = D.mat(2, 3, 4, 2), D.mat(2, 3, 4, 2)
        return O.MulLinearOperator(O.RootLinearOperator(a), O.RootLinearOperator(b)), {"a": a, "b": b}

    @rect("Permutation(2,3|4)")
    def _(D, L):
        p = torch.tensor([2, 0, 1, 3]).expand(2, 3, 4).contiguous()
        return O.PermutationLinearOperator(p), {"perm": p}

    return B


def operations():
    """name -> (needs_psd, f(op, D, L, args) -> result); args dict collects caller-owned argument tensors"""
    import linear_operator
    from linear_operator import settings
    OPS = {}

    def reg(name, psd=False):
        def deco(f):
            OPS[name] = (psd, f)
            return f
        return deco

    def n_of(op):
        return op.shape[-1]

    def bshape(op):
        return tuple(op.shape[:-2])

    @reg("matmul")
    def _(op, D, L, A):
        A["rhs"] = L(D.mat(*bshape(op), n_of(op), 2)) if False else L(D.mat(n_of(op), 2))
        return op.matmul(A["rhs"])

    @reg("matmul_vec")
    def _(op, D, L, A):
        A["rhs"] = L(D.mat(n_of(op)))
        if A["rhs"].dim() > 1:
            A["rhs"] = A["rhs"][0]
        return op @ A["rhs"]

    @reg("rmatmul")
    def _(op, D, L, A):
        A["lhs"] = L(D.mat(2, op.shape[-2]))
        return A["lhs"] @ op

    @reg("t_matmul")
    def _(op, D, L, A):
        A["rhs"] = L(D.mat(op.shape[-2], 2))
        return op._t_matmul(A["rhs"])

    @reg("to_dense")
    def _(op, D, L, A):
        return op.to_dense()

    @reg("diagonal")
    def _(op, D, L, A):
        return op.diagonal()

    @reg("getitem_tensor_idx")
    def _(op, D, L, A):
        A["i"], A["j"] = L(torch.tensor([0, 2, 1])), L(torch.tensor([1, 1, 0]))
        if A["i"].dim() > 1:
            A["i"], A["j"] = A["i"][0], A["j"][0]
        return op[..., A["i"], A["j"]]

    @reg("getitem_rows")
    def _(op, D, L, A):
        A["i"] = L(torch.tensor([0, 2]))
        if A["i"].dim() > 1:
            A["i"] = A["i"][0]
        return op[..., A["i"], :].to_dense()

    @reg("getitem_slice")
    def _(op, D, L, A):
        return op[..., 1:3, :2].to_dense()

    @reg("add_diagonal")
    def _(op, D, L, A):
        A["d"] = L(D.pos(n_of(op)))
        if A["d"].dim() > 1:
            A["d"] = A["d"][0]
        return op.add_diagonal(A["d"]).to_dense()

    @reg("add_jitter")
    def _(op, D, L, A):
        return op.add_jitter(0.1).to_dense()

    @reg("add_jitter_tensor")
    def _(op, D, L, A):
        # extension session 5: the jitter handed over as a 0-d tensor (what gpytorch does); the annotation says `float`, so the
        # static translator treats the formal as a python scalar — this cell and the site census cover that blind spot
        A["jit"] = D.pos(1).reshape(())
        return op.add_jitter(A["jit"]).to_dense()

    @reg("add_tensor")
    def _(op, D, L, A):
        A["t"] = L(D.mat(*op.shape[-2:]))
        return (op + A["t"]).to_dense()

    @reg("mul_const")
    def _(op, D, L, A):
        A["c"] = L(D.pos(1).squeeze(0)) if False else D.pos(1).squeeze(0)
        return (op * A["c"]).to_dense()

    @reg("mul_op", psd=True)
    def _(op, D, L, A):
        return (op * op).to_dense()

    @reg("sum_transpose")
    def _(op, D, L, A):
        return op.mT.to_dense() + op.sum(-1).unsqueeze(-1)

    @reg("solve", psd=True)
    def _(op, D, L, A):
        A["rhs"] = L(D.mat(n_of(op), 2))
        return op.solve(A["rhs"])

    @reg("solve_left", psd=True)
    def _(op, D, L, A):
        A["rhs"], A["lhs"] = L(D.mat(n_of(op), 2)), L(D.mat(3, n_of(op)))
        return op.solve(A["rhs"], A["lhs"])

    @reg("solve_vec_cg", psd=True)
    def _(op, D, L, A):
        A["rhs"] = L(D.mat(n_of(op)))
        if A["rhs"].dim() > 1:
            A["rhs"] = A["rhs"][0]
        with settings.max_cholesky_size(0), settings.cg_tolerance(1e-8):
            return op.solve(A["rhs"])

    @reg("solve_cg", psd=True)
    def _(op, D, L, A):
        A["rhs"] = L(D.mat(n_of(op), 2))
        with settings.max_cholesky_size(0), settings.max_preconditioner_size(2), settings.min_preconditioning_size(1):
            return op.solve(A["rhs"])

    @reg("inv_quad", psd=True)
    def _(op, D, L, A):
        A["rhs"] = L(D.mat(n_of(op), 2))
        return op.inv_quad(A["rhs"])

    @reg("inv_quad_logdet", psd=True)
    def _(op, D, L, A):
        A["rhs"] = L(D.mat(n_of(op), 2))
        return op.inv_quad_logdet(A["rhs"], logdet=True)

    @reg("inv_quad_logdet_cg", psd=True)
    def _(op, D, L, A):
        A["rhs"] = L(D.mat(n_of(op), 2))
        with settings.max_cholesky_size(0), settings.num_trace_samples(4), settings.max_preconditioner_size(2), \
                settings.min_preconditioning_size(1), settings.skip_logdet_forward(False):
            return op.inv_quad_logdet(A["rhs"], logdet=True)

    @reg("inv_quad_logdet_cg_probes", psd=True)
    def _(op, D, L, A):
        A["rhs"] = L(D.mat(n_of(op), 2))
        A["probes"] = D.mat(*bshape(op), n_of(op), 3)
        with settings.max_cholesky_size(0), settings.deterministic_probes(True):
            settings.deterministic_probes.probe_vectors = A["probes"]
            try:
                return op.inv_quad_logdet(A["rhs"], logdet=True)
            finally:
                settings.deterministic_probes.probe_vectors = None

    @reg("logdet", psd=True)
    def _(op, D, L, A):
        return op.logdet()

    @reg("cholesky", psd=True)
    def _(op, D, L, A):
        return op.cholesky().to_dense()

    @reg("root_decomposition", psd=True)
    def _(op, D, L, A):
        return op.root_decomposition().root.to_dense()

    @reg("root_decomposition_lanczos", psd=True)
    def _(op, D, L, A):
        return op.root_decomposition(method="lanczos").root.to_dense()

    @reg("root_decomposition_symeig", psd=True)
    def _(op, D, L, A):
        return op.root_decomposition(method="symeig").root.to_dense()

    @reg("root_decomposition_pivchol", psd=True)
    def _(op, D, L, A):
        return op.root_decomposition(method="pivoted_cholesky").root.to_dense()

    @reg("root_inv_decomposition", psd=True)
    def _(op, D, L, A):
        return op.root_inv_decomposition().root.to_dense()

    @reg("root_inv_decomposition_lanczos", psd=True)
    def _(op, D, L, A):
        A["init"] = D.mat(*bshape(op), n_of(op), 1)
        with settings.max_cholesky_size(0):
            return op.root_inv_decomposition(initial_vectors=A["init"], method="lanczos").root.to_dense()

    @reg("diagonalization", psd=True)
    def _(op, D, L, A):
        e, v = op.diagonalization()
        return e

    @reg("diagonalization_lanczos", psd=True)
    def _(op, D, L, A):
        e, v = op.diagonalization(method="lanczos")
        return e

    @reg("svd")
    def _(op, D, L, A):
        return op.svd()[1]

    @reg("eigh", psd=True)
    def _(op, D, L, A):
        return op.eigh()[0]

    @reg("add_low_rank", psd=True)
    def _(op, D, L, A):
        A["lr"] = L(D.mat(n_of(op), 2))
        return op.add_low_rank(A["lr"]).to_dense()

    @reg("cat_rows", psd=True)
    def _(op, D, L, A):
        A["cross"], A["new"] = L(0.1 * D.mat(2, n_of(op))), L(D.psd(2, shift=3.0))
        return op.cat_rows(A["cross"], A["new"]).to_dense()

    @reg("zero_mean_mvn_samples", psd=True)
    def _(op, D, L, A):
        torch.manual_seed(0)
        return op.zero_mean_mvn_samples(3)

    @reg("sqrt_inv_matmul", psd=True)
    def _(op, D, L, A):
        A["rhs"], A["lhs"] = L(D.mat(n_of(op), 2)), L(D.mat(3, n_of(op)))
        return op.sqrt_inv_matmul(A["rhs"], A["lhs"])

    @reg("pivoted_cholesky", psd=True)
    def _(op, D, L, A):
        return op.pivoted_cholesky(rank=3)

    @reg("backward_matmul")
    def _(op, D, L, A):
        A["rhs"] = L(D.mat(n_of(op), 2)).requires_grad_(True) if False else L(D.mat(n_of(op), 2))
        A["g"] = None
        reps = [t for t in op.representation() if t.is_floating_point()]
        op2 = op.requires_grad_(True) if False else op
        res = op2.matmul(A["rhs"])
        return res

    @reg("backward_inv_quad_logdet", psd=True)
    def _(op, D, L, A):
        A["rhs"] = L(D.mat(n_of(op), 2))
        leaf = [t for t in op.representation() if t.is_floating_point() and t.is_leaf]
        if not leaf:
            return None
        for t in leaf:
            t.requires_grad_(True)
        try:
            iq, ld = op.inv_quad_logdet(A["rhs"], logdet=True)
            (iq.sum() + ld.sum()).backward()
        finally:
            for t in leaf:
                t.requires_grad_(False)
                t.grad = None
        return None

    @reg("backward_solve_cg", psd=True)
    def _(op, D, L, A):
        A["rhs"] = L(D.mat(n_of(op), 2))
        leaf = [t for t in op.representation() if t.is_floating_point() and t.is_leaf]
        if not leaf:
            return None
        for t in leaf:
            t.requires_grad_(True)
        try:
            with settings.max_cholesky_size(0):
                op.solve(A["rhs"]).sum().backward()
        finally:
            for t in leaf:
                t.requires_grad_(False)
                t.grad = None
        return None

    @reg("matmul_identity_rhs")
    def _(op, D, L, A):
        A["rhs"] = L(torch.eye(n_of(op), dtype=torch.float64))
        return op.matmul(A["rhs"])

    @reg("backward_sqrt_inv_matmul", psd=True)
    def _(op, D, L, A):
        A["rhs"], A["lhs"] = L(D.mat(n_of(op), 2)), L(D.mat(3, n_of(op)))
        leaf = [t for t in op.representation() if t.is_floating_point() and t.is_leaf]
        for t in leaf:
            t.requires_grad_(True)
        rhs = A["rhs"]
        if not leaf:
            if not rhs.is_leaf:
                return None
            rhs.requires_grad_(True)
        try:
            r, q = op.sqrt_inv_matmul(rhs, A["lhs"])
            (r.sum() + q.sum()).backward()
            r2 = op.sqrt_inv_matmul(rhs)
            r2.sum().backward()
        finally:
            for t in leaf + [rhs]:
                t.requires_grad_(False)
                t.grad = None
        return None

    @reg("root_inv_decomposition_lanczos_test_vectors", psd=True)
    def _(op, D, L, A):
        A["init"] = D.mat(*bshape(op), n_of(op), 1)
        A["test"] = D.mat(*bshape(op), n_of(op), 3)
        with settings.max_cholesky_size(0):
            return op.root_inv_decomposition(initial_vectors=A["init"], test_vectors=A["test"], method="lanczos").root.to_dense()

    @reg("solve_precond_closure", psd=True)
    def _(op, D, L, A):
        A["rhs"] = L(D.mat(n_of(op), 2))
        with settings.max_cholesky_size(0), settings.max_cg_iterations(25):
            return op._solve(A["rhs"].expand(*bshape(op), n_of(op), 2), preconditioner=lambda x: x, num_tridiag=0)

    @reg("solve_tridiag", psd=True)
    def _(op, D, L, A):
        A["rhs"] = L(D.mat(n_of(op), 3))
        with settings.max_cholesky_size(0), settings.max_cg_iterations(25):
            return op._solve(A["rhs"].expand(*bshape(op), n_of(op), 3), preconditioner=None, num_tridiag=2)

    @reg("add_diagonal_expanded_scalar")
    def _(op, D, L, A):
        A["d"] = D.pos(1).expand(n_of(op))
        A["d1"] = D.pos(1)
        return op.add_diagonal(A["d"]).to_dense() + op.add_diagonal(A["d1"]).to_dense()

    @reg("ciq_given_shifts", psd=True)
    def _(op, D, L, A):
        import importlib
        ciq = importlib.import_module("linear_operator.utils.contour_integral_quad").contour_integral_quad
        A["rhs"] = L(D.mat(n_of(op), 2))
        with settings.max_cholesky_size(0):
            s0, w, _, sh = ciq(op, A["rhs"], inverse=True, num_contour_quadrature=5, max_lanczos_iter=5)
            A["w"], A["sh"] = w.clone(), sh.clone()
            return ciq(op, A["rhs"], inverse=True, weights=A["w"], shifts=A["sh"], num_contour_quadrature=5,
                       max_lanczos_iter=5, shift_offset=0.25)

    # ---- shape-manipulating operations (a transposed / summed / permuted *result* must not disturb the operand)
    def nb(op):
        return len(op.shape) - 2

    @reg("mT")
    def _(op, D, L, A):
        return op.mT.to_dense()

    @reg("transpose_dims")
    def _(op, D, L, A):
        r = op.transpose(-1, -2).to_dense()
        if nb(op) >= 2:
            r = op.transpose(0, 1).to_dense()
        if nb(op) >= 1:
            r = op.transpose(-2, -1).transpose(-1, -2).to_dense()
        return r

    @reg("sum_rows")
    def _(op, D, L, A):
        return op.sum(-2)

    @reg("sum_cols")
    def _(op, D, L, A):
        return op.sum(-1)

    @reg("sum_batch_and_all")
    def _(op, D, L, A):
        r = op.sum()
        if nb(op) >= 1:
            r = op.sum(0)
            r = r.to_dense() if hasattr(r, "to_dense") else r
        return r

    @reg("permute_batch")
    def _(op, D, L, A):
        if nb(op) >= 2:
            return op.permute(1, 0, -2, -1).to_dense()
        return op.permute(*range(nb(op)), -2, -1).to_dense()

    @reg("unsqueeze_squeeze_expand")
    def _(op, D, L, A):
        u = op.unsqueeze(0)
        r = u.squeeze(0).to_dense()
        return u.expand(3, *op.shape).to_dense() + r

    @reg("repeat")
    def _(op, D, L, A):
        return op.repeat(2, *([1] * len(op.shape))).to_dense()

    @reg("getitem_batch")
    def _(op, D, L, A):
        if nb(op) >= 1:
            return op[0].to_dense() + op[-1].to_dense()
        return op[:, :].to_dense()

    @reg("clone_detach_convert")
    def _(op, D, L, A):
        c = op.clone()
        d = op.detach()
        e = op.to(torch.float64)
        f = op.float()
        return op.representation_tree()(*op.representation()).to_dense() + c.to_dense() + d.to_dense() + e.to_dense() + f.to_dense().double()

    @reg("arith_ops")
    def _(op, D, L, A):
        return (op + op).to_dense() + (op * -1.0).to_dense() + (op / 2.0).to_dense() + (op - op).to_dense() + (op * 3.0).to_dense()

    @reg("matmul_op_op")
    def _(op, D, L, A):
        return (op @ op.mT).to_dense() + torch.matmul(op.mT, op).to_dense().sum()

    @reg("size_queries")
    def _(op, D, L, A):
        return (op.size(), op.shape, op.dim(), op.numel(), op.batch_shape, op.matrix_shape, op.size(-1), op.size(-2), op.is_square,
                op.dtype, op.device, op.requires_grad, repr(op), len(op.representation()))

    # ---- tensor indices with NEGATIVE entries (normalised by __getitem__ for every index component)
    def idx_t(vals, L, expanded0=False):
        t = L(torch.tensor(vals))
        while t.dim() > 1:
            t = t[0]
        return t

    @reg("getitem_neg_tensor_rows")
    def _(op, D, L, A):
        m = op.shape[-2]
        A["i"] = idx_t([0, -1, min(2, m - 1), -m], L)
        return op[..., A["i"], :].to_dense()

    @reg("getitem_neg_tensor_cols")
    def _(op, D, L, A):
        n = op.shape[-1]
        A["j"] = idx_t([-1, 0, -n, min(1, n - 1)], L)
        return op[..., :, A["j"]].to_dense()

    @reg("getitem_neg_tensor_both")
    def _(op, D, L, A):
        m, n = op.shape[-2:]
        A["i"], A["j"] = idx_t([0, -1, -m], L), idx_t([-n, 0, -1], L)
        return op[..., A["i"], A["j"]]

    @reg("getitem_neg_tensor_row_int_col")
    def _(op, D, L, A):
        m = op.shape[-2]
        A["i"] = idx_t([-1, 0, -2], L)
        r = op[..., A["i"], -1]
        return r.to_dense() if hasattr(r, "to_dense") else r

    @reg("getitem_neg_tensor_stride0_and_view")
    def _(op, D, L, A):
        m, n = op.shape[-2:]
        A["i"] = torch.tensor([-1]).expand(3)                    # stride-0 index tensor
        A["buf"] = torch.tensor([5, -1, -n, 0, -2, 7])
        A["j"] = A["buf"][1:4]                                   # view into a larger caller buffer
        r1 = op[..., A["i"], :]
        r2 = op[..., :, A["j"]]
        return r1.to_dense() + r2.to_dense().sum()

    @reg("getitem_neg_tensor_batch")
    def _(op, D, L, A):
        if len(op.shape) < 3:
            return None
        b = op.shape[0]
        A["b"] = idx_t([-1, 0, -b], L)
        m, n = op.shape[-2:]
        A["i"], A["j"] = idx_t([-1, 0, -m], L), idx_t([0, -n, -1], L)
        r1 = op[A["b"]]
        r2 = op[(A["b"],) + (slice(None),) * (len(op.shape) - 3) + (A["i"], A["j"])]
        r3 = op[(A["b"],) + (slice(None),) * (len(op.shape) - 3) + (A["i"], slice(None))]
        return r1.to_dense().sum() + r2.sum() + r3.to_dense().sum()

    @reg("getitem_neg_2d_index_tensor")
    def _(op, D, L, A):
        m, n = op.shape[-2:]
        A["i"] = L(torch.tensor([[0, -1], [-m, 0]]))
        if A["i"].dim() > 2:
            A["i"] = A["i"][0]
        A["j"] = torch.tensor([[-1], [-n]])
        return op[..., A["i"], A["j"]]

    return OPS


def utilities():
    """name -> f(D, L, A) calling a utility function; A collects caller-owned tensors"""
    from linear_operator import settings
    import importlib
    mod = lambda n: importlib.import_module("linear_operator.utils." + n)   # noqa: E731
    chol_m, interpolation, lanczos, cg_m, minres_m = mod("cholesky"), mod("interpolation"), mod("lanczos"), mod("linear_cg"), mod("minres")
    permutation, pinverse, qr, sparse, toeplitz, ciq_m = mod("permutation"), mod("pinverse"), mod("qr"), mod("sparse"), mod("toeplitz"), \
        mod("contour_integral_quad")
    import linear_operator.operators as O
    U = {}

    def reg(name, layouts=LAYOUTS):
        def deco(f):
            U[name] = (f, layouts)
            return f
        return deco

    @reg("linear_cg")
    def _(D, L, A):
        A["mat"], A["rhs"] = L(D.psd(6)), L(D.mat(6, 2))
        return cg_m.linear_cg(A["mat"].matmul, A["rhs"], max_iter=20, max_tridiag_iter=5)

    @reg("linear_cg_guess_precond_tridiag")
    def _(D, L, A):
        A["mat"], A["rhs"], A["guess"], A["pd"] = L(D.psd(6)), L(D.mat(6, 3)), L(D.mat(6, 3)), L(D.pos(6, 1))
        return cg_m.linear_cg(A["mat"].matmul, A["rhs"], n_tridiag=2, max_iter=20, max_tridiag_iter=5, initial_guess=A["guess"],
                              preconditioner=lambda x: x / A["pd"], tolerance=1e-9)

    @reg("linear_cg_tensor_closure_zero_rhs")
    def _(D, L, A):
        A["mat"], A["rhs"] = L(D.psd(6)), L(torch.cat([D.mat(6, 1), torch.zeros(6, 1, dtype=torch.float64)], -1))
        return cg_m.linear_cg(A["mat"], A["rhs"], max_iter=3, max_tridiag_iter=2, n_tridiag=1)

    @reg("minres")
    def _(D, L, A):
        A["mat"], A["rhs"] = L(D.psd(6)), L(D.mat(6, 2))
        return minres_m.minres(A["mat"].matmul, A["rhs"], max_iter=15)

    @reg("minres_shifts")
    def _(D, L, A):
        A["mat"], A["rhs"] = L(D.psd(6)), L(D.mat(6, 2))
        A["shifts"] = torch.tensor([0.0, 0.5, 2.0], dtype=torch.float64)
        return minres_m.minres(A["mat"].matmul, A["rhs"], shifts=A["shifts"], max_iter=15, value=-1)

    @reg("lanczos_tridiag")
    def _(D, L, A):
        A["mat"], A["init"] = L(D.psd(6)), L(D.mat(6, 2))
        m = A["mat"]
        return lanczos.lanczos_tridiag(m.matmul, 4, dtype=m.dtype, device=m.device, matrix_shape=m.shape[-2:],
                                       batch_shape=m.shape[:-2], init_vecs=A["init"])

    @reg("lanczos_tridiag_to_diag")
    def _(D, L, A):
        a = D.mat(4, 4)
        A["t"] = L(a + a.T)
        return lanczos.lanczos_tridiag_to_diag(A["t"])

    @reg("psd_safe_cholesky")
    def _(D, L, A):
        A["A"] = L(D.psd())
        return chol_m.psd_safe_cholesky(A["A"])

    @reg("psd_safe_cholesky_jitter_upper")
    def _(D, L, A):
        v = D.mat(5, 2)
        A["A"] = L(v @ v.T)       # rank deficient: takes the jitter path
        with settings.cholesky_max_tries(8):
            try:
                return chol_m.psd_safe_cholesky(A["A"], upper=True, jitter=1e-4)
            except Exception:
                return None

    @reg("stable_qr")
    def _(D, L, A):
        A["M"] = L(D.mat(5, 3))
        return qr.stable_qr(A["M"])

    @reg("stable_pinverse")
    def _(D, L, A):
        A["M"] = L(D.mat(5, 3))
        return pinverse.stable_pinverse(A["M"])

    @reg("toeplitz_matmul")
    def _(D, L, A):
        c = D.mat(5)
        r = D.mat(5)
        r[0] = c[0]
        A["c"], A["r"], A["t"] = L(c), L(r), L(D.mat(5, 2))
        return toeplitz.toeplitz_matmul(A["c"], A["r"], A["t"])

    @reg("sym_toeplitz_matmul")
    def _(D, L, A):
        A["c"], A["t"] = L(D.mat(5)), L(D.mat(5, 2))
        return toeplitz.sym_toeplitz_matmul(A["c"], A["t"])

    @reg("sym_toeplitz_derivative_quadratic_form")
    def _(D, L, A):
        A["l"], A["r"] = L(D.mat(2, 5)), L(D.mat(2, 5))
        return toeplitz.sym_toeplitz_derivative_quadratic_form(A["l"], A["r"])

    @reg("toeplitz_dense")
    def _(D, L, A):
        A["c"] = L(D.mat(4))
        if A["c"].dim() > 1:
            A["c"] = A["c"][0]
        return toeplitz.sym_toeplitz(A["c"])

    @reg("left_interp")
    def _(D, L, A):
        A["idx"], A["val"], A["rhs"] = L(torch.tensor([[0, 1], [1, 2], [2, 3]])), L(D.pos(3, 2)), L(D.mat(4, 2))
        return interpolation.left_interp(A["idx"], A["val"], A["rhs"])

    @reg("left_t_interp")
    def _(D, L, A):
        A["idx"], A["val"], A["rhs"] = L(torch.tensor([[0, 1], [1, 2], [2, 3]])), L(D.pos(3, 2)), L(D.mat(3, 2))
        return interpolation.left_t_interp(A["idx"], A["val"], A["rhs"], 4)

    @reg("make_sparse_from_indices_and_values", layouts=["contig", "transposed", "slice"])
    def _(D, L, A):
        A["idx"], A["val"] = L(torch.tensor([[0, 1], [1, 2], [2, 3]])), L(D.pos(3, 2))
        return sparse.make_sparse_from_indices_and_values(A["idx"], A["val"], 4)

    @reg("make_sparse_from_indices_and_values_allzero", layouts=["contig", "slice"])
    def _(D, L, A):
        A["idx"], A["val"] = L(torch.tensor([[0, 1], [1, 2], [2, 3]])), L(torch.zeros(3, 2, dtype=torch.float64))
        return sparse.make_sparse_from_indices_and_values(A["idx"], A["val"], 4)

    def mk_sparse(D):
        i = torch.tensor([[0, 1, 2, 3], [1, 0, 3, 2]])
        return torch.sparse_coo_tensor(i, D.pos(4), (4, 4)).coalesce()

    @reg("sparse_getitem", layouts=["contig"])
    def _(D, L, A):
        A["s"] = mk_sparse(D)
        return sparse.sparse_getitem(A["s"], (slice(0, 2), slice(None)))

    @reg("sparse_getitem_int", layouts=["contig"])
    def _(D, L, A):
        A["s"] = mk_sparse(D)
        return sparse.sparse_getitem(A["s"], (1, slice(None)))

    @reg("sparse_getitem_empty_slice", layouts=["contig"])
    def _(D, L, A):
        i = torch.tensor([[0, 1], [1, 0]])
        A["s"] = torch.sparse_coo_tensor(i, D.pos(2), (4, 4)).coalesce()
        return sparse.sparse_getitem(A["s"], (slice(None), slice(2, 4)))

    @reg("sparse_getitem_empty_first_dim", layouts=["contig"])
    def _(D, L, A):
        i = torch.tensor([[0, 1], [1, 0]])
        A["s"] = torch.sparse_coo_tensor(i, D.pos(2), (4, 4)).coalesce()
        return sparse.sparse_getitem(A["s"], (slice(2, 4), slice(None)))

    @reg("sparse_getitem_empty_int", layouts=["contig"])
    def _(D, L, A):
        i = torch.tensor([[0, 1], [1, 0]])
        A["s"] = torch.sparse_coo_tensor(i, D.pos(2), (4, 4)).coalesce()
        return sparse.sparse_getitem(A["s"], (slice(None), 3))

    @reg("bdsmm_sparse_repeat_to_sparse", layouts=["contig"])
    def _(D, L, A):
        A["s"], A["d"] = mk_sparse(D), D.mat(4, 2)
        r1 = sparse.bdsmm(A["s"], A["d"])
        r2 = sparse.sparse_repeat(A["s"], 2, 1)
        A["dense"] = D.mat(3, 3)
        r3 = sparse.to_sparse(A["dense"])
        return r1

    @reg("bdsmm_batch", layouts=["contig"])
    def _(D, L, A):
        i = torch.tensor([[0, 0, 1, 1], [0, 1, 2, 3], [1, 0, 3, 2]])
        A["s"] = torch.sparse_coo_tensor(i, D.pos(4), (2, 4, 4)).coalesce()
        A["d"] = D.mat(2, 4, 2)
        return sparse.bdsmm(A["s"], A["d"])

    @reg("apply_permutation")
    def _(D, L, A):
        A["M"] = L(D.psd())
        A["p"] = torch.tensor([2, 0, 1, 4, 3]).expand(*A["M"].shape[:-2], 5).contiguous()
        A["q"] = torch.tensor([1, 0, 2, 3, 4]).expand(*A["M"].shape[:-2], 5).contiguous()
        r = permutation.apply_permutation(A["M"], A["p"], A["q"])
        permutation.inverse_permutation(A["p"])
        return r

    @reg("apply_permutation_op")
    def _(D, L, A):
        A["M"] = L(D.psd())
        A["p"] = torch.tensor([2, 0, 1, 4, 3]).expand(*A["M"].shape[:-2], 5).contiguous()
        return permutation.apply_permutation(O.DenseLinearOperator(A["M"]), A["p"], None)

    @reg("contour_integral_quad")
    def _(D, L, A):
        A["M"], A["rhs"] = L(D.psd(6)), L(D.mat(6, 2))
        with settings.max_cholesky_size(0):
            return ciq_m.contour_integral_quad(O.DenseLinearOperator(A["M"]), A["rhs"], max_lanczos_iter=5, num_contour_quadrature=5)

    @reg("contour_integral_quad_given_shifts_offset")
    def _(D, L, A):
        A["M"], A["rhs"] = L(D.psd(6)), L(D.mat(6, 2))
        op = O.DenseLinearOperator(A["M"])
        with settings.max_cholesky_size(0):
            s, w, _, sh = ciq_m.contour_integral_quad(op, A["rhs"], inverse=True, max_lanczos_iter=5, num_contour_quadrature=5)
            A["w"], A["sh"] = w.clone(), sh.clone()
            r1 = ciq_m.contour_integral_quad(op, A["rhs"], inverse=True, weights=A["w"], shifts=A["sh"], max_lanczos_iter=5,
                                             num_contour_quadrature=5, shift_offset=0.5)
            r2 = ciq_m.contour_integral_quad(op, A["rhs"], inverse=False, weights=A["w"], shifts=A["sh"], max_lanczos_iter=5,
                                             num_contour_quadrature=5, shift_offset=0)
            return r1

    @reg("contour_integral_quad_offset")
    def _(D, L, A):
        A["M"], A["rhs"] = L(D.psd(6)), L(D.mat(6, 2))
        with settings.max_cholesky_size(0):
            return ciq_m.contour_integral_quad(O.DenseLinearOperator(A["M"]), A["rhs"], inverse=True, max_lanczos_iter=5,
                                               num_contour_quadrature=5, shift_offset=0.5)

    @reg("linear_cg_identity_precond_broadcast_guess")
    def _(D, L, A):
        A["mat"], A["rhs"], A["guess"] = L(D.psd(6)), L(D.mat(6, 3)), L(D.mat(6, 1))
        return cg_m.linear_cg(A["mat"].matmul, A["rhs"], n_tridiag=3, max_iter=20, max_tridiag_iter=6, initial_guess=A["guess"],
                              preconditioner=lambda x: x, tolerance=1e-9)

    @reg("linear_cg_identity_closure_exact_guess")
    def _(D, L, A):
        # matmul closure returns its argument, the guess is already the solution (early exit path), rhs vector-like
        A["rhs"] = L(D.mat(6, 2))
        A["guess"] = A["rhs"]
        return cg_m.linear_cg(lambda x: x, A["rhs"], max_iter=5, max_tridiag_iter=2, initial_guess=A["guess"])

    @reg("linear_cg_closure_returns_argument")
    def _(D, L, A):
        A["rhs"], A["guess"] = L(D.mat(6, 2)), L(D.mat(6, 2))
        return cg_m.linear_cg(lambda x: x, A["rhs"], n_tridiag=1, max_iter=5, max_tridiag_iter=2, initial_guess=A["guess"],
                              preconditioner=lambda x: x)

    @reg("linear_cg_no_iterations")
    def _(D, L, A):
        A["mat"], A["rhs"], A["guess"] = L(D.psd(6)), L(D.mat(6, 2)), L(D.mat(6, 2))
        return cg_m.linear_cg(A["mat"].matmul, A["rhs"], max_iter=0, max_tridiag_iter=0, initial_guess=A["guess"])

    @reg("minres_identity_precond_closure")
    def _(D, L, A):
        A["mat"], A["rhs"] = L(D.psd(6)), L(D.mat(6, 2))
        A["shifts"] = torch.tensor([0.0, 1.0], dtype=torch.float64)
        return minres_m.minres(A["mat"].matmul, A["rhs"], shifts=A["shifts"], max_iter=12, preconditioner=lambda x: x)

    @reg("minres_closure_returns_argument_zero_rhs")
    def _(D, L, A):
        A["rhs"] = L(torch.cat([D.mat(6, 1), torch.zeros(6, 1, dtype=torch.float64)], -1))
        A["shifts"] = torch.tensor([0.5], dtype=torch.float64)
        return minres_m.minres(lambda x: x, A["rhs"], shifts=A["shifts"], max_iter=4, value=1.0)

    @reg("lanczos_tridiag_single_init_vec_closure_identity")
    def _(D, L, A):
        A["init"] = L(D.mat(6, 1))
        bs = A["init"].shape[:-2]
        return lanczos.lanczos_tridiag(lambda x: x, 3, dtype=torch.float64, device=A["init"].device, matrix_shape=torch.Size([6, 6]),
                                       batch_shape=bs, init_vecs=A["init"])

    @reg("lanczos_tridiag_unit_norm_init")
    def _(D, L, A):
        v = D.mat(6, 2)
        A["mat"], A["init"] = L(D.psd(6)), L(v / v.norm(dim=-2, keepdim=True))
        m = A["mat"]
        return lanczos.lanczos_tridiag(m.matmul, 6, dtype=m.dtype, device=m.device, matrix_shape=m.shape[-2:],
                                       batch_shape=m.shape[:-2], init_vecs=A["init"], tol=1e-12)

    @reg("psd_safe_cholesky_out")
    def _(D, L, A):
        A["A"] = L(D.psd())
        out = torch.empty(A["A"].shape, dtype=torch.float64)      # explicit out= buffer: allowed to change (not registered)
        return chol_m.psd_safe_cholesky(A["A"], out=out)

    @reg("psd_safe_cholesky_out_jitter_upper")
    def _(D, L, A):
        v = D.mat(5, 2)
        A["A"] = L(v @ v.T)
        out = torch.empty(A["A"].shape, dtype=torch.float64)
        try:
            return chol_m.psd_safe_cholesky(A["A"], upper=True, out=out, jitter=1e-4, max_tries=8)
        except Exception:
            return None

    @reg("toeplitz_matmul_vector_and_batch")
    def _(D, L, A):
        c = D.mat(5)
        r = D.mat(5)
        r[0] = c[0]
        A["c"], A["r"], A["t"] = L(c), L(r), L(D.mat(5, 1))
        return toeplitz.toeplitz_matmul(A["c"], A["r"], A["t"])

    @reg("left_interp_vector_rhs")
    def _(D, L, A):
        A["idx"], A["val"], A["rhs"] = torch.tensor([[0, 1], [1, 2], [2, 3]]), D.pos(3, 2), L(D.mat(4))
        if A["rhs"].dim() > 1:
            A["rhs"] = A["rhs"][0]
        return interpolation.left_interp(A["idx"], A["val"], A["rhs"])

    @reg("left_t_interp_batch")
    def _(D, L, A):
        A["idx"] = torch.tensor([[0, 1], [1, 2], [2, 3]]).expand(2, 3, 2)
        A["val"], A["rhs"] = D.pos(2, 3, 2), D.mat(2, 3, 2)
        return interpolation.left_t_interp(A["idx"], A["val"], A["rhs"], 4)

    return U


def _is_cache_attr(k):
    return k in ("_memoize_cache", "_args_memo") or bool(c13_alias.ATTR_STORE_OK.search(k)) or k.endswith("_memo") or k.endswith("_cache")


def op_state(obj, depth=0):
    """canonical description of everything NON-storage an operator is defined by: shape, and every python-level attribute
    (ints, lists, tuples, dicts, flags, sub-operators recursively; small tensors by value, large ones by shape/dtype).
    Cache attributes (memoize cache, *_memo, *_cache, the reviewed attribute allowlist) are skipped."""
    from linear_operator.operators import LinearOperator
    if depth > 6:
        return "..."
    if isinstance(obj, LinearOperator):
        try:
            shp = tuple(obj.shape)
        except Exception as e:
            shp = "shape-raises:" + type(e).__name__
        items = [(k, op_state(v, depth + 1)) for k, v in sorted(vars(obj).items()) if not _is_cache_attr(k)]
        return ("LO", type(obj).__name__, shp, items)
    if isinstance(obj, torch.Tensor):
        if obj.is_sparse:
            return ("sparseT", tuple(obj.shape), str(obj.dtype))
        if obj.numel() <= 64:
            return ("T", tuple(obj.shape), str(obj.dtype), tuple(obj.detach().reshape(-1).tolist()))
        return ("T", tuple(obj.shape), str(obj.dtype))
    if isinstance(obj, torch.Size):
        return ("Size", tuple(obj))
    if isinstance(obj, (list, tuple)):
        return (type(obj).__name__, tuple(op_state(x, depth + 1) for x in obj))
    if isinstance(obj, dict):
        return ("dict", tuple((repr(k), op_state(v, depth + 1)) for k, v in sorted(obj.items(), key=lambda kv: repr(kv[0]))))
    if isinstance(obj, (int, float, bool, str, type(None), torch.dtype, torch.device, slice)):
        return repr(obj)
    return "<" + type(obj).__name__ + ">"


def diff_state(a, b, path="op"):
    if a == b:
        return None
    if isinstance(a, tuple) and isinstance(b, tuple) and a and b and a[0] == "LO" and b[0] == "LO":
        if a[1] != b[1]:
            return f"{path}: class {a[1]} -> {b[1]}"
        if a[2] != b[2]:
            return f"{path}: shape {a[2]} -> {b[2]}"
        da, db = dict(a[3]), dict(b[3])
        for k in da:                    # attributes that appear only afterwards are (lazily filled) caches
            if k not in db:
                return f"{path}.{k}: attribute removed"
            d = diff_state(da[k], db[k], f"{path}.{k}")
            if d:
                return d
        return None
    if isinstance(a, tuple) and isinstance(b, tuple) and len(a) == len(b) and a and a[0] in ("list", "tuple", "dict") and a[0] == b[0]:
        if len(a[1]) != len(b[1]):
            return f"{path}: {a[0]} length {len(a[1])} -> {len(b[1])}"
        for i, (x, y) in enumerate(zip(a[1], b[1])):
            d = diff_state(x, y, f"{path}[{i}]")
            if d:
                return d
        return None
    return f"{path}: {str(a)[:60]} -> {str(b)[:60]}"


def fresh_dense(op):
    """the matrix the operator represents, computed without the to_dense cache: op._matmul(I)"""
    try:
        eye = torch.eye(op.shape[-1], dtype=op.dtype if op.dtype.is_floating_point else torch.float64)
        r = op._matmul(eye)
        return r.detach().clone() if isinstance(r, torch.Tensor) else None
    except Exception:
        return None


# ----------------------------------------------------------------------------- one case
BUILDERS = OPS = UTILS = None
NESTED = set()     # builders of Identity/Zero-based nestings
RECT = set()       # rectangular / unequal-batch instances
# operations run on the nestings in the quick tier (everything in thorough)
NESTED_QUICK_OPS = {"getitem_neg_tensor_rows", "getitem_neg_tensor_both", "getitem_neg_tensor_stride0_and_view", "mT", "transpose_dims", "sum_rows", "sum_cols", "matmul_op_op", "matmul", "matmul_vec", "rmatmul", "t_matmul", "solve", "solve_left", "solve_cg", "solve_vec_cg", "inv_quad",
                    "inv_quad_logdet", "inv_quad_logdet_cg", "sqrt_inv_matmul", "backward_sqrt_inv_matmul", "root_decomposition_lanczos",
                    "add_low_rank", "zero_mean_mvn_samples", "diagonalization_lanczos", "backward_solve_cg", "backward_inv_quad_logdet",
                    "matmul_identity_rhs", "root_inv_decomposition_lanczos", "pivoted_cholesky", "mul_op"}


def _init_tables():
    global BUILDERS, OPS, UTILS
    if BUILDERS is None:
        BUILDERS, OPS, UTILS = builders(), operations(), utilities()


def execute(kind, name, opname, layout, seed):
    """Run one catalogue case with before/after snapshots.  Arguments are built by a first *dry* evaluation of the
    closure with the library call replaced (we simply run the closure twice: run 1 on scratch copies to learn the
    argument tensors' construction; run 2 is the observed one).  To keep it simple and exact we instead snapshot
    inside the closure: the closures register each argument in `A` before the library call, and `A` snapshots a
    tensor at registration time."""
    from linear_operator import settings
    _init_tables()
    D = Data(seed)

    def L(t):
        return relayout(t, layout)

    class Reg(dict):
        def __init__(self):
            super().__init__()
            self.snap = {}

        def __setitem__(self, k, v):
            super().__setitem__(k, v)
            if isinstance(v, torch.Tensor):
                self.snap.update(snapshot({f"arg.{k}": v}))
                p = sptr(v) if not v.is_sparse else None
                if p is not None:
                    wl.protected[p] = f"arg.{k}"
                if v.is_sparse:
                    for nm, part in (("indices", v._indices()), ("values", v._values())):
                        wl.protected[sptr(part)] = f"arg.{k}.{nm}"
    wl = WriteLogger({})
    A = Reg()
    problems, status = [], "ok"
    try:
        if kind == "op":
            f, psd = BUILDERS[name]
            op, tensors = f(D, L)
            prot = {f"op.{k}": v for k, v in tensors.items()}
            for k, v in prot.items():
                wl.protected[sptr(v)] = k
            snap_op = snapshot(prot)
            state0 = op_state(op)
            fd0 = fresh_dense(op)
            dense0 = op.to_dense().clone()
            d0 = diff_state(state0, op_state(op))
            if d0:
                problems.append("operator state changed by to_dense()/_matmul(I): " + d0)
            g = OPS[opname][1]
            call = lambda: g(op, D, L, A)      # noqa: E731
        else:
            prot, snap_op, dense0, op = {}, {}, None, None
            g = UTILS[name][0]
            call = lambda: g(D, L, A)          # noqa: E731
    except Exception as e:
        return {"status": "build-error:" + type(e).__name__, "problems": [], "writes": [], "born": {}}
    with wl:
        try:
            call()
        except Exception as e:
            status = "raised:" + type(e).__name__ + ":" + str(e)[:80]
    problems += diff_snapshot(snap_op, prot)
    problems += diff_snapshot(A.snap, {f"arg.{k}": v for k, v in A.items() if isinstance(v, torch.Tensor) and f"arg.{k}" in A.snap})
    if op is not None:
        try:
            dense1 = op.to_dense()
            if dense1.shape != dense0.shape or not torch.equal(dense1, dense0):
                problems.append("operator: to_dense() of the pre-existing operator changed")
        except Exception as e:
            problems.append(f"operator: to_dense() raises after the call: {type(e).__name__}")
        d = diff_state(state0, op_state(op))
        if d:
            problems.append("operator state changed: " + d)
        if fd0 is not None:
            fd1 = fresh_dense(op)
            if fd1 is None or fd1.shape != fd0.shape or not torch.allclose(fd1, fd0, rtol=1e-9, atol=1e-11, equal_nan=True):
                problems.append("operator: cache-free re-densification op._matmul(I) changed "
                                f"({tuple(fd0.shape)} -> {None if fd1 is None else tuple(fd1.shape)})")
    for rel, line, opn, p, pname in wl.writes:
        if rel is None:
            continue        # harness-level op (no library frame on the stack)
        if pname is not None and not any(x.startswith(pname.split('.indices')[0].split('.values')[0]) for x in problems):
            problems.append(f"{pname}: aten write {opn} into the caller's storage at {rel}:{line}")
    return {"status": status, "problems": problems, "writes": wl.writes, "born": wl.born}


# ----------------------------------------------------------------------------- multi-step histories
def memo_methods():
    """memoised / cache-using methods; each returns whatever it hands to the caller"""
    from linear_operator import settings
    M = {
        "svd": lambda K: K.svd(),
        "eigh": lambda K: K.eigh(),
        "eigvalsh": lambda K: K.eigvalsh(),
        "diagonalization": lambda K: K.diagonalization(),
        "diagonalization_lanczos": lambda K: K.diagonalization(method="lanczos"),
        "cholesky": lambda K: K.cholesky(),
        "cholesky_upper": lambda K: K.cholesky(upper=True),
        "root_decomposition": lambda K: K.root_decomposition(),
        "root_decomposition_symeig": lambda K: K.root_decomposition(method="symeig"),
        "root_decomposition_lanczos": lambda K: K.root_decomposition(method="lanczos"),
        "root_decomposition_pivchol": lambda K: K.root_decomposition(method="pivoted_cholesky"),
        "root_inv_decomposition": lambda K: K.root_inv_decomposition(),
        "root_inv_decomposition_symeig": lambda K: K.root_inv_decomposition(method="symeig"),
        "to_dense": lambda K: K.to_dense(),
        "diagonal": lambda K: K.diagonal(),
        "logdet": lambda K: K.logdet(),
        "solve": lambda K: K.solve(torch.ones(K.shape[-1], 1, dtype=torch.float64)),
        "inv_quad_logdet": lambda K: K.inv_quad_logdet(torch.ones(K.shape[-1], 1, dtype=torch.float64), logdet=True),
        "pivoted_cholesky": lambda K: K.pivoted_cholesky(rank=2),
        "preconditioner": lambda K: K._preconditioner()[1:],
        "mT": lambda K: K.mT,
        "matmul": lambda K: K.matmul(torch.ones(K.shape[-1], 2, dtype=torch.float64)),
    }

    def cg(f):
        def g(K):
            with settings.max_cholesky_size(0), settings.max_cg_iterations(25), settings.num_trace_samples(3):
                return f(K)
        return g
    M["solve_cg"] = cg(M["solve"])
    M["inv_quad_logdet_slq"] = cg(M["inv_quad_logdet"])
    M["root_decomposition_cg_size"] = cg(M["root_decomposition"])
    return M


def derivations():
    """derived operator from an existing one (shares tensors / caches with the original in many classes)"""
    import linear_operator.operators as O

    def n(K):
        return K.shape[-1]
    return {
        "add_jitter": lambda K, D: K.add_jitter(0.5),
        "add_diagonal_scalar": lambda K, D: K.add_diagonal(torch.tensor(0.5, dtype=torch.float64)),
        "add_diagonal_one_elem": lambda K, D: K.add_diagonal(torch.tensor([0.5], dtype=torch.float64)),
        "add_diagonal_full": lambda K, D: K.add_diagonal(D.pos(n(K))),
        "plus_constdiag": lambda K, D: K + O.ConstantDiagLinearOperator(torch.tensor([0.5], dtype=torch.float64), diag_shape=n(K)),
        "plus_diag": lambda K, D: K + O.DiagLinearOperator(D.pos(n(K))),
        "plus_self": lambda K, D: K + K,
        "mul_const": lambda K, D: K * 2.0,
        "mul_tensor_const": lambda K, D: K * torch.tensor(2.0, dtype=torch.float64),
        "matmul_self": lambda K, D: K @ K,
        "mT": lambda K, D: K.mT,
        "getitem_full": lambda K, D: K[..., :, :],
        "getitem_sub": lambda K, D: K[..., :3, :3],
        "rebuild": lambda K, D: K.representation_tree()(*K.representation()),
        "detach": lambda K, D: K.detach(),
        "expand": lambda K, D: K.expand(2, *K.shape),
        "unsqueeze": lambda K, D: K.unsqueeze(0),
        "add_low_rank": lambda K, D: K.add_low_rank(0.1 * D.mat(n(K), 1)),
        "cat_rows": lambda K, D: K.cat_rows(0.1 * D.mat(1, n(K)), torch.tensor([[3.0]], dtype=torch.float64)),
        "cholesky_of": lambda K, D: K.cholesky(),
        "root_of": lambda K, D: K.root_decomposition(),
        "inverse_root_of": lambda K, D: K.root_inv_decomposition(),
        "identity_same_object": lambda K, D: K,
    }


def reachable_tensors(obj, path="K", out=None, seen=None, depth=0):
    """every tensor reachable from an object: defining tensors, cached results (memoize cache, *_memo, *_cache, …),
    nested sub-operators and containers — these are all objects a caller can hold"""
    from linear_operator.operators import LinearOperator
    out = {} if out is None else out
    seen = set() if seen is None else seen
    if id(obj) in seen or depth > 8:
        return out
    seen.add(id(obj))
    if isinstance(obj, torch.Tensor):
        if not obj.is_sparse and obj.numel() > 0:
            out[path] = obj
    elif isinstance(obj, LinearOperator):
        for k, v in sorted(vars(obj).items()):
            reachable_tensors(v, f"{path}.{k}", out, seen, depth + 1)
    elif isinstance(obj, (list, tuple)):
        for i, v in enumerate(obj):
            reachable_tensors(v, f"{path}[{i}]", out, seen, depth + 1)
    elif isinstance(obj, dict):
        for k, v in sorted(obj.items(), key=lambda kv: repr(kv[0])):
            key = k if isinstance(k, str) else (k[0] if isinstance(k, tuple) and k and isinstance(k[0], str) else repr(k)[:30])
            reachable_tensors(v, f"{path}{{{key}}}", out, seen, depth + 1)
    return out


MEMO = DERIV = None


def execute_history(name, deriv, layout, seed):
    """step 1: every memoised method on the ORIGINAL operator K (results kept);  step 2: every method on an operator DERIVED
    from K;  step 3: everything handed out in step 1 and every tensor reachable from K (its caches and those of all nested
    sub-operators) is compared with its snapshot; K's python-level state and cache-free densification as well."""
    global MEMO, DERIV
    _init_tables()
    if MEMO is None:
        MEMO, DERIV = memo_methods(), derivations()
    D = Data(seed)
    problems, status = [], "ok"
    try:
        f, psd = BUILDERS[name]
        K, tensors = f(D, lambda t: relayout(t, layout))
    except Exception as e:
        return {"status": "build-error:" + type(e).__name__, "problems": [], "writes": [], "born": {}}
    kept = {}
    for mname, m in MEMO.items():
        try:
            torch.manual_seed(seed % 1000)
            kept[mname] = m(K)
        except Exception:
            pass
    handed = reachable_tensors(kept, "step1")
    handed.update(reachable_tensors(K, "K"))
    handed.update({f"op.{k}": v for k, v in tensors.items() if isinstance(v, torch.Tensor)})
    snap = snapshot(handed)
    state0, fd0 = op_state(K), fresh_dense(K)
    prot = {}
    for k, v in handed.items():
        prot.setdefault(sptr(v), k)
    wl = WriteLogger(prot)
    ran = 0
    with wl:
        try:
            Dv = DERIV[deriv](K, D)
        except Exception as e:
            Dv, status = None, "raised:" + type(e).__name__
        if Dv is not None:
            for mname, m in MEMO.items():
                try:
                    torch.manual_seed(seed % 1000)
                    m(Dv)
                    ran += 1
                except Exception:
                    pass
    problems += diff_snapshot(snap, handed)
    d = diff_state(state0, op_state(K), "K")
    if d:
        problems.append("operator state changed: " + d)
    if fd0 is not None:
        fd1 = fresh_dense(K)
        if fd1 is None or fd1.shape != fd0.shape or not torch.allclose(fd1, fd0, rtol=1e-9, atol=1e-11, equal_nan=True):
            problems.append("operator: cache-free re-densification K._matmul(I) changed")
    for rel, line, opn, p, pname in wl.writes:
        if rel is None:
            continue
        if pname is not None and not any(x.startswith(pname + ":") for x in problems):
            problems.append(f"{pname}: aten write {opn} into a tensor previously handed to the caller / cached on K at {rel}:{line}")
    return {"status": status if ran or status != "ok" else "raised:all-methods", "problems": problems, "writes": wl.writes, "born": wl.born}


def cell_id(kind, name, opname, layout):
    if kind == "hist":
        return f"C13/hist/{name}/{opname}/{layout}"
    return f"C13/dyn/{name}/{opname}/{layout}" if kind == "op" else f"C13/dyn/util/{name}/{layout}"


# ----------------------------------------------------------------------------- main
def known_root_fn(chk):
    return lambda label: chk.known(f"C13/static/{label}") is not None


def run(chk, only=None):
    torch.set_num_threads(2)
    _init_tables()
    chk.rule = ("static: every function of linear_operator/ translated to the alias IR on this run, all obligations proved by the "
                "kernel-evaluated verified analysis; dynamic: catalogue = operator class x operation x layout "
                "{contig, expanded stride-0, transposed, slice-of-buffer} and utility x layout, seed-random values; "
                "distinct = distinct (class, operation, layout, seed); non-trivial = the call completed without raising")
    chk.assumptions += [
        "A1 closures passed by callers (matmul_closure, preconditioner, covar_func) are pure and return new tensors or views of their arguments",
        "A2 torch functions/methods without trailing underscore and without out= do not write their inputs; the reviewed table of "
        "view-returning torch callables in harness/extract/c13_alias.py is complete",
        "A3 hook contract: _matmul/_t_matmul results never share storage with the operator's own tensors (checked dynamically, cells C13/contract/*)",
        "A4 object attributes / python containers are modelled flow-insensitively (a value reaches everything ever stored in it)",
        "A5 gradient tensors handed to autograd Function.backward are not caller-owned in the sense of the property",
        "A6 dynamic dispatch resolves to the classes defined inside the package (method groups join all implementations of a name)",
    ]
    # ---- 1. translator
    G = c13_alias.generate(known_root_fn(chk))
    W = G["W"]
    chk.extra["ir_functions"] = len(W.fns)
    chk.extra["obligations_hold"] = len(G["ok"])
    chk.extra["obligations_hold_modulo_known"] = len(G["okP"])
    chk.extra["flagged_real"] = len(G["bad"])
    chk.extra["attr_stores_outside_init"] = [f"{a}:{b} {c}" for a, b, c, ok in W.attr_stores if "__init__" not in a][:80]
    for fi, direct in G["roots"]:
        cell = f"C13/static/{fi.label}"
        what = "; ".join(f"line {l} {w} writes storage reachable from {[fi.varnames[m] for m in t]}" for l, w, t in direct[:3])
        if chk.known(cell) is not None:
            f = chk.known(cell)
            chk.known_hits[f["line"]] = chk.known_hits.get(f["line"], 0) + 1
        else:
            chk.proof_break(f"{fi.label}_safe", f"regenerated IR fails analyse: {what}")
    for fi in G["badP"]:
        if not any(fi is r for r, _ in G["roots"]):
            tr = [(l, (W.fns[int(w[5:])].label if w.startswith('call#') else w)) for l, w, t in G["tracesP"][fi.idx]][:3]
            chk.proof_break(f"{fi.label}_safe", f"regenerated IR fails analyse (through callees): {tr}")
    n_ob = sum(1 for fi in W.fns if c13_alias.is_obligation(W, fi))
    if len(G["okP"]) + len(G["patched"]) + len(G["badP"]) < n_ob or n_ob < 400:
        chk.proof_break("translator(C13)", f"obligation count inconsistent: {n_ob}")
    # ---- 1b. independent census of the syntactic in-place sites vs the IR (extension session 5)
    SR = c13_sites.generate(G)
    chk.extra["inplace_sites"] = len(SR["sites"])
    chk.extra["inplace_sites_covered_by_ir_writes"] = sum(SR["covered"].values())
    chk.extra["inplace_sites_reviewed_no_write"] = len(SR["uncovered"])
    for s_ in c13_sites.unreviewed(SR["uncovered"]):
        chk.proof_break("translator(C13/sites)", f"in-place site without an IR write and not in the reviewed list: "
                        f"{s_[0].label} line {s_[1]} [{s_[3]}] {s_[4][:120]}")
    for idx_, k_ in SR["covered"].items():
        got_ = c13_sites.count_w(G["bodies"][idx_], G["sigma"])
        if got_ < k_:
            chk.proof_break("translator(C13/sites)", f"{W.fns[idx_].label}: {k_} in-place sites but only {got_} write operations "
                            f"in the emitted IR (Generated.C13.site_rows_ok)")
    if len(SR["sites"]) < 200 or sum(SR["covered"].values()) < 120:
        chk.proof_break("translator(C13/sites)", f"site census implausibly small: {len(SR['sites'])} / {sum(SR['covered'].values())}")
    # ---- 2. proofs
    chk.prove("LinOp.Properties.C13", ["LinOp/C13", "LinOp/Generated/C13Table.lean", "LinOp/Generated/C13PTable.lean",
                                       "LinOp/Generated/C13Sites.lean",
                                       "LinOp/Generated/C13Sigma.lean", "LinOp/Generated/C13PSigma.lean"])
    # ---- 3. Lean analysis vs python mirror on the generated IR
    sample = sorted({fi.idx for fi in W.fns if fi.muts or fi.name in ("linear_cg", "minres", "lanczos_tridiag")} |
                    set(chk.rng.sample(range(len(W.fns)), 60)))
    lines = [f"R {i}" for i in sample] + [f"P {i}" for i in sample]
    outs = chk.run_driver("C13", lines)
    if outs is not None:
        for ln, o in zip(lines, outs):
            tag, i = ln.split()
            sg = G["sigma"] if tag == "R" else G["sigmaP"]
            fi = W.fns[int(i)]
            if tag == "P" and fi.label in G["patched"]:
                continue
            want_w, want_r = sg[int(i)]
            # the summary is the least fixpoint, so analysing once more under it reproduces it (w ⊆ muts, r ⊆ rets)
            got = dict(x.split("=") for x in o.split())
            gw = [] if got.get("w") in ("-", None) else [int(x) for x in got["w"].split(",")]
            gr = [] if got.get("r") in ("-", None) else [int(x) for x in got["r"].split(",")]
            if got.get("ok") != "true" or not set(gw) <= set(want_w) or not set(gr) <= set(want_r) or \
                    (tag == "R" and (sorted(gw) != sorted(want_w))):
                chk.corr_break(f"C13/mirror/{fi.label}", f"Lean analyse gives {o}, python mirror muts={want_w} rets={want_r}", None)
            else:
                chk.traces_validated += 1
    # ---- 3b. Lean countW vs python mirror vs the site census (every function with in-place sites + 40 random ones)
    wsample = sorted(set(SR["covered"]) | {s_[0].idx for s_ in SR["uncovered"]} | set(chk.rng.sample(range(len(W.fns)), 40)))
    outs = chk.run_driver("C13", [f"W {i}" for i in wsample])
    if outs is not None:
        for i, o in zip(wsample, outs):
            fi = W.fns[i]
            want = c13_sites.count_w(G["bodies"][i], G["sigma"]) if G["bodies"][i] is not None else None
            k_ = SR["covered"].get(i, 0)
            chk.case(f"countW {fi.label} sites={k_} ir={want}", nontrivial=k_ > 0)
            if o != f"countW={want}":
                chk.corr_break(f"C13/sites/mirror/{fi.label}", f"Lean countW gives {o}, python mirror {want}", None)
            elif want is not None and want < k_:
                chk.corr_break(f"C13/sites/count/{fi.label}", f"{k_} in-place sites in the source, {want} write operations in the IR", None)
            else:
                chk.traces_validated += 1
    # ---- 4. dynamic catalogue
    wlines = c13_alias.write_lines(W, G["sigma"])
    cases = []
    thorough = chk.tier == "thorough"
    seeds = [chk.rng.randrange(2 ** 31) for _ in range(3 if thorough else 1)]
    for name, (f, psd) in BUILDERS.items():
        for opname, (needs_psd, g) in OPS.items():
            if needs_psd and not psd:
                continue
            if name in NESTED and not thorough and opname not in NESTED_QUICK_OPS:
                continue
            lay = LAYOUTS if thorough else (["slice"] if name in NESTED or name in RECT else ["slice", chk.rng.choice(LAYOUTS[:3])])
            for layout in lay:
                cases.append(("op", name, opname, layout))
    for name, (g, layouts) in UTILS.items():
        for layout in layouts:
            cases.append(("util", name, None, layout))
    # multi-step histories: memoised methods on K, then methods on an operator derived from K
    derivs = list(derivations())
    for name, (f, psd) in BUILDERS.items():
        if not psd:
            continue
        if thorough:
            dl = [(d, lay) for d in derivs for lay in ("contig", "slice")]
        elif name in NESTED:
            dl = [(d, "contig") for d in ("add_jitter", "plus_diag", "mul_const", "mT")] + [(chk.rng.choice(derivs), "slice")]
        else:
            core = ["add_jitter", "add_diagonal_one_elem", "add_diagonal_full", "plus_constdiag", "plus_diag", "mul_const", "matmul_self",
                    "mT", "getitem_full", "rebuild", "detach", "identity_same_object", "root_of"]
            dl = [(d, "contig") for d in core] + [(d, "slice") for d in chk.rng.sample([x for x in derivs if x not in core], 2)]
        for d, lay in dl:
            cases.append(("hist", name, d, lay))
    if only:
        cases = [c for c in cases if only(c)]
    unmatched = {}
    for kind, name, opname, layout in cases:
        for seed in seeds:
            r = execute_history(name, opname, layout, seed) if kind == "hist" else execute(kind, name, opname, layout, seed)
            cell = cell_id(kind, name, opname, layout)
            ok = r["status"] == "ok"
            chk.case(f"{cell} seed={seed}", nontrivial=ok)
            chk.count("status:" + r["status"].split(":")[0])
            chk.count("layout:" + layout)
            chk.count("writes_observed", len(r["writes"]))
            if r["problems"]:
                chk.violation(cell, "; ".join(r["problems"][:4]),
                              {"kind": kind, "name": name, "op": opname, "layout": layout, "seed": seed})
            # translator cross-check: every observed write is an IR write (or a mutating call) on that source line
            for rel, line, opn, p, pname in r["writes"]:
                if rel is None:
                    continue
                if opn.split(".")[1] in META_OPS and pname is None:
                    chk.count("metadata_only_inplace_on_local_objects")
                    continue
                if (rel, line) in wlines:
                    chk.traces_validated += 1
                    continue
                if r["born"].get(p) == (rel, line):
                    chk.count("writes_to_storage_born_on_same_line")
                    continue
                unmatched.setdefault((rel, line), (opn, cell))
    for (rel, line), (opn, cell) in sorted(unmatched.items())[:10]:
        chk.corr_break(f"C13/translator/{rel}:{line}", f"observed aten write {opn} at {rel}:{line} (case {cell}) has no IR write on that line", None)
    # ---- 5. hook contract A3
    contract_check(chk, seeds[0])


def contract_check(chk, seed):
    """results of _matmul / _t_matmul never share storage with the operator's own tensors"""
    for name, (f, psd) in BUILDERS.items():
        D = Data(seed)
        try:
            op, tensors = f(D, lambda t: t.clone())
            own = {sptr(t) for t in op.representation()} | {sptr(t) for t in tensors.values()}
            for hook in ("_matmul", "_t_matmul"):
                rhs = D.mat(op.shape[-1] if hook == "_matmul" else op.shape[-2], 2)
                res = getattr(op, hook)(rhs)
                chk.case(f"C13/contract/{name}/{hook}", nontrivial=True, sample=False)
                if sptr(res) in own:
                    chk.corr_break(f"C13/contract/{name}/{hook}", "result shares storage with the operator's tensors: hook contract A3 "
                                   "of the translator is violated", None)
                else:
                    chk.traces_validated += 1
        except Exception:
            chk.count("contract:raised")


def replay(chk, payload):
    _init_tables()
    p = payload.get("payload") or {}
    if not p or "kind" not in p:
        print("replay names broken obligations only:", json.dumps(payload.get("payload"))[:3000])
        return run(chk)
    r = execute_history(p["name"], p["op"], p["layout"], p["seed"]) if p["kind"] == "hist" else \
        execute(p["kind"], p["name"], p["op"], p["layout"], p["seed"])
    cell = cell_id(p["kind"], p["name"], p["op"], p["layout"])
    chk.case(f"{cell} seed={p['seed']}")
    print("status:", r["status"])
    for x in r["problems"]:
        print("  ", x)
    if r["problems"]:
        chk.violation(cell, "; ".join(r["problems"][:4]), p)
