"""C17 — settings contexts are properly scoped and never leak."""
import json

import torch

from ..extract import c17_settings, c17_bodies


def _load_classes(classes):
    import linear_operator.settings as S
    import linear_operator.beta_features as B
    res = []
    for c in classes:
        mod = S if c["file"].endswith("settings.py") else B
        res.append(getattr(mod, c["name"]))
    return res


class Impl:
    def __init__(self, classes, composites):
        import linear_operator.settings as S
        self.S = S
        self.meta = classes
        self.cls = _load_classes(classes)
        self.idx = {c["name"]: i for i, c in enumerate(classes)}
        self.table_comps = {c["name"]: c for c in composites}
        bases = (S._feature_flag, S._value_context, S._dtype_value_context)
        # composites are discovered at run time (any other class of the module with the context protocol)
        self.comps = {n: v for n, v in vars(S).items() if isinstance(v, type) and v.__module__ == S.__name__
                      and hasattr(v, "__enter__") and hasattr(v, "__exit__") and not issubclass(v, bases)
                      and not n.startswith("_")}
        self.bases = bases
        self.codes = {}
        self.reader_fails = {}
        self._t64, self._t32 = torch.zeros(1, dtype=torch.float64), torch.zeros(1, dtype=torch.float32)
        self.initial = [self.raw(i) for i in range(len(self.cls))]
        # which class attributes are the class's OWN at start (others are inherited from the base class): reset()
        # must not create own attributes, or a write to the base class attribute (a leak into every setting that
        # was never entered) would be shielded by the harness itself
        self.own = [{k for k in ("_state", "_global_value", "_global_float_value", "_global_double_value",
                                 "_global_half_value") if k in c.__dict__} for c in self.cls]
        self.base_initial = {b: {k: v for k, v in vars(b).items() if k in ("_state", "_global_value", "_global_float_value",
                                                                             "_global_double_value", "_global_half_value")}
                             for b in bases}

    def code(self, v, flag=False):
        if v is None:
            return "n"
        if flag and (isinstance(v, bool) or not v):
            return "1" if v else "0"  # every falsy state (False, 0, 0.0, "") is `off`; the spec side compares the real objects
        k = repr(v)
        if k not in self.codes:
            self.codes[k] = 10 + len(self.codes)
        return str(self.codes[k])

    def _reader(self, ok, kind, msg):
        """The reader class methods (`on` / `off` / `is_default` / `value`) must report the class attributes."""
        if not ok and kind not in self.reader_fails:
            self.reader_fails[kind] = msg

    def raw(self, i):
        c, m = self.cls[i], self.meta[i]
        if m["base"] == "_feature_flag":
            return (c._state, getattr(c, "probe_vectors", None) if "probe_vectors" in c.__dict__ or hasattr(c, "probe_vectors") else None, None)
        if m["base"] == "_value_context":
            return (c._global_value, None, None)
        return (c._global_float_value, c._global_double_value, c._global_half_value)

    def _restore(self, c, i, name, value):
        if name in self.own[i]:
            setattr(c, name, value)
        elif name in c.__dict__:
            delattr(c, name)  # back to the inherited attribute

    def reset(self):
        for b, attrs in self.base_initial.items():
            for k, v in attrs.items():
                setattr(b, k, v)
        for i, (c, m) in enumerate(zip(self.cls, self.meta)):
            a, b, d = self.initial[i]
            if m["base"] == "_feature_flag":
                self._restore(c, i, "_state", a)
                if hasattr(c, "probe_vectors"):
                    c.probe_vectors = None
            elif m["base"] == "_value_context":
                self._restore(c, i, "_global_value", a)
            else:
                self._restore(c, i, "_global_float_value", a)
                self._restore(c, i, "_global_double_value", b)
                self._restore(c, i, "_global_half_value", d)

    def slots(self, i):
        m = self.meta[i]
        a, b, d = self.raw(i)
        flag = m["base"] == "_feature_flag"
        if flag:
            on = ("T" if self.cls[i].on() else "F") + ("D" if self.cls[i].is_default() else "d")
            self._reader(self.cls[i].off() == (not self.cls[i].on()), "off", f"{m['name']}.off() is not `not on()`")
            self._reader(self.cls[i].is_default() == (a is None), "is_default",
                         f"{m['name']}.is_default() = {self.cls[i].is_default()} with _state = {a!r}")
            self._reader(_same((self.cls[i].on(),), ((self.cls[i]._default if a is None else a),)), "on",
                         f"{m['name']}.on() = {self.cls[i].on()!r} with _state = {a!r}, _default = {self.cls[i]._default!r}")
            b = None if b is None else 1
        else:
            on = "-"
            if m["base"] == "_value_context":
                self._reader(_same((self.cls[i].value(),), (a,)), "value", f"{m['name']}.value() = {self.cls[i].value()!r}, attribute {a!r}")
            else:
                got = tuple(self.cls[i].value(t) for t in (torch.float, torch.double, torch.half))
                self._reader(_same(got, (a, b, d)), "value-dtype", f"{m['name']}.value(float/double/half) = {got}, attributes {(a, b, d)}")
                # a tensor argument stands for its dtype
                got = (self.cls[i].value(self._t64), self.cls[i].value(self._t32))
                self._reader(_same(got, (b, a)), "value-tensor", f"{m['name']}.value(tensor f64 / f32) = {got}, attributes {(b, a)}")
        bs = ("n" if b is None else "1") if flag else self.code(b)
        return f"{self.code(a, flag)}|{bs}|{self.code(d)}|{on}"

    def state(self):
        return " ".join(self.slots(i) for i in range(len(self.cls)))

    def setting_val(self, i):
        a, b, d = self.raw(i)
        return (a, b, d) if self.meta[i]["base"] == "_dtype_value_context" else (a,)


VALUES = [0, 0.0, False, 1, 2, 3, 5, 7, 10, 50, 1e-3, 1e-6, 0.5, torch.float, torch.double, 1000, None]


def gen_history(rng, impl, length, malformed=False):
    """Abstract events; object names are ints.  Mostly valid `with`-like use plus non-LIFO exits,
    pre-constructed and re-used objects; `malformed` adds re-entry of active objects."""
    hist, objs, active = [], [], []
    ncls = len(impl.cls)
    focus = rng.sample(range(ncls), k=min(ncls, rng.choice([1, 2, 3, 6])))  # concentrate on few classes
    for _ in range(length):
        r = rng.random()
        inactive = [o for o in objs if o not in active]
        if r < 0.28 or not objs:
            o = len(objs)
            if rng.random() < 0.2:
                name = rng.choice(sorted(impl.comps))
                if name == "fast_computations":
                    kw = {k: rng.random() < 0.5 for k in ("covar_root_decomposition", "log_prob", "solves")}
                else:
                    kw = {}
                    if rng.random() < 0.7:
                        kw["default"] = rng.choice([torch.float, torch.double])
                    for k in ("symeig", "cholesky"):
                        if rng.random() < 0.4:
                            kw[k] = rng.choice([torch.float, torch.double, torch.half])
                hist.append(("newc", o, name, kw))
            else:
                i = rng.choice(focus) if rng.random() < 0.8 else rng.randrange(ncls)
                base = impl.meta[i]["base"]
                if base == "_feature_flag":
                    args = (rng.choice([True, False, True, False, None]),)
                elif base == "_value_context":
                    args = (rng.choice(VALUES),)
                else:
                    args = tuple(rng.choice([None, None, 1e-4, 1e-2, 0.25, 3.0, 0.0, 0.0]) for _ in range(3))  # 0.0: a falsy but explicit value
                hist.append(("new", o, impl.meta[i]["name"], args))
            objs.append(o)
        elif r < 0.58 and (inactive or (malformed and active)):
            pool = inactive if (inactive and not (malformed and active and rng.random() < 0.3)) else active
            o = rng.choice(pool)
            hist.append(("enter", o))
            if o not in active:
                active.append(o)
        elif r < 0.93 and active:
            o = active[-1] if rng.random() < 0.8 else rng.choice(active)
            active.remove(o)
            hist.append(("exit", o, rng.random() < 0.3))
        elif r < 0.945:
            if r < 0.93 and rng.random() < 0.8:
                continue  # (fell through from an impossible enter / exit: mostly skip instead of flooding with pokes)
            hist.append(("poke", "deterministic_probes", rng.choice([None, 1])))
        elif r < 0.975:
            # class-level setter (`cls._set_state(v)` / `cls._set_value(...)`), also between enter and exit of live contexts
            i = rng.choice(focus + [impl.idx["deterministic_probes"]])
            base = impl.meta[i]["base"]
            if base == "_feature_flag":
                args = (rng.choice([True, False, None]),)
            elif base == "_value_context":
                args = (rng.choice(VALUES),)
            else:
                args = tuple(rng.choice([None, None, 1e-4, 0.25, 0.0]) for _ in range(3))
            hist.append(("set", impl.meta[i]["name"], args))
        elif r < 0.995 and any(isinstance(h, tuple) and h[0] == "newc" and h[1] not in active for h in hist):
            # composite `__enter__` in which member number j raises (the object does not become active)
            o = rng.choice([h[1] for h in hist if h[0] == "newc" and h[1] not in active])
            hist.append(("enterfail", o, rng.randrange(3)))
        elif active:
            o = active.pop()
            hist.append(("exit", o, False))
    while active:  # unwind LIFO
        hist.append(("exit", active.pop(), False))
    return hist


class _Injected(Exception):
    pass


class _Boom:
    """Stand-in for a composite's member whose `__enter__` raises."""

    def __enter__(self):
        raise _Injected("injected failure of a member's __enter__")

    def __exit__(self, *args):
        return False


def _block(obj):
    with obj:
        yield


def _in_thread(fn):
    import threading
    box = []

    def tgt():
        try:
            box.append(("ok", fn()))
        except BaseException as e:  # noqa
            box.append(("exc", e))
    t = threading.Thread(target=tgt)
    t.start()
    t.join()
    if box[0][0] == "exc":
        raise box[0][1]
    return box[0][1]


def run_history(impl, hist, want_lines=True, via="call"):
    """Run on the real library.  Returns (lean_lines, impl_states, spec_failures).
    via = "call": `__enter__` / `__exit__` called directly;  "with": every enter/exit goes through a real `with` statement
    held by a generator frame (exceptional exit = exception thrown into the frame; it must propagate);
    "thread": every enter/exit is executed on a fresh thread (the state is process-global: same model)."""
    _drain()
    impl.reset()
    gens = {}
    comp_kw = {}
    dirty = set()
    run_history.dirty = dirty
    objs, parts, lines, states, fails = {}, {}, [], [], []
    fails_unmodelled = []
    desync = [False]
    active_count = {}
    before_enter = {}
    reentered = set()
    serial = [0]

    def new_simple(i, inst):
        serial[0] += 1
        return (i, serial[0], inst)

    def emit(line):
        lines.append(line)
        states.append(impl.state())

    # initial globals
    for i in range(len(impl.cls)):
        a, b, d = impl.raw(i)
        flag = impl.meta[i]["base"] == "_feature_flag"
        lines.append(f"init {i} {impl.code(a, flag)} {impl.code(None if flag else b)} {impl.code(d)}")
        states.append(impl.state() if i == len(impl.cls) - 1 else None)
    for ev in hist:
        prev = [impl.setting_val(i) for i in range(len(impl.cls))]
        touched = set()
        if ev[0] == "new":
            _, o, name, args = ev
            i = impl.idx[name]
            obj = impl.cls[i](*args)
            base = impl.meta[i]["base"]
            if base == "_feature_flag":
                inst = (impl.code(obj.state, True), "n", "n")
            elif base == "_value_context":
                inst = (impl.code(obj._instance_value), "n", "n")
            else:
                inst = tuple(impl.code(v) for v in (obj._instance_float_value, obj._instance_double_value, obj._instance_half_value))
            serial[0] += 1
            objs[o] = obj
            parts[o] = [(i, serial[0])]
            emit(f"new {i} {serial[0]} {' '.join(inst)}")
        elif ev[0] == "newc":
            _, o, name, kw = ev
            comp = impl.table_comps.get(name)
            obj = getattr(impl.S, name)(**kw)
            objs[o] = obj
            comp_kw[o] = (name, kw)
            # part contexts as found on the object at run time (attributes, or containers of contexts)
            found = []
            for attr, v in vars(obj).items():
                vs = v if isinstance(v, (list, tuple)) else (list(v.values()) if isinstance(v, dict) else [v])
                for j, w in enumerate(vs):
                    if isinstance(w, impl.bases) and type(w).__name__ in impl.idx:
                        found.append((attr if len(vs) == 1 else f"{attr}[{j}]", w))
            byattr = {}
            for attr, po in found:
                i = impl.idx[type(po).__name__]
                inst = impl.code(po.state, True) if impl.meta[i]["base"] == "_feature_flag" else impl.code(po._instance_value)
                serial[0] += 1
                byattr[attr] = (i, serial[0])
                emit(f"new {i} {serial[0]} {inst} n n")
            if comp is not None and sorted(a for a, _, _ in comp["parts"]) == sorted(byattr):
                parts[o] = {"enter": [byattr[a] for a in comp["enter"]], "exit": [byattr[a] for a in comp["exit"]],
                            "all": list(byattr.values()), "modelled": True, "enter_attrs": list(comp["enter"])}
            else:  # the table does not describe this composite: property checks only, no model lines
                parts[o] = {"enter": list(byattr.values()), "exit": list(byattr.values()), "all": list(byattr.values()),
                            "modelled": False}
                fails_unmodelled.append(name)
        elif ev[0] == "enter":
            o = ev[1]
            p = parts[o]
            seq = p["enter"] if isinstance(p, dict) else p
            if active_count.get(o, 0) > 0:
                reentered.add(o)
            active_count[o] = active_count.get(o, 0) + 1
            before_enter[o] = {i: impl.setting_val(i) for i, _ in seq}
            if via == "with":
                g = _block(objs[o])
                _LIVE_GENS.append(g)
                next(g)
                gens.setdefault(o, []).append(g)
            elif via == "thread":
                _in_thread(objs[o].__enter__)
            else:
                objs[o].__enter__()
            touched = {i for i, _ in seq}
            # a composite puts its documented constructor arguments in force (spec independent of the member objects)
            if o in comp_kw:
                name, kw = comp_kw[o]
                if name == "fast_computations":
                    want = tuple(kw.get(a, True) for a in ("covar_root_decomposition", "log_prob", "solves"))
                    got = tuple(getattr(impl.S.fast_computations, a).on() for a in ("covar_root_decomposition", "log_prob", "solves"))
                elif name == "linalg_dtypes":
                    dflt = kw.get("default", torch.double)
                    want = tuple(dflt if kw.get(a) is None else kw[a] for a in ("symeig", "cholesky"))
                    got = (impl.S._linalg_dtype_symeig.value(), impl.S._linalg_dtype_cholesky.value())
                else:
                    want = got = ()
                if not _same(want, got):
                    fails.append((f"composite-args-not-in-force {name}{kw}: got {got} want {want}", ev))
            # "takes effect on entry": every slot the context names now holds the instance value
            pobjs = [objs[o]] if not isinstance(p, dict) else [w for w in _part_objects(objs[o], impl)]
            for po in pobjs:
                i = impl.idx.get(type(po).__name__)
                if i is None:
                    continue
                base = impl.meta[i]["base"]
                if base == "_feature_flag":
                    want, got = (po.state,), impl.setting_val(i)
                elif base == "_value_context":
                    want, got = (po._instance_value,), impl.setting_val(i)
                else:
                    inst = (po._instance_float_value, po._instance_double_value, po._instance_half_value)
                    cur = impl.setting_val(i)
                    want = tuple(w for w in inst if w is not None)
                    got = tuple(c for w, c in zip(inst, cur) if w is not None)
                if not _same(want, got):
                    fails.append((f"enter-did-not-take-effect {impl.meta[i]['name']}: got {got} want {want}", ev))
            # emit one line per part; intermediate impl states are not observable -> compare only the last
            if isinstance(p, dict) and not p.get("modelled", True):
                desync[0] = True
            for j, (i, k) in enumerate(seq):
                lines.append(f"enter {i} {k}")
                states.append(None if j < len(seq) - 1 else impl.state())
        elif ev[0] == "exit":
            o, exc = ev[1], ev[2]
            p = parts[o]
            seq = p["exit"] if isinstance(p, dict) else p
            if via == "with" and gens.get(o):
                g = gens[o].pop()
                r = False
                try:
                    if exc:
                        g.throw(ValueError("boom"))
                    else:
                        next(g)
                    r = exc  # an exceptional exit that ends normally: `__exit__` swallowed the exception
                except StopIteration:
                    r = exc
                except ValueError:
                    r = not exc
            elif exc:
                try:
                    raise ValueError("boom")
                except ValueError as e:
                    ee = e
                    r = (_in_thread(lambda: objs[o].__exit__(ValueError, ee, ee.__traceback__)) if via == "thread"
                         else objs[o].__exit__(ValueError, e, e.__traceback__))
            else:
                r = (_in_thread(lambda: objs[o].__exit__(None, None, None)) if via == "thread"
                     else objs[o].__exit__(None, None, None))
            if r:
                fails.append(("exit-swallows-exception", ev))
            active_count[o] = active_count.get(o, 0) - 1
            touched = {i for i, _ in seq}
            for j, (i, k) in enumerate(seq):
                lines.append(f"exit {i} {k} {1 if exc else 0}")
                states.append(None if j < len(seq) - 1 else impl.state())
            if o not in reentered and o in before_enter:
                for i, want in before_enter[o].items():
                    if impl.setting_val(i) != want:
                        fails.append((f"exit-did-not-restore {impl.meta[i]['name']}: got {impl.setting_val(i)} want {want}", ev))
            if active_count[o] <= 0:
                reentered.discard(o)
        elif ev[0] == "set":
            _, name, args = ev
            i = impl.idx[name]
            base = impl.meta[i]["base"]
            if base == "_feature_flag":
                impl.cls[i]._set_state(*args)
                emit(f"set {i} {impl.code(args[0], True)} n n")
                want, got = tuple(args), impl.setting_val(i)
            elif base == "_value_context":
                impl.cls[i]._set_value(*args)
                emit(f"set {i} {impl.code(args[0])} n n")
                want, got = tuple(args), impl.setting_val(i)
            else:
                impl.cls[i]._set_value(*args)
                emit(f"set {i} {' '.join(impl.code(v) for v in args)}")
                want = tuple(w for w in args if w is not None)
                got = tuple(c for w, c in zip(args, impl.setting_val(i)) if w is not None)
            if not _same(want, got):
                fails.append((f"class-setter-did-not-take-effect {name}: got {got} want {want}", ev))
            touched = {i}
            dirty.add(i)
        elif ev[0] == "enterfail":
            _, o, j = ev
            p = parts[o]
            if not (isinstance(p, dict) and p.get("modelled")):
                raise KeyError("enterfail needs a composite described by the table")
            seq, attrs = p["enter"], p["enter_attrs"]
            j = min(j, len(seq) - 1)
            real = getattr(objs[o], attrs[j])
            setattr(objs[o], attrs[j], _Boom())
            try:
                try:
                    if via == "with":
                        with objs[o]:
                            fails.append(("composite-body-ran-after-failed-enter", ev))
                    else:
                        objs[o].__enter__()
                    fails.append(("composite-enter-swallowed-member-exception", ev))
                except _Injected:
                    pass
            finally:
                setattr(objs[o], attrs[j], real)
            touched = {i for i, _ in seq[:j]}
            dirty.update(touched)
            # the code as it is: the first j members stay entered (known finding C17/composite-partial-enter);
            # with notes/C17_fix_1.diff applied they are exited again, in member order
            model_seq = [f"enter {i} {k}" for i, k in seq[:j]]
            if impl.composite_enter_guarded:
                model_seq += [f"exit {i} {k} 0" for i, k in seq[:j]]
            for n_, line in enumerate(model_seq):
                lines.append(line)
                states.append(None if n_ < len(model_seq) - 1 else impl.state())
        elif ev[0] == "poke":
            i = impl.idx[ev[1]]
            impl.cls[i].probe_vectors = None if ev[2] is None else torch.zeros(1)
            emit(f"poke {i} {'n' if ev[2] is None else 1}")
        now = [impl.setting_val(i) for i in range(len(impl.cls))]
        for i in range(len(impl.cls)):
            if i not in touched and now[i] != prev[i]:
                fails.append((f"cross-talk: {ev[0]} changed {impl.meta[i]['name']} {prev[i]} -> {now[i]}", ev))
    if desync[0]:  # a composite the table does not describe was used: no model comparison for this history
        states = [None] * len(states)
    run_history.unmodelled = sorted(set(fails_unmodelled))
    return lines, states, fails


def _same(a, b):
    return len(a) == len(b) and all((x is y) or (type(x) is type(y) and x == y) for x, y in zip(a, b))


def _part_objects(obj, impl):
    for attr, v in vars(obj).items():
        vs = v if isinstance(v, (list, tuple)) else (list(v.values()) if isinstance(v, dict) else [v])
        for w in vs:
            if isinstance(w, impl.bases):
                yield w


def well_nested(hist):
    stack = []
    for ev in hist:
        if ev[0] == "enter":
            if ev[1] in stack:
                return False
            stack.append(ev[1])
        elif ev[0] == "exit":
            if not stack or stack[-1] != ev[1]:
                return False
            stack.pop()
    return not stack


def spec_fails(impl, hist, via="call"):
    _, _, fails = run_history(impl, hist, via=via)
    if well_nested(hist):
        for i in range(len(impl.cls)):
            if i in run_history.dirty:
                continue
            if impl.setting_val(i) != (impl.initial[i] if impl.meta[i]["base"] == "_dtype_value_context" else impl.initial[i][:1]):
                fails.append((f"leak after well-nested history: {impl.meta[i]['name']} = {impl.setting_val(i)}", None))
    impl.reset()
    return fails


def shrink(impl, hist, pred):
    hist = list(hist)
    changed = True
    while changed:
        changed = False
        for i in range(len(hist) - 1, -1, -1):
            cand = hist[:i] + hist[i + 1:]
            try:
                if pred(cand):
                    hist = cand
                    changed = True
            except Exception:
                pass
    return hist


def _j(x):
    if isinstance(x, (int, bool, str, float, type(None))):
        return x
    if isinstance(x, dict):
        return {k: _j(v) for k, v in x.items()}
    if isinstance(x, (list, tuple)):
        return [_j(v) for v in x]
    return str(x)


def ev_json(hist):
    return [_j(ev) for ev in hist]


def small_computation():
    import linear_operator
    torch.manual_seed(0)
    a = torch.randn(6, 6, dtype=torch.float64)
    A = a @ a.T + 6 * torch.eye(6, dtype=torch.float64)
    b = torch.arange(6, dtype=torch.float64)
    op = linear_operator.to_linear_operator(A)
    iq, ld = op.inv_quad_logdet(b.unsqueeze(-1), logdet=True)
    return torch.cat([op.solve(b.unsqueeze(-1)).flatten(), iq.flatten(), ld.flatten()])


_LIVE_GENS = []


def _drain():
    """Close generator frames still suspended inside a `with` block (left over by shrinking candidates), so that their
    `__exit__` does not run at some later garbage collection."""
    while _LIVE_GENS:
        g = _LIVE_GENS.pop()
        try:
            g.close()
        except BaseException:  # noqa
            pass


def _all_vals(impl):
    return [impl.setting_val(i) for i in range(len(impl.cls))]


def templates(impl):
    """Fixed histories: (history, via, cell or None).  A cell makes the end-of-history identity check strict (every
    setting must have its initial value) and names the violation."""
    T = []
    # the two defects fixed in the repo (must stay fixed)
    T.append(([("new", 0, "max_cholesky_size", (5,)), ("new", 1, "max_cholesky_size", (7,)), ("enter", 1),
               ("enter", 0), ("exit", 0, False), ("exit", 1, False)], "call", None))
    T.append(([("new", 0, "cholesky_jitter", (None, None, 0.25)), ("enter", 0), ("exit", 0, False)], "call", None))
    T.append(([("new", 0, "cholesky_jitter", (0.5, 0.5, 0.5)), ("new", 1, "cholesky_jitter", (0.0, 0.0, None)), ("enter", 0),
               ("enter", 1), ("exit", 1, False), ("exit", 0, False)], "with", None))
    T.append(([("new", 0, "max_cholesky_size", (0,)), ("new", 1, "cg_tolerance", (0.0,)), ("enter", 0), ("enter", 1),
               ("exit", 1, True), ("exit", 0, False)], "with", None))
    T.append(([("newc", 0, "fast_computations", {"solves": False}), ("new", 1, "_fast_solves", (True,)),
               ("enter", 1), ("enter", 0), ("exit", 0, True), ("exit", 1, False)], "call", None))
    # session 5 ------------------------------------------------------------------------------------------------
    for via in ("call", "with", "thread"):
        # the same object used for two consecutive blocks, with a class-level setter in between: each block restores
        # the value in force at ITS entry
        T.append(([("new", 0, "max_cg_iterations", (7,)), ("enter", 0), ("exit", 0, False), ("set", "max_cg_iterations", (50,)),
                   ("enter", 0), ("exit", 0, True)], via, None))
        # an object constructed INSIDE another block of the same setting, entered after that block ended
        T.append(([("new", 0, "num_trace_samples", (3,)), ("enter", 0), ("new", 1, "num_trace_samples", (5,)), ("exit", 0, False),
                   ("enter", 1), ("exit", 1, False)], via, f"C17/constructed-inside-other-block/value/via={via}"))
        T.append(([("new", 0, "cholesky_jitter", (0.25, None, None)), ("enter", 0), ("new", 1, "cholesky_jitter", (None, 3.0, 0.0)),
                   ("exit", 0, False), ("enter", 1), ("exit", 1, True)], via, f"C17/constructed-inside-other-block/dtype/via={via}"))
        # explicit falsy / None values
        T.append(([("new", 0, "debug", (False,)), ("new", 1, "debug", (None,)), ("new", 2, "debug", (0,)), ("enter", 0), ("enter", 1),
                   ("enter", 2), ("exit", 2, False), ("exit", 1, False), ("exit", 0, False)], via, f"C17/falsy-and-none/flag/via={via}"))
        T.append(([("new", 0, "max_preconditioner_size", (0,)), ("new", 1, "max_preconditioner_size", (None,)), ("enter", 0),
                   ("enter", 1), ("exit", 1, True), ("exit", 0, False)], via, f"C17/falsy-and-none/value/via={via}"))
        # deterministic_probes: every state write clears the probe cache; the flag itself is restored
        T.append(([("new", 0, "deterministic_probes", (True,)), ("poke", "deterministic_probes", 1), ("enter", 0),
                   ("poke", "deterministic_probes", 1), ("exit", 0, False), ("poke", "deterministic_probes", 1),
                   ("set", "deterministic_probes", (None,))], via, None))
        # composite used twice, and a composite nested in itself (different objects)
        T.append(([("newc", 0, "fast_computations", {"covar_root_decomposition": False, "log_prob": False, "solves": False}),
                   ("newc", 1, "fast_computations", {"log_prob": False}), ("enter", 0), ("enter", 1), ("exit", 1, False),
                   ("exit", 0, True), ("enter", 0), ("exit", 0, False)], via, f"C17/composite-nested-and-reused/fast_computations/via={via}"))
        T.append(([("newc", 0, "linalg_dtypes", {"default": torch.float}), ("newc", 1, "linalg_dtypes", {"symeig": torch.half}),
                   ("enter", 0), ("enter", 1), ("exit", 1, True), ("exit", 0, False), ("enter", 1), ("exit", 1, False)],
                  via, f"C17/composite-nested-and-reused/linalg_dtypes/via={via}"))
    # composite `__enter__` whose member number j raises: the members entered before it must be restored
    for name, kw in (("fast_computations", {"covar_root_decomposition": False, "log_prob": False, "solves": False}),
                     ("linalg_dtypes", {"default": torch.float})):
        n = len(impl.table_comps[name]["enter"]) if name in impl.table_comps else 0
        for j in range(n):
            for via in ("call", "with"):
                T.append(([("newc", 0, name, kw), ("enterfail", 0, j)], via, f"C17/composite-partial-enter/{name}/fail_at={j}"))
    return T


def run(chk, histories=None):
    classes, composites = c17_settings.generate()
    methods, readers, comp_methods = c17_bodies.generate()
    chk.rule = ("seed-random event histories (construct / enter / exit / exceptional exit / probe poke / class-level setter / "
                "composite enter with a failing member) over all setting classes and both composites incl. pre-constructed, "
                "re-used, nested re-entered, non-LIFO-exited objects, each executed by direct calls, through real `with` "
                "statements held by generator frames, or with every event on a fresh thread; plus fixed templates; distinct = "
                "distinct (event sequence, execution mode); non-trivial = at least one enter of a context")
    chk.assumptions += ["Python attribute lookup / `with` protocol as documented", "values are compared through an injective coding",
                        "the settings are process-global class attributes (no thread-locals): threads are modelled as interleavings"]
    chk.prove("LinOp.Properties.C17", ["LinOp/C17", "LinOp/Generated/C17Table.lean", "LinOp/Generated/C17Bodies.lean",
                                       "LinOp/Core/Parse.lean", "LinOp/Core/Basic.lean"])
    impl = Impl(classes, composites)
    impl.composite_enter_guarded = any(m == "__enter__" and any("try:" in st for st in body) for _, m, _, body in comp_methods)
    # dynamic cross-check of the translator: the table is the run-time class table
    import linear_operator.settings as S
    import linear_operator.beta_features as B
    bases3 = (S._feature_flag, S._value_context, S._dtype_value_context)
    rt = [n for mod in (S, B) for n, v in vars(mod).items() if isinstance(v, type) and v.__module__ == mod.__name__
          and issubclass(v, bases3) and v not in bases3]
    if sorted(rt) != sorted(c["name"] for c in classes):
        chk.proof_break("translator(C17Table)", f"class table differs from run time: {sorted(set(rt) ^ set(c['name'] for c in classes))}")
    for c, k in zip(classes, impl.cls):
        if c["base"] == "_feature_flag" and bool(k._default) != (c["default"] == "True"):
            chk.proof_break("translator(C17Table)", f"_default of {c['name']} differs at run time")
    # dynamic cross-check of the body translator: the (class, method) rows are exactly the protocol methods found in the
    # run-time class dictionaries (a method patched in at import time, or inherited from an unexpected base, shows here)
    rows = sorted((c, m) for c, m, _, _ in methods)
    rt_rows = sorted((k.__name__, m) for k in list(bases3) + impl.cls for m in c17_bodies.PROTOCOL if m in k.__dict__)
    if rows != rt_rows:
        chk.proof_break("translator(C17Bodies)", f"protocol methods differ from run time: {sorted(set(rows) ^ set(rt_rows))}")
    for k in impl.cls:
        if [b.__name__ for b in k.__mro__[1:-1]] != [next(c["base"] for c in classes if c["name"] == k.__name__)]:
            chk.proof_break("translator(C17Table)", f"MRO of {k.__name__} is not [its base]: {k.__mro__}")
    import logging
    logger0 = (S.verbose_linalg.logger.level, len(S.verbose_linalg.logger.handlers),
               [h.level for h in S.verbose_linalg.logger.handlers], logging.getLogger().level)
    base0 = small_computation()
    n, maxlen = (300, 30) if chk.tier == "quick" else (1500, 200)
    if histories is None:
        histories = templates(impl)
        for i in range(n):
            via = chk.rng.choice(["call", "call", "with", "with", "thread"])
            histories.append((gen_history(chk.rng, impl, chk.rng.randint(3, maxlen), malformed=(i % 5 == 4)), via, None))
    all_lines, all_states, owner = ["reset"], [None], [None]
    for hi, (hist, via, cell) in enumerate(histories):
        key = json.dumps([via, ev_json(hist)])
        try:
            lines, states, fails = run_history(impl, hist, via=via)
        except Exception as e:  # the protocol itself must never raise
            fails, lines, states = [(f"exception {type(e).__name__}: {e}", None)], [], []
            run_history.dirty = set()
        if well_nested(hist):
            for i in range(len(impl.cls)):
                # a member whose own __enter__ raised (`enterfail`) is outside the property's quantifier (the library's members never raise on
                # entry; the event needs a user-replaced member): such cells are model-correspondence cells only, never a verdict
                if i in run_history.dirty and (cell is None or cell.startswith("C17/composite-partial-enter")):
                    continue
                want = impl.initial[i] if impl.meta[i]["base"] == "_dtype_value_context" else impl.initial[i][:1]
                if impl.setting_val(i) != want:
                    fails.append((f"leak after well-nested history: {impl.meta[i]['name']} = {impl.setting_val(i)} (initially {want})", None))
        nontriv = any(ev[0] in ("enter", "enterfail") for ev in hist)
        chk.case(key, nontrivial=nontriv)
        chk.count("histories")
        chk.count("via:" + via)
        chk.count("events", len(hist))
        for ev in hist:
            chk.count("ev:" + ev[0])
        chk.count("well_nested" if well_nested(hist) else "not_well_nested")
        for nm in getattr(run_history, "unmodelled", []):
            chk.proof_break("translator(C17Table)", f"composite {nm} is not described by the generated table (parts/enter/exit lists)")
        if fails and cell is not None:
            chk.violation(cell, fails[0][0], {"history": ev_json(hist), "via": via, "strict": True})
        elif fails:
            small = shrink(impl, hist, lambda h: bool(spec_fails(impl, h, via)))
            what = spec_fails(impl, small, via)
            chk.violation(f"C17/history/{what[0][0].split(':')[0].split(' ')[0]}", what[0][0], {"history": ev_json(small), "via": via})
        all_lines += ["reset"] + lines
        all_states += [None] + states
        owner += [hi] * (1 + len(lines))
    _drain()
    impl.reset()
    # `value(dtype)` of per-dtype settings: all three dtypes, a tensor argument, and an unsupported dtype (RuntimeError)
    dv_lines, dv_impl = [], []
    for i, m in enumerate(impl.meta):
        if m["base"] != "_dtype_value_context":
            continue
        a, b, d = impl.raw(i)
        dv_lines.append(f"init {i} {impl.code(a)} {impl.code(b)} {impl.code(d)}")
        dv_impl.append(None)
        for dn, dt in enumerate([torch.float, torch.double, torch.half, torch.int32, torch.bfloat16]):
            for form in ("dtype", "tensor"):
                try:
                    got = impl.code(impl.cls[i].value(dt if form == "dtype" else torch.zeros(1, dtype=dt)))
                except RuntimeError:
                    got = "raise"
                want = impl.code((a, b, d)[dn]) if dn < 3 else "raise"
                chk.case(f"value-dtype {m['name']} {dt} {form}", nontrivial=True, sample=False)
                if got != want:
                    chk.violation(f"C17/value-dtype/{m['name']}/{str(dt).split('.')[-1]}/{form}", f"value({dt}) = {got}, want {want}", None)
                dv_lines.append(f"dvalue {i} {dn}")
                dv_impl.append(got)
    all_lines += ["reset"] + dv_lines
    all_states += [None] + dv_impl
    owner += [None] * (1 + len(dv_lines))
    outs = chk.run_driver("C17", all_lines)
    if outs is not None:
        bad = None
        for j, (o, st) in enumerate(zip(outs, all_states)):
            if st is not None and o != st:
                bad = j
                break
            if st is not None:
                chk.traces_validated += 1
        if bad is not None:
            hi = owner[bad]
            cellname = f"C17/correspondence/history{hi}" if hi is not None else "C17/correspondence/value-dtype"
            if hi is not None and histories[hi][2]:
                cellname = histories[hi][2] + "/correspondence"
            chk.corr_break(cellname, f"line `{all_lines[bad]}`: model {outs[bad][:200]} impl {all_states[bad][:200]}",
                           {"history": ev_json(histories[hi][0]), "via": histories[hi][1]} if hi is not None else None)
    for kind, msg in sorted(impl.reader_fails.items()):
        chk.violation(f"C17/readers/{kind}", msg, None)
    base1 = small_computation()
    if not torch.equal(base0, base1):
        chk.violation("C17/computation-outside-block", "a computation under default settings changed after the histories", None)
    chk.case("small_computation_before_after", nontrivial=True, sample=False)
    # results of computations OUTSIDE a block are unaffected by it: run the computation inside blocks of settings that do
    # change its code path (CG / Lanczos instead of Cholesky, jitter, dtypes, probe cache), leave the block normally or by
    # an exception raised in its body, and recompute outside: bit-for-bit the default result
    import contextlib
    blocks = [("max_cholesky_size=0", lambda: [S.max_cholesky_size(0)]),
              ("fast_computations=off", lambda: [S.fast_computations(False, False, False)]),
              ("cholesky_jitter=1e-2", lambda: [S.cholesky_jitter(1e-2, 1e-2, 1e-2)]),
              ("cg-path-coarse", lambda: [S.max_cholesky_size(0), S.cg_tolerance(10.0), S.max_cg_iterations(4), S.num_trace_samples(2),
                                          S.max_lanczos_quadrature_iterations(2), S.max_preconditioner_size(0)]),
              ("deterministic_probes+cg", lambda: [S.deterministic_probes(True), S.max_cholesky_size(0), S.skip_logdet_forward(True)]),
              ("linalg_dtypes=float+debug=off", lambda: [S.linalg_dtypes(torch.float), S.debug(False), S.verbose_linalg(False)])]
    for bname, mk in blocks:
        for exc in (False, True):
            inside = None
            try:
                with contextlib.ExitStack() as st:
                    for m in mk():
                        st.enter_context(m)
                    inside = small_computation()
                    if exc:
                        raise ValueError("boom")
            except Exception:  # ours, or the library refusing the coarse settings: either way an exceptional exit
                pass
            outside = small_computation()
            chk.case(f"computation-outside {bname} exc={exc}", nontrivial=True, sample=False)
            if inside is not None and not torch.equal(inside, base0):
                chk.count("computation_inside_block_differs")
            if not torch.equal(outside, base0) or S.deterministic_probes.probe_vectors is not None:
                chk.violation(f"C17/computation-outside-block/{bname}/exc={int(exc)}",
                              f"after the block the default computation gives {outside.tolist()} instead of {base0.tolist()}"
                              f" (probe cache {S.deterministic_probes.probe_vectors is not None})", None)
    # verbose_linalg: the contexts only toggle the flag; the logger (level, handlers) is never touched
    with S.verbose_linalg(True):
        inside = (S.verbose_linalg.logger.level, len(S.verbose_linalg.logger.handlers),
                  [h.level for h in S.verbose_linalg.logger.handlers], logging.getLogger().level)
    logger1 = (S.verbose_linalg.logger.level, len(S.verbose_linalg.logger.handlers),
               [h.level for h in S.verbose_linalg.logger.handlers], logging.getLogger().level)
    chk.case("verbose_linalg_logger", nontrivial=True, sample=False)
    if not (logger0 == inside == logger1) or S.verbose_linalg.on():
        chk.violation("C17/verbose_linalg/logger-untouched", f"logger state {logger0} -> inside {inside} -> after {logger1}", None)
    # no thread-locals: a block entered on a worker thread is visible on the main thread while it is open, and gone after
    import threading
    e1, e2, seen = threading.Event(), threading.Event(), {}

    def worker():
        with S.max_cholesky_size(123), S.cholesky_jitter(half_value=0.125), S.fast_computations(solves=False):
            e1.set()
            e2.wait(10)
    th = threading.Thread(target=worker)
    th.start()
    e1.wait(10)
    seen["inside"] = (S.max_cholesky_size.value(), S.cholesky_jitter.value(torch.half), S.fast_computations.solves.on())
    e2.set()
    th.join()
    seen["after"] = (S.max_cholesky_size.value(), S.cholesky_jitter.value(torch.half), S.fast_computations.solves.on())
    chk.case("threads_process_global", nontrivial=True, sample=False)
    i_mcs, i_cj, i_fs = impl.idx["max_cholesky_size"], impl.idx["cholesky_jitter"], impl.idx["_fast_solves"]
    want_after = (impl.initial[i_mcs][0], impl.initial[i_cj][2], True)
    if seen["after"] != want_after:
        chk.violation("C17/threads/restored-after-worker-block", f"after the worker's block: {seen['after']} want {want_after}", None)
    if seen["inside"] != (123, 0.125, False):
        chk.corr_break("C17/threads/process-global", f"main thread saw {seen['inside']} while a worker thread was inside the block: the "
                       "settings are no longer process-global class attributes (the model treats threads as interleavings)", None)
    impl.reset()


def _unj(x):
    return eval(x, {"torch": torch}) if isinstance(x, str) and x.startswith("torch.") else x


def replay(chk, payload):
    import ast as _ast
    classes, composites = c17_settings.generate()
    impl = Impl(classes, composites)
    impl.composite_enter_guarded = any(m == "__enter__" and any("try:" in st for st in body)
                                       for _, m, _, body in c17_bodies.generate()[2])
    hist = payload.get("payload", {}).get("history")
    if not hist:
        print("replay names broken obligations only:", json.dumps(payload.get("payload"))[:2000])
        return run(chk)
    conv = []
    for ev in hist:
        ev = list(ev)
        if ev[0] == "new":
            ev[3] = tuple(_unj(x) for x in ev[3])
        if ev[0] == "set":
            ev[2] = tuple(_unj(x) for x in ev[2])
        if ev[0] == "newc":
            ev[3] = {k: _unj(v) for k, v in ev[3].items()}
        conv.append(tuple(ev))
    via = payload.get("payload", {}).get("via", "call")
    fails = spec_fails(impl, conv, via)
    if payload.get("payload", {}).get("strict"):
        _, _, fails = run_history(impl, conv, via=via)
        fails = list(fails)
        for i in range(len(impl.cls)):
            want = impl.initial[i] if impl.meta[i]["base"] == "_dtype_value_context" else impl.initial[i][:1]
            if impl.setting_val(i) != want:
                fails.append((f"leak: {impl.meta[i]['name']} = {impl.setting_val(i)} (initially {want})", None))
        _drain()
        impl.reset()
    for f in fails:
        chk.violation(payload.get("cell") or "C17/replay", f[0], {"history": hist, "via": via})
    chk.case(json.dumps(hist))
