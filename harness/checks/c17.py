"""C17 — settings contexts are properly scoped and never leak."""
import json

import torch

from ..extract import c17_settings


def _load_classes(classes):
    import linear_operator.settings as S
    import linear_operator.beta_features as B
    res = []
    for c in classes:
        mod = S if c["file"].endswith("settings.py") else B
        res.append(getattr(mod, c["name"]))
    return res


class Impl:
    def __init__(self, classes, composites):
        import linear_operator.settings as S
        self.S = S
        self.meta = classes
        self.cls = _load_classes(classes)
        self.idx = {c["name"]: i for i, c in enumerate(classes)}
        self.table_comps = {c["name"]: c for c in composites}
        bases = (S._feature_flag, S._value_context, S._dtype_value_context)
        # composites are discovered at run time (any other class of the module with the context protocol)
        self.comps = {n: v for n, v in vars(S).items() if isinstance(v, type) and v.__module__ == S.__name__
                      and hasattr(v, "__enter__") and hasattr(v, "__exit__") and not issubclass(v, bases)
                      and not n.startswith("_")}
        self.bases = bases
        self.codes = {}
        self.initial = [self.raw(i) for i in range(len(self.cls))]
        # which class attributes are the class's OWN at start (others are inherited from the base class): reset()
        # must not create own attributes, or a write to the base class attribute (a leak into every setting that
        # was never entered) would be shielded by the harness itself
        self.own = [{k for k in ("_state", "_global_value", "_global_float_value", "_global_double_value",
                                 "_global_half_value") if k in c.__dict__} for c in self.cls]
        self.base_initial = {b: {k: v for k, v in vars(b).items() if k in ("_state", "_global_value", "_global_float_value",
                                                                             "_global_double_value", "_global_half_value")}
                             for b in bases}

    def code(self, v, flag=False):
        if v is None:
            return "n"
        if flag and isinstance(v, bool):
            return "1" if v else "0"
        k = repr(v)
        if k not in self.codes:
            self.codes[k] = 10 + len(self.codes)
        return str(self.codes[k])

    def raw(self, i):
        c, m = self.cls[i], self.meta[i]
        if m["base"] == "_feature_flag":
            return (c._state, getattr(c, "probe_vectors", None) if "probe_vectors" in c.__dict__ or hasattr(c, "probe_vectors") else None, None)
        if m["base"] == "_value_context":
            return (c._global_value, None, None)
        return (c._global_float_value, c._global_double_value, c._global_half_value)

    def _restore(self, c, i, name, value):
        if name in self.own[i]:
            setattr(c, name, value)
        elif name in c.__dict__:
            delattr(c, name)  # back to the inherited attribute

    def reset(self):
        for b, attrs in self.base_initial.items():
            for k, v in attrs.items():
                setattr(b, k, v)
        for i, (c, m) in enumerate(zip(self.cls, self.meta)):
            a, b, d = self.initial[i]
            if m["base"] == "_feature_flag":
                self._restore(c, i, "_state", a)
                if hasattr(c, "probe_vectors"):
                    c.probe_vectors = None
            elif m["base"] == "_value_context":
                self._restore(c, i, "_global_value", a)
            else:
                self._restore(c, i, "_global_float_value", a)
                self._restore(c, i, "_global_double_value", b)
                self._restore(c, i, "_global_half_value", d)

    def slots(self, i):
        m = self.meta[i]
        a, b, d = self.raw(i)
        flag = m["base"] == "_feature_flag"
        if flag:
            on = "T" if self.cls[i].on() else "F"
            assert self.cls[i].off() == (not self.cls[i].on())
            b = None if b is None else 1
        else:
            on = "-"
            if m["base"] == "_value_context":
                assert self.cls[i].value() == a or a != a
            else:
                assert self.cls[i].value(torch.float) == a and self.cls[i].value(torch.double) == b \
                    and self.cls[i].value(torch.half) == d
        bs = ("n" if b is None else "1") if flag else self.code(b)
        return f"{self.code(a, flag)}|{bs}|{self.code(d)}|{on}"

    def state(self):
        return " ".join(self.slots(i) for i in range(len(self.cls)))

    def setting_val(self, i):
        a, b, d = self.raw(i)
        return (a, b, d) if self.meta[i]["base"] == "_dtype_value_context" else (a,)


VALUES = [0, 0.0, False, 1, 2, 3, 5, 7, 10, 50, 1e-3, 1e-6, 0.5, torch.float, torch.double, 1000, None]


def gen_history(rng, impl, length, malformed=False):
    """Abstract events; object names are ints.  Mostly valid `with`-like use plus non-LIFO exits,
    pre-constructed and re-used objects; `malformed` adds re-entry of active objects."""
    hist, objs, active = [], [], []
    ncls = len(impl.cls)
    focus = rng.sample(range(ncls), k=min(ncls, rng.choice([1, 2, 3, 6])))  # concentrate on few classes
    for _ in range(length):
        r = rng.random()
        inactive = [o for o in objs if o not in active]
        if r < 0.28 or not objs:
            o = len(objs)
            if rng.random() < 0.2:
                name = rng.choice(sorted(impl.comps))
                if name == "fast_computations":
                    kw = {k: rng.random() < 0.5 for k in ("covar_root_decomposition", "log_prob", "solves")}
                else:
                    kw = {}
                    if rng.random() < 0.7:
                        kw["default"] = rng.choice([torch.float, torch.double])
                    for k in ("symeig", "cholesky"):
                        if rng.random() < 0.4:
                            kw[k] = rng.choice([torch.float, torch.double, torch.half])
                hist.append(("newc", o, name, kw))
            else:
                i = rng.choice(focus) if rng.random() < 0.8 else rng.randrange(ncls)
                base = impl.meta[i]["base"]
                if base == "_feature_flag":
                    args = (rng.choice([True, False, True, False, None]),)
                elif base == "_value_context":
                    args = (rng.choice(VALUES),)
                else:
                    args = tuple(rng.choice([None, None, 1e-4, 1e-2, 0.25, 3.0, 0.0, 0.0]) for _ in range(3))  # 0.0: a falsy but explicit value
                hist.append(("new", o, impl.meta[i]["name"], args))
            objs.append(o)
        elif r < 0.58 and (inactive or (malformed and active)):
            pool = inactive if (inactive and not (malformed and active and rng.random() < 0.3)) else active
            o = rng.choice(pool)
            hist.append(("enter", o))
            if o not in active:
                active.append(o)
        elif r < 0.93 and active:
            o = active[-1] if rng.random() < 0.8 else rng.choice(active)
            active.remove(o)
            hist.append(("exit", o, rng.random() < 0.3))
        elif r < 0.97:
            hist.append(("poke", "deterministic_probes", rng.choice([None, 1])))
        elif active:
            o = active.pop()
            hist.append(("exit", o, False))
    while active:  # unwind LIFO
        hist.append(("exit", active.pop(), False))
    return hist


def run_history(impl, hist, want_lines=True):
    """Run on the real library.  Returns (lean_lines, impl_states, spec_failures)."""
    impl.reset()
    objs, parts, lines, states, fails = {}, {}, [], [], []
    fails_unmodelled = []
    desync = [False]
    active_count = {}
    before_enter = {}
    reentered = set()
    serial = [0]

    def new_simple(i, inst):
        serial[0] += 1
        return (i, serial[0], inst)

    def emit(line):
        lines.append(line)
        states.append(impl.state())

    # initial globals
    for i in range(len(impl.cls)):
        a, b, d = impl.raw(i)
        flag = impl.meta[i]["base"] == "_feature_flag"
        lines.append(f"init {i} {impl.code(a, flag)} {impl.code(None if flag else b)} {impl.code(d)}")
        states.append(impl.state() if i == len(impl.cls) - 1 else None)
    for ev in hist:
        prev = [impl.setting_val(i) for i in range(len(impl.cls))]
        touched = set()
        if ev[0] == "new":
            _, o, name, args = ev
            i = impl.idx[name]
            obj = impl.cls[i](*args)
            base = impl.meta[i]["base"]
            if base == "_feature_flag":
                inst = (impl.code(obj.state, True), "n", "n")
            elif base == "_value_context":
                inst = (impl.code(obj._instance_value), "n", "n")
            else:
                inst = tuple(impl.code(v) for v in (obj._instance_float_value, obj._instance_double_value, obj._instance_half_value))
            serial[0] += 1
            objs[o] = obj
            parts[o] = [(i, serial[0])]
            emit(f"new {i} {serial[0]} {' '.join(inst)}")
        elif ev[0] == "newc":
            _, o, name, kw = ev
            comp = impl.table_comps.get(name)
            obj = getattr(impl.S, name)(**kw)
            objs[o] = obj
            # part contexts as found on the object at run time (attributes, or containers of contexts)
            found = []
            for attr, v in vars(obj).items():
                vs = v if isinstance(v, (list, tuple)) else (list(v.values()) if isinstance(v, dict) else [v])
                for j, w in enumerate(vs):
                    if isinstance(w, impl.bases) and type(w).__name__ in impl.idx:
                        found.append((attr if len(vs) == 1 else f"{attr}[{j}]", w))
            byattr = {}
            for attr, po in found:
                i = impl.idx[type(po).__name__]
                inst = impl.code(po.state, True) if impl.meta[i]["base"] == "_feature_flag" else impl.code(po._instance_value)
                serial[0] += 1
                byattr[attr] = (i, serial[0])
                emit(f"new {i} {serial[0]} {inst} n n")
            if comp is not None and sorted(a for a, _, _ in comp["parts"]) == sorted(byattr):
                parts[o] = {"enter": [byattr[a] for a in comp["enter"]], "exit": [byattr[a] for a in comp["exit"]],
                            "all": list(byattr.values()), "modelled": True}
            else:  # the table does not describe this composite: property checks only, no model lines
                parts[o] = {"enter": list(byattr.values()), "exit": list(byattr.values()), "all": list(byattr.values()),
                            "modelled": False}
                fails_unmodelled.append(name)
        elif ev[0] == "enter":
            o = ev[1]
            p = parts[o]
            seq = p["enter"] if isinstance(p, dict) else p
            if active_count.get(o, 0) > 0:
                reentered.add(o)
            active_count[o] = active_count.get(o, 0) + 1
            before_enter[o] = {i: impl.setting_val(i) for i, _ in seq}
            objs[o].__enter__()
            touched = {i for i, _ in seq}
            # "takes effect on entry": every slot the context names now holds the instance value
            pobjs = [objs[o]] if not isinstance(p, dict) else [w for w in _part_objects(objs[o], impl)]
            for po in pobjs:
                i = impl.idx.get(type(po).__name__)
                if i is None:
                    continue
                base = impl.meta[i]["base"]
                if base == "_feature_flag":
                    want, got = (po.state,), impl.setting_val(i)
                elif base == "_value_context":
                    want, got = (po._instance_value,), impl.setting_val(i)
                else:
                    inst = (po._instance_float_value, po._instance_double_value, po._instance_half_value)
                    cur = impl.setting_val(i)
                    want = tuple(w for w in inst if w is not None)
                    got = tuple(c for w, c in zip(inst, cur) if w is not None)
                if not _same(want, got):
                    fails.append((f"enter-did-not-take-effect {impl.meta[i]['name']}: got {got} want {want}", ev))
            # emit one line per part; intermediate impl states are not observable -> compare only the last
            if isinstance(p, dict) and not p.get("modelled", True):
                desync[0] = True
            for j, (i, k) in enumerate(seq):
                lines.append(f"enter {i} {k}")
                states.append(None if j < len(seq) - 1 else impl.state())
        elif ev[0] == "exit":
            o, exc = ev[1], ev[2]
            p = parts[o]
            seq = p["exit"] if isinstance(p, dict) else p
            if exc:
                try:
                    raise ValueError("boom")
                except ValueError as e:
                    r = objs[o].__exit__(ValueError, e, e.__traceback__)
            else:
                r = objs[o].__exit__(None, None, None)
            if r:
                fails.append(("exit-swallows-exception", ev))
            active_count[o] = active_count.get(o, 0) - 1
            touched = {i for i, _ in seq}
            for j, (i, k) in enumerate(seq):
                lines.append(f"exit {i} {k} {1 if exc else 0}")
                states.append(None if j < len(seq) - 1 else impl.state())
            if o not in reentered and o in before_enter:
                for i, want in before_enter[o].items():
                    if impl.setting_val(i) != want:
                        fails.append((f"exit-did-not-restore {impl.meta[i]['name']}: got {impl.setting_val(i)} want {want}", ev))
            if active_count[o] <= 0:
                reentered.discard(o)
        elif ev[0] == "poke":
            i = impl.idx[ev[1]]
            impl.cls[i].probe_vectors = None if ev[2] is None else torch.zeros(1)
            emit(f"poke {i} {'n' if ev[2] is None else 1}")
        now = [impl.setting_val(i) for i in range(len(impl.cls))]
        for i in range(len(impl.cls)):
            if i not in touched and now[i] != prev[i]:
                fails.append((f"cross-talk: {ev[0]} changed {impl.meta[i]['name']} {prev[i]} -> {now[i]}", ev))
    if desync[0]:  # a composite the table does not describe was used: no model comparison for this history
        states = [None] * len(states)
    run_history.unmodelled = sorted(set(fails_unmodelled))
    return lines, states, fails


def _same(a, b):
    return len(a) == len(b) and all((x is y) or (type(x) is type(y) and x == y) for x, y in zip(a, b))


def _part_objects(obj, impl):
    for attr, v in vars(obj).items():
        vs = v if isinstance(v, (list, tuple)) else (list(v.values()) if isinstance(v, dict) else [v])
        for w in vs:
            if isinstance(w, impl.bases):
                yield w


def well_nested(hist):
    stack = []
    for ev in hist:
        if ev[0] == "enter":
            if ev[1] in stack:
                return False
            stack.append(ev[1])
        elif ev[0] == "exit":
            if not stack or stack[-1] != ev[1]:
                return False
            stack.pop()
    return not stack


def spec_fails(impl, hist):
    _, _, fails = run_history(impl, hist)
    if well_nested(hist):
        for i in range(len(impl.cls)):
            if impl.setting_val(i) != (impl.initial[i] if impl.meta[i]["base"] == "_dtype_value_context" else impl.initial[i][:1]):
                fails.append((f"leak after well-nested history: {impl.meta[i]['name']} = {impl.setting_val(i)}", None))
    impl.reset()
    return fails


def shrink(impl, hist, pred):
    hist = list(hist)
    changed = True
    while changed:
        changed = False
        for i in range(len(hist) - 1, -1, -1):
            cand = hist[:i] + hist[i + 1:]
            try:
                if pred(cand):
                    hist = cand
                    changed = True
            except Exception:
                pass
    return hist


def _j(x):
    if isinstance(x, (int, bool, str, float, type(None))):
        return x
    if isinstance(x, dict):
        return {k: _j(v) for k, v in x.items()}
    if isinstance(x, (list, tuple)):
        return [_j(v) for v in x]
    return str(x)


def ev_json(hist):
    return [_j(ev) for ev in hist]


def small_computation():
    import linear_operator
    torch.manual_seed(0)
    a = torch.randn(6, 6, dtype=torch.float64)
    A = a @ a.T + 6 * torch.eye(6, dtype=torch.float64)
    b = torch.arange(6, dtype=torch.float64)
    op = linear_operator.to_linear_operator(A)
    iq, ld = op.inv_quad_logdet(b.unsqueeze(-1), logdet=True)
    return torch.cat([op.solve(b.unsqueeze(-1)).flatten(), iq.flatten(), ld.flatten()])


def run(chk, histories=None):
    classes, composites = c17_settings.generate()
    chk.rule = ("seed-random event histories (construct / enter / exit / exceptional exit / probe poke) over all setting "
                "classes and both composites incl. pre-constructed, re-used, non-LIFO-exited objects; distinct = distinct "
                "event sequence; non-trivial = at least one enter of a context whose value differs from the value in force")
    chk.assumptions += ["Python attribute lookup / `with` protocol as documented", "values are compared through an injective coding"]
    chk.prove("LinOp.Properties.C17", ["LinOp/C17", "LinOp/Generated/C17Table.lean", "LinOp/Core/Parse.lean", "LinOp/Core/Basic.lean"])
    impl = Impl(classes, composites)
    # dynamic cross-check of the translator: the table is the run-time class table
    import linear_operator.settings as S
    import linear_operator.beta_features as B
    rt = [n for mod in (S, B) for n, v in vars(mod).items() if isinstance(v, type) and v.__module__ == mod.__name__
          and issubclass(v, (S._feature_flag, S._value_context, S._dtype_value_context))
          and v not in (S._feature_flag, S._value_context, S._dtype_value_context)]
    if sorted(rt) != sorted(c["name"] for c in classes):
        chk.proof_break("translator(C17Table)", f"class table differs from run time: {sorted(set(rt) ^ set(c['name'] for c in classes))}")
    for c, k in zip(classes, impl.cls):
        if c["base"] == "_feature_flag" and bool(k._default) != (c["default"] == "True"):
            chk.proof_break("translator(C17Table)", f"_default of {c['name']} differs at run time")
    base0 = small_computation()
    n, maxlen = (300, 30) if chk.tier == "quick" else (1500, 200)
    if histories is None:
        histories = []
        # templates first: the two defects fixed in the repo (must stay fixed)
        histories.append([("new", 0, "max_cholesky_size", (5,)), ("new", 1, "max_cholesky_size", (7,)), ("enter", 1),
                          ("enter", 0), ("exit", 0, False), ("exit", 1, False)])
        histories.append([("new", 0, "cholesky_jitter", (None, None, 0.25)), ("enter", 0), ("exit", 0, False)])
        histories.append([("new", 0, "cholesky_jitter", (0.5, 0.5, 0.5)), ("new", 1, "cholesky_jitter", (0.0, 0.0, None)), ("enter", 0),
                          ("enter", 1), ("exit", 1, False), ("exit", 0, False)])
        histories.append([("new", 0, "max_cholesky_size", (0,)), ("new", 1, "cg_tolerance", (0.0,)), ("enter", 0), ("enter", 1),
                          ("exit", 1, True), ("exit", 0, False)])
        histories.append([("newc", 0, "fast_computations", {"solves": False}), ("new", 1, "_fast_solves", (True,)),
                          ("enter", 1), ("enter", 0), ("exit", 0, True), ("exit", 1, False)])
        for i in range(n):
            histories.append(gen_history(chk.rng, impl, chk.rng.randint(3, maxlen), malformed=(i % 5 == 4)))
    all_lines, all_states, owner = ["reset"], [None], [None]
    for hi, hist in enumerate(histories):
        key = json.dumps(ev_json(hist))
        try:
            lines, states, fails = run_history(impl, hist)
        except Exception as e:  # the protocol itself must never raise
            fails, lines, states = [(f"exception {type(e).__name__}: {e}", None)], [], []
        if well_nested(hist):
            for i in range(len(impl.cls)):
                want = impl.initial[i] if impl.meta[i]["base"] == "_dtype_value_context" else impl.initial[i][:1]
                if impl.setting_val(i) != want:
                    fails.append((f"leak after well-nested history: {impl.meta[i]['name']} = {impl.setting_val(i)}", None))
        nontriv = any(ev[0] == "enter" for ev in hist)
        chk.case(key, nontrivial=nontriv)
        chk.count("histories")
        chk.count("events", len(hist))
        for ev in hist:
            chk.count("ev:" + ev[0])
        chk.count("well_nested" if well_nested(hist) else "not_well_nested")
        for nm in getattr(run_history, "unmodelled", []):
            chk.proof_break("translator(C17Table)", f"composite {nm} is not described by the generated table (parts/enter/exit lists)")
        if fails:
            small = shrink(impl, hist, lambda h: bool(spec_fails(impl, h)))
            what = spec_fails(impl, small)
            chk.violation(f"C17/history/{what[0][0].split(':')[0].split(' ')[0]}", what[0][0], {"history": ev_json(small)})
        all_lines += ["reset"] + lines
        all_states += [None] + states
        owner += [hi] * (1 + len(lines))
    impl.reset()
    outs = chk.run_driver("C17", all_lines)
    if outs is not None:
        bad = None
        for j, (o, st) in enumerate(zip(outs, all_states)):
            if st is not None and o != st:
                bad = j
                break
            if st is not None:
                chk.traces_validated += 1
        if bad is not None:
            hi = owner[bad]
            chk.corr_break(f"C17/correspondence/history{hi}", f"line `{all_lines[bad]}`: model {outs[bad][:200]} impl {all_states[bad][:200]}",
                           {"history": ev_json(histories[hi]) if hi is not None else None})
    base1 = small_computation()
    if not torch.equal(base0, base1):
        chk.violation("C17/computation-outside-block", "a computation under default settings changed after the histories", None)
    chk.case("small_computation_before_after", nontrivial=True, sample=False)


def _unj(x):
    return eval(x, {"torch": torch}) if isinstance(x, str) and x.startswith("torch.") else x


def replay(chk, payload):
    import ast as _ast
    classes, composites = c17_settings.generate()
    impl = Impl(classes, composites)
    hist = payload.get("payload", {}).get("history")
    if not hist:
        print("replay names broken obligations only:", json.dumps(payload.get("payload"))[:2000])
        return run(chk)
    conv = []
    for ev in hist:
        ev = list(ev)
        if ev[0] == "new":
            ev[3] = tuple(_unj(x) for x in ev[3])
        if ev[0] == "newc":
            ev[3] = {k: _unj(v) for k, v in ev[3].items()}
        conv.append(tuple(ev))
    fails = spec_fails(impl, conv)
    for f in fails:
        chk.violation("C17/replay", f[0], {"history": hist})
    chk.case(json.dumps(hist))
