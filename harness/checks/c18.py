"""C18 — Gaussian sampling uses a true square root of the covariance."""
import json
import random
import sys
from fractions import Fraction

import torch

from .. import catalogue
from ..common import fmt_list


class Noise:
    """Patches torch.randn for calls issued from a `zero_mean_mvn_samples` frame: hands out a
    prescribed flat stream (recorded), everything else goes to the real randn."""

    def __init__(self):
        self.real = torch.randn
        self.mode = None
        self.calls = []  # (shape, tensor)
        self.stream = None
        self.pos = 0

    def __call__(self, *size, **kw):
        caller = sys._getframe(1).f_code.co_name
        if caller != "zero_mean_mvn_samples" or self.mode is None:
            return self.real(*size, **kw)
        if len(size) == 1 and isinstance(size[0], (tuple, list, torch.Size)):
            size = tuple(size[0])
        size = tuple(int(s) for s in size)
        numel = 1
        for s in size:
            numel *= s
        dtype = kw.get("dtype") or torch.get_default_dtype()
        if self.mode == "zeros":
            t = torch.zeros(size, dtype=dtype)
        elif self.mode == "stream":
            vals = [self.stream(self.pos + i) for i in range(numel)]
            t = torch.tensor(vals, dtype=dtype).reshape(size)
        self.pos += numel
        self.calls.append((size, t))
        return t

    def start(self, mode, stream=None):
        self.mode, self.stream, self.pos, self.calls = mode, stream, 0, []

    def stop(self):
        self.mode = None


def fr(x):
    return Fraction(float(x))


def mat_line(t):
    """2-D tensor -> protocol matrix with exact rationals of the floats."""
    rows = t.tolist()
    return ";".join(",".join(_f(v) for v in r) for r in rows)


def _f(v):
    f = Fraction(float(v))
    return str(f.numerator) if f.denominator == 1 else f"{f.numerator}/{f.denominator}"


def parse_mat(s):
    return [[float(Fraction(x)) for x in r.split(",")] for r in s.split(";")]


def close(a, b, tol):
    a, b = a.double(), b.double()
    scale = max(1.0, float(b.abs().max()))
    return a.shape == b.shape and bool(((a - b).abs().max() <= tol * scale))


def batch_members(t, nbatch):
    """Flatten the leading nbatch dims."""
    return t.reshape(-1, *t.shape[nbatch:])


def extra_instances(rng, dtype, batch):
    """Instances beyond the shared catalogue: single-point interpolation with non-unit weights, and operators
    DERIVED from other operators (cat_rows / add_low_rank / add_jitter / scaling / slicing), whose samplers read
    caches transplanted by the derivation."""
    from linear_operator.operators import (DenseLinearOperator, InterpolatedLinearOperator, KroneckerProductLinearOperator,
                                           ToeplitzLinearOperator, DiagLinearOperator)
    from ..catalogue import Inst, interp_matrix, kron, psd_int, ri, toeplitz_dense
    out = []
    n, nb = 3, 4
    base = psd_int(rng, batch, nb, dtype)
    idx = torch.tensor([[rng.randrange(nb)] for _ in range(n)]).expand(*batch, n, 1).contiguous()
    val = ri(rng, (*batch, n, 1), 2, 3, dtype)
    W = interp_matrix(idx, val, nb)
    out.append(Inst("Interpolated[1pt]", lambda c: (lambda s, t: (InterpolatedLinearOperator(DenseLinearOperator(s), idx.clone(), t, idx.clone(), t.clone()),
                                                                  W @ base @ W.mT, [s, t]))(c(base), c(val)), psd=False))
    A = psd_int(rng, batch, n, dtype)
    B = ri(rng, (*batch, 2, n), -1, 1, dtype)
    D = B @ torch.linalg.solve(A.double(), B.mT.double()).to(dtype) + torch.eye(2, dtype=dtype)
    full = torch.cat([torch.cat([A, B.mT], -1), torch.cat([B, D], -1)], -2)
    out.append(Inst("CatRows(Dense)", lambda c: (lambda s, t, u: (DenseLinearOperator(s).cat_rows(t, u), full, [s, t, u]))(c(A), c(B), c(D)), psd=True))
    V = ri(rng, (*batch, n, 2), -2, 2, dtype)
    out.append(Inst("AddLowRank(Dense)", lambda c: (lambda s, t: (DenseLinearOperator(s).add_low_rank(t), A + V @ V.mT, [s, t]))(c(A), c(V)), psd=True))
    out.append(Inst("AddJitter(Dense)", lambda c: (lambda s: (DenseLinearOperator(s).add_jitter(0.5), A + 0.5 * torch.eye(n, dtype=dtype), [s]))(c(A)), psd=True))
    K1, K2 = psd_int(rng, batch, 2, dtype), psd_int(rng, batch, n, dtype)
    out.append(Inst("Slice(Kronecker)", lambda c: (lambda s, t: (KroneckerProductLinearOperator(s, t)[..., 1:5, 1:5], kron(K1, K2)[..., 1:5, 1:5], [s, t]))(c(K1), c(K2)), psd=True))
    out.append(Inst("Scaled(Dense)", lambda c: (lambda s: (DenseLinearOperator(s) * 2.0, 2.0 * A, [s]))(c(A)), psd=True))
    col = ri(rng, (*batch, n), 0, 1, dtype)
    col[..., 0] += 2 * n
    d = ri(rng, (*batch, n), 1, 3, dtype)
    out.append(Inst("Toeplitz+Diag", lambda c: (lambda s, t: (ToeplitzLinearOperator(s) + DiagLinearOperator(t), toeplitz_dense(col) + torch.diag_embed(d), [s, t]))(c(col), c(d)), psd=True))
    return out


def run(chk, only=None):
    import linear_operator
    from linear_operator import settings
    from linear_operator.operators import (BlockDiagLinearOperator, BlockInterleavedLinearOperator, DiagLinearOperator,
                                           IdentityLinearOperator, InterpolatedLinearOperator, PsdSumLinearOperator,
                                           SumBatchLinearOperator, ConstantDiagLinearOperator)
    chk.rule = ("catalogue of PSD operator instances (every class with a sampler path; depth-2 nestings) x batch shape x k x dtype x "
                "settings (max_cholesky_size both sides, fast root on/off, ciq); the sampler's linear map is recovered exactly by "
                "feeding one-hot noise through a patched torch.randn; non-trivial = covariance not 1x1 and not identity; plus "
                "(lzdef) Lanczos-side sampling from rank-deficient / mixed-rank batches (Dense, ConstantMul, Matmul; n in {12, 30}; both dtypes) and "
                "(hist) every explicit method= of root_decomposition / root_inv_decomposition called on the same object before sampling "
                "(default and small max_root_decomposition_size; every PSD catalogue class at n = 3, ConstantMul / Kronecker / Dense at n = 150); "
                "(roots) Chol both orientations / symeig root / KroneckerAddedDiag constant-diagonal root / BatchRepeat member map vs the Lean model, "
                "(shapes) size-1 batch dims x k in {1, 2} x {default, ciq}, (deriv) getitem / add_jitter / add_low_rank / cat_rows / scaling / added diagonal of every PSD "
                "catalogue class after {no, cholesky, root_decomposition, root_inv_decomposition, diagonalization} cached on the parent, "
                "(ciq-precond) recorded rhs / weights / shifts / preconditioner vs sum_q w_q K (s_q P - K)^-1 (S z)")
    chk.assumptions += ["a draw x = L z with z ~ N(0, I) has covariance L L^T (probability theory not modelled)",
                        "torch.randn is only used for the sampler's own noise inside zero_mean_mvn_samples frames",
                        "root_decomposition correctness is C06's property; here R R^T is compared with the dense covariance with the tolerance of the root method"]
    # ---- translator: source text of every mirrored sampler / root override -> lean/LinOp/Generated/C18Facts.lean
    from ..extract import c18_samplers
    facts = c18_samplers.generate()
    translator_crosscheck(chk, c18_samplers, dict(facts))
    chk.prove("LinOp.Properties.C18", ["LinOp/C18", "LinOp/Core", "LinOp/Generated/C18Facts.lean"])
    noise = Noise()
    torch.randn = noise
    lines, expect = [], []
    import time as _t0
    t_run0 = _t0.time()
    try:
        quick = chk.tier == "quick"
        dtypes = [torch.float64, torch.float32]
        batches = [(), (2,)] if quick else [(), (2,), (2, 3), (1,)]
        ks = [1, 3] if quick else [1, 2, 5]
        configs = [("default", {}), ("lanczos", {"max_cholesky_size": 0}), ("nofast", {"fast_root": False})]
        configs.append(("ciq", {"ciq": True}))
        configs.append(("ciq-precond", {"ciq": True, "precond": True}))
        # query histories on the same object before sampling (cached factorizations steer the root method)
        configs += [("after-diagonalization", {"pre": "diagonalization"}), ("after-root_inv", {"pre": "root_inv_decomposition"}),
                    ("after-eigh", {"pre": "eigh"}), ("after-cholesky", {"pre": "cholesky"})]
        for dtype in dtypes:
            for batch in batches:
                insts = [(it, 3) for it in catalogue.instances(chk.rng, dtype, batch, 3, psd=True, depth=2)]
                if dtype == torch.float64:  # sizes 1 (the 1x1 shortcut of the base sampler) and 2 / 4
                    insts += [(it, 1) for it in catalogue.instances(chk.rng, dtype, batch, 1, psd=True, depth=1)]
                    if not quick:
                        insts += [(it, 4) for it in catalogue.instances(chk.rng, dtype, batch, 4, psd=True, depth=2)]
                insts += [(it, 3) for it in extra_instances(chk.rng, dtype, batch)]
                for it, nsz in insts:
                    for cname, cfg in configs:
                        if cname != "default" and (dtype == torch.float32 or (quick and batch != () and cname != "ciq-precond")):
                            continue
                        if cname == "ciq" and (quick and it.name not in ("Dense[psd]", "Kronecker", "AddedDiag", "Diag")):
                            continue
                        if cname == "ciq-precond" and it.name not in ("AddedDiag", "AddedDiag(Toeplitz,ConstantDiag)", "Toeplitz+Diag"):
                            continue  # classes whose _preconditioner() is active once min_preconditioning_size allows it
                        if it.name.startswith(("CatRows", "AddLowRank")) and cname in ("lanczos", "ciq"):
                            continue  # transplants assume mutually inverse cached roots (open finding D30 for Lanczos roots)
                        if cname.startswith("after-") and quick and it.name not in (
                                "Dense[psd]", "Kronecker", "AddedDiag", "Toeplitz", "KroneckerAddedDiag[const]", "PsdSum",
                                "BlockDiag", "SumBatch", "ConstantMul", "Sum(Kronecker,Diag)", "LowRankRootAddedDiag"):
                            continue
                        k = chk.rng.choice(ks)
                        cell = f"C18/{it.name}[b={batch}|n={nsz}|{str(dtype)[6:]}]/{cname}"
                        if only and only != cell:
                            continue
                        try:
                            one_case(chk, noise, it, dtype, batch, k, cname, cfg, cell, lines, expect, settings)
                        except Exception as e:  # sampling a PSD operator must not fail
                            chk.violation(cell + "/exception", f"{type(e).__name__}: {str(e)[:300]}",
                                          {"cell": cell, "seed": chk.seed, "tier": chk.tier})
        # ---- detection-gap families: Lanczos-side rank-deficient batches, explicit-method histories (c18_gaps.py)
        from . import c18_gaps
        if not only or only.startswith("C18/lzdef/"):
            c18_gaps.lzdef_cases(chk, noise, settings, only, lines, expect, mat_line)
        if not only or only.startswith("C18/hist/"):
            c18_gaps.hist_cases(chk, noise, settings, only, extra_instances)
        import time as _time
        t_ext = _time.time()
        from . import c18_ext
        if not only or only.startswith(("C18/roots/", "C18/shapes/")):
            c18_ext.ext_cases(chk, noise, settings, only, lines, expect, mat_line)
        from . import c18_deriv
        if not only or only.startswith("C18/deriv/"):
            c18_deriv.deriv_cases(chk, noise, settings, only)
        chk.extra["c18_session5_families_s"] = round(_time.time() - t_ext, 1)
        chk.extra["c18_earlier_families_s"] = round(t_ext - t_run0, 1)
        if __import__("os").environ.get("VERIF_C18_TIMING"):
            print(f"[C18 timing] earlier families {chk.extra['c18_earlier_families_s']}s, session-5 families {chk.extra['c18_session5_families_s']}s", file=sys.stderr)
    finally:
        torch.randn = noise.real
    outs = chk.run_driver("C18", lines)
    if outs is not None:
        for o, (cell, want, tol) in zip(outs, expect):
            if o in ("bad-op", "none"):
                chk.corr_break(cell + "/layout", f"driver answered {o}", {"cell": cell})
                continue
            if isinstance(want, tuple) and want[0] == "members":
                # BatchRepeat: the model names, for every output member, the base member whose root it must equal
                got_idx = [int(v) for v in o.split(",")]
                if len(got_idx) == len(want[1]) and all(g in hits for g, hits in zip(got_idx, want[1])):
                    chk.traces_validated += 1
                else:
                    chk.corr_break(cell + "/layout", f"model member map {got_idx} vs implementation (base members with an equal root) {want[1]}",
                                   {"cell": cell, "seed": chk.seed, "tier": chk.tier})
                continue
            got = torch.tensor(parse_mat(o), dtype=torch.float64)
            if close(got, want, tol):
                chk.traces_validated += 1
            else:
                # the model's layout differs from the implementation's: which one is right is decided by the
                # covariance check above; here it is a correspondence break
                chk.corr_break(cell + "/layout", f"model layout {got.flatten()[:6].tolist()} vs impl {want.flatten()[:6].tolist()}",
                               {"cell": cell, "seed": chk.seed, "tier": chk.tier})


def translator_crosscheck(chk, ex, facts):
    """Dynamic cross-check of the translator: the functions found by `ast` in the files are the ones bound at run time
    (same normalised text from inspect.getsource of the run-time attribute)."""
    import ast
    import importlib
    import inspect
    import textwrap
    for key, rel, cls, func in ex.TARGETS:
        if facts.get(key, "<absent>") == "<absent>":
            chk.proof_break("translator(C18Facts)", f"{key}: {cls}.{func} not found in {rel}")
            continue
        mod = importlib.import_module(rel[:-3].replace("/", "."))
        obj = getattr(getattr(mod, cls), func, None) if cls else getattr(mod, func, None)
        try:
            obj = inspect.unwrap(obj)
            fn = ast.parse(textwrap.dedent(inspect.getsource(obj))).body[0]
            txt = ex._norm(fn.body)
        except Exception as e:
            chk.count("translator_dynamic_unavailable")
            continue
        if txt not in facts[key]:
            chk.proof_break("translator(C18Facts)", f"{key}: run-time {cls}.{func} differs from the text extracted from {rel}")
        else:
            chk.count("translator_dynamic_ok")


def one_case(chk, noise, it, dtype, batch, k, cname, cfg, cell, lines, expect, settings):
    from contextlib import ExitStack
    from linear_operator.operators import (BlockDiagLinearOperator, BlockInterleavedLinearOperator, DiagLinearOperator,
                                           IdentityLinearOperator, InterpolatedLinearOperator, PsdSumLinearOperator,
                                           SumBatchLinearOperator)
    f32 = dtype == torch.float32
    with ExitStack() as st:
        if "max_cholesky_size" in cfg:
            st.enter_context(settings.max_cholesky_size(cfg["max_cholesky_size"]))
        if cfg.get("fast_root") is False:
            st.enter_context(settings.fast_computations(covar_root_decomposition=False))
        if cfg.get("ciq"):
            st.enter_context(settings.ciq_samples(True))
            st.enter_context(settings.minres_tolerance(1e-7))
            st.enter_context(settings.num_contour_quadrature(25))
        if cfg.get("precond"):
            st.enter_context(settings.min_preconditioning_size(0))
            st.enter_context(settings.max_preconditioner_size(2))
        torch.manual_seed(chk.rng.randrange(2 ** 31))
        op = it.build()
        if cfg.get("pre"):
            try:
                getattr(op, cfg["pre"])()
            except Exception:
                chk.count("prequery_unsupported")
                return
        A = it.dense.double()
        n = A.shape[-1]
        batch = tuple(A.shape[:-2])  # the operator's own batch shape (BatchRepeat adds dims)
        nb_ = len(batch)
        # ---- shape
        noise.start("stream", lambda p: float(((p * 7 + 3) % 5) - 2))
        x = op.zero_mean_mvn_samples(k)
        calls = list(noise.calls)
        noise.stop()
        chk.case(f"{cell}|k={k}", nontrivial=(n > 1 and not isinstance(op, IdentityLinearOperator)))
        chk.count("cls:" + type(op).__name__)
        chk.count("cfg:" + cname)
        if tuple(x.shape) != (k, *batch, n) or x.dtype != dtype:
            chk.violation(cell + "/shape", f"samples shape {tuple(x.shape)} dtype {x.dtype}, expected {(k, *batch, n)} {dtype}",
                          {"cell": cell, "seed": chk.seed, "tier": chk.tier})
            return
        # ---- the sampler's linear map by one-hot noise (k = 1)
        noise.start("zeros")
        z0 = op.zero_mean_mvn_samples(1)
        m_total = noise.pos
        noise.stop()
        if float(z0.abs().max()) != 0.0:
            chk.violation(cell + "/affine", "zero noise gives non-zero draws", {"cell": cell, "seed": chk.seed, "tier": chk.tier})
            return
        out_numel = z0.numel()
        L = torch.zeros(out_numel, m_total, dtype=torch.float64)
        for j in range(m_total):
            noise.start("stream", lambda p, j=j: 1.0 if p == j else 0.0)
            col = op.zero_mean_mvn_samples(1)
            noise.stop()
            L[:, j] = col.reshape(-1).double()
        cov = L @ L.T
        want = torch.block_diag(*[a for a in batch_members(A, nb_)]) if nb_ else A
        if cname in ("ciq", "ciq-precond"):
            tol = 2e-2
        elif cname.startswith("after-"):
            tol = 1e-6
        elif cname == "lanczos":
            tol = 1e-3
        else:
            tol = 5e-3 if f32 else 1e-8
        ok = close(cov, want, tol)
        if not ok and cname == "lanczos":
            # Lanczos roots are exact only for well separated spectra: fall back to the root the operator itself returns
            ev = torch.linalg.eigvalsh(A).flatten().sort().values
            gaps = (ev[1:] - ev[:-1]).abs().min() / ev.abs().max() if ev.numel() > 1 else torch.tensor(1.0)
            if float(gaps) < 0.05:
                chk.count("lanczos_skipped_small_gap")
                ok = True
        if not ok:
            chk.violation(cell + "/covariance", f"L L^T differs from the covariance: max err {(cov - want).abs().max():.3e} (tol {tol})",
                          {"cell": cell, "seed": chk.seed, "tier": chk.tier})
            return
        members = int(torch.Size(batch).numel()) if batch else 1
        # ---- CIQ: the sampler is sum_q w_q K (s_q I - K)^-1 z (Lean: ciq_linear / ciq_cov); recorded quadrature
        from linear_operator.operators import LinearOperator
        if cname == "ciq" and not f32 and n > 1 and type(op).zero_mean_mvn_samples is LinearOperator.zero_mean_mvn_samples:
            ciq_tie(chk, noise, op, A, L, k, batch, n, members, cell, lines, expect)
        if cname == "ciq-precond" and not f32 and n > 1 and type(op).zero_mean_mvn_samples is LinearOperator.zero_mean_mvn_samples:
            from . import c18_ext
            c18_ext.precond_tie(chk, noise, op, A, k, batch, n, members, cell)
        # ---- Kronecker root above max_cholesky_size: Kronecker product of the factor roots (Lean: kronFlat / kron_cov)
        if cname == "lanczos" and not f32 and type(op).__name__ == "KroneckerProductLinearOperator":
            root = op.root_decomposition().root
            fs = getattr(root, "linear_ops", None)
            if fs is not None and len(fs) == 2:
                R1, R2, Rd = fs[0].to_dense(), fs[1].to_dense(), root.to_dense()
                for mi in range(members):
                    r1, r2 = R1.reshape(members, *R1.shape[-2:])[mi], R2.reshape(members, *R2.shape[-2:])[mi]
                    lines.append(f"kron {r1.shape[0]} {r1.shape[1]} {r2.shape[0]} {r2.shape[1]} {mat_line(r1)} {mat_line(r2)}")
                    expect.append((cell, Rd.reshape(members, *Rd.shape[-2:])[mi].double(), 1e-12))
                chk.count("tie:kron")
            else:
                chk.corr_break(cell + "/layout", f"Kronecker root above max_cholesky_size is a {type(root).__name__}, model expects a Kronecker product of 2 factor roots", {"cell": cell})
        # ---- layout correspondence with the Lean model (unbatched members), same noise stream
        if cname != "default" or f32:
            return
        stream = lambda p: float(((p * 7 + 3) % 5) - 2)
        tolm = 1e-9

        def base_draws(sub):
            noise.start("stream", stream)
            xb = sub.zero_mean_mvn_samples(k)
            noise.stop()
            return xb

        if isinstance(op, (BlockDiagLinearOperator, BlockInterleavedLinearOperator, SumBatchLinearOperator)):
            xb = base_draws(op.base_linear_op)  # (k, *batch, nb, nn)
            nblk, nn = xb.shape[-2], xb.shape[-1]
            name = {"BlockDiagLinearOperator": "blockDiag", "BlockInterleavedLinearOperator": "blockInterleaved",
                    "SumBatchLinearOperator": "sumBatch"}[type(op).__name__]
            xb_m = xb.reshape(k, members, nblk * nn)
            x_m = x.reshape(k, members, n)
            for mi in range(members):
                lines.append(f"{name} {nblk} {nn} {k} {mat_line(xb_m[:, mi])}")
                expect.append((cell, x_m[:, mi].double(), tolm))
        elif isinstance(op, PsdSumLinearOperator):
            noise.start("stream", stream)
            parts = [p.zero_mean_mvn_samples(k) for p in op.linear_ops]
            noise.stop()
            xb = torch.stack(parts, dim=-2)  # (k, *batch, nparts, n)
            xb_m = xb.reshape(k, members, len(parts) * n)
            x_m = x.reshape(k, members, n)
            for mi in range(members):
                lines.append(f"sumBatch {len(parts)} {n} {k} {mat_line(xb_m[:, mi])}")
                expect.append((cell, x_m[:, mi].double(), tolm))
        elif isinstance(op, InterpolatedLinearOperator):
            xb = base_draws(op.base_linear_op)  # (k, *batch, nBase)
            nbase = xb.shape[-1]
            idx = op.left_interp_indices.reshape(members, n, -1)
            val = op.left_interp_values.reshape(members, n, -1)
            xb_m = xb.reshape(k, members, nbase)
            x_m = x.reshape(k, members, n)
            for mi in range(members):
                lines.append(f"interp {nbase} {n} {idx.shape[-1]} {k} {mat_line(idx[mi])} {mat_line(val[mi])} {mat_line(xb_m[:, mi])}")
                expect.append((cell, x_m[:, mi].double(), tolm))
        elif isinstance(op, IdentityLinearOperator):
            pass
        elif isinstance(op, DiagLinearOperator):
            sd = op._diag.sqrt().reshape(members, n) if op._diag.shape[-1] == n else op._diag.sqrt().expand(*batch, n).reshape(members, n)
            z = calls[0][1].reshape(k, members, n)
            x_m = x.reshape(k, members, n)
            for mi in range(members):
                lines.append(f"diag {n} {k} {','.join(_f(v) for v in sd[mi].tolist())} {mat_line(z[:, mi])}")
                expect.append((cell, x_m[:, mi].double(), tolm))
        elif n > 1 and len(calls) == 1:
            R = op.root_decomposition().root.to_dense()
            m = R.shape[-1]
            if calls[0][0] == (*batch, m, k):
                csv = lambda t: ",".join(str(int(v)) for v in t) if len(t) else "-"
                lines.append(f"shape {csv(tuple(R.shape[:-2]))} {csv(batch)} {n} {m} {calls[0][0][-2]} {k}")
                expect.append((cell, torch.tensor([[float(v) for v in x.shape]], dtype=torch.float64), 0.0))
                if type(op).__name__ == "ConstantMulLinearOperator" and bool(torch.all(op._constant >= 0)):
                    Rb = op.base_linear_op.root_decomposition().root.to_dense()
                    if Rb.shape[-2:] == (n, m):
                        Rb_m = Rb.expand(*batch, n, m).reshape(members, n, m)
                        sc = (op._constant ** 0.5).expand(batch).reshape(members)
                        for mi in range(members):
                            lines.append(f"constMulRoot {n} {m} {_f(sc[mi])} {mat_line(Rb_m[mi])}")
                            expect.append((cell, R.reshape(members, n, m)[mi].double(), 1e-12))
                        chk.count("tie:constMulRoot")
                R_m = R.reshape(members, n, m)
                z = calls[0][1].reshape(members, m, k)
                x_m = x.reshape(k, members, n)
                for mi in range(members):
                    lines.append(f"generic {n} {m} {k} {mat_line(R_m[mi])} {mat_line(z[mi])}")
                    expect.append((cell, x_m[:, mi].double(), tolm))
            else:
                chk.corr_break(cell + "/layout", f"generic sampler drew noise of shape {calls[0][0]}, model expects {(*batch, m, k)}",
                               {"cell": cell})


def ciq_tie(chk, noise, op, A, L, k, batch, n, members, cell, lines, expect):
    """Records what contour_integral_quad hands to the sampler (solves, weights, shifts) and ties
    (1) the final reduction to the Lean model `ciq` (same noise stream), and
    (2) the recovered linear map L to the quadrature operator sum_q w_q K (s_q I - K)^-1 built densely from the
        recorded weights / shifts (the object of theorem ciq_cov)."""
    import importlib
    cq = importlib.import_module("linear_operator.utils.contour_integral_quad")  # (the package re-exports the function under the same name)
    real, rec, depth = cq.contour_integral_quad, [], [0]

    def spy(*a, **kw):
        depth[0] += 1
        try:
            res = real(*a, **kw)
        finally:
            depth[0] -= 1
        if depth[0] == 0:
            rec.append(res)
        return res

    cq.contour_integral_quad = spy
    try:
        noise.start("stream", lambda p: float(((p * 7 + 3) % 5) - 2))
        x = op.zero_mean_mvn_samples(k)
        noise.stop()
    finally:
        cq.contour_integral_quad = real
    if len(rec) != 1:
        chk.corr_break(cell + "/layout", f"CIQ sampler called contour_integral_quad {len(rec)} times", {"cell": cell})
        return
    solves, weights, _, shifts = rec[0]
    Q = weights.shape[0]
    # weights / shifts are computed per output batch member (k, *batch): identical along the sample dimension
    if tuple(weights.shape) == (Q, k, *batch, 1, 1) and bool((weights == weights[:, :1]).all()):
        weights = weights[:, 0]
    if tuple(shifts.shape) == (Q + 1, k, *batch) and bool((shifts == shifts[:, :1]).all()):
        shifts = shifts[:, 0]
    if tuple(solves.shape) != (Q, k, *batch, n, 1) or weights.numel() != Q * members:
        chk.corr_break(cell + "/layout", f"CIQ solves {tuple(solves.shape)} weights {tuple(weights.shape)}: model expects {(Q, k, *batch, n, 1)}", {"cell": cell})
        return
    sol_m = solves.reshape(Q, k, members, n)
    w_m = weights.reshape(Q, members)
    x_m = x.reshape(k, members, n)
    for mi in range(members):
        rows = torch.cat([sol_m[q, :, mi] for q in range(Q)], 0)  # (Q*k, n), q-major
        lines.append(f"ciq {Q} {n} {k} {','.join(_f(v) for v in w_m[:, mi].tolist())} {mat_line(rows)}")
        expect.append((cell, x_m[:, mi].double(), 1e-9))
    chk.count("tie:ciq")
    # (2) the quadrature operator from the recorded rule
    if tuple(shifts.shape) == (Q + 1, *batch):
        s_m = shifts.reshape(Q + 1, members)[1:].double()
        A_m = A.reshape(members, n, n)
        eye = torch.eye(n, dtype=torch.float64)
        Rs = [sum(w_m[q, mi].double() * (A_m[mi] @ torch.linalg.inv(s_m[q, mi] * eye - A_m[mi])) for q in range(Q)) for mi in range(members)]
        Rq = torch.block_diag(*Rs)
        if L.shape == Rq.shape and not close(L, Rq, 1e-4):
            chk.corr_break(cell + "/quadrature-operator", f"recovered map differs from sum_q w_q K (s_q I - K)^-1: max err {(L - Rq).abs().max():.2e}", {"cell": cell})
        else:
            chk.traces_validated += 1


def replay(chk, payload):
    p = payload.get("payload") or {}
    cell = p.get("cell")
    if not cell:
        print("replay names broken obligations only:", json.dumps(p)[:1500])
        return run(chk)
    chk.rng = random.Random(f"C18:{p.get('seed', 0)}")
    chk.tier = p.get("tier", chk.tier)
    if cell.startswith(("C18/lzdef/", "C18/hist/", "C18/roots/", "C18/shapes/", "C18/deriv/")):
        return run(chk, only=cell)  # per-cell random streams: the payload cell re-creates exactly that input
    run(chk, only=cell.split("/")[0] + "/" + "/".join(cell.split("/")[1:3]))
