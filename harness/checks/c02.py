"""C02 — composition and structure-preserving rewrites never change the matrix.

impl  = the library called in-process on catalogue instances (harness/catalogue.py);
spec  = the same expression on the instances' INDEPENDENT dense tensors with torch broadcasting;
model = the Lean dispatch model (LinOp/C02/Model.lean) run by the driver on the first batch element:
        predicted CLASS TREE of the result + exact rational values.
"""
import json
import os
import re
import time
import zlib

import torch

from ..common import fmt_rat, fmt_list, fmt_mat
from ..extract import c02_dispatch
from .. import catalogue as C

PID = "C02"


# ----------------------------------------------------------------------------------------------- helpers
def san(name):
    return name.replace("[", "<").replace("]", ">").replace(" ", "")


def lo():
    import linear_operator.operators as O
    return O


def is_op(x):
    from linear_operator.operators import LinearOperator
    return isinstance(x, LinearOperator)


MODELLED = {
    "DenseLinearOperator": "Dense", "DiagLinearOperator": "Diag", "ConstantDiagLinearOperator": "ConstantDiag",
    "IdentityLinearOperator": "Identity", "ZeroLinearOperator": "Zero", "TriangularLinearOperator": "Triangular",
    "ToeplitzLinearOperator": "Toeplitz", "RootLinearOperator": "Root", "LowRankRootLinearOperator": "LowRankRoot",
    "CholLinearOperator": "Chol", "KroneckerProductLinearOperator": "KroneckerProduct",
    "KroneckerProductTriangularLinearOperator": "KroneckerProductTriangular",
    "KroneckerProductDiagLinearOperator": "KroneckerProductDiag", "AddedDiagLinearOperator": "AddedDiag",
    "KroneckerProductAddedDiagLinearOperator": "KroneckerProductAddedDiag",
    "LowRankRootAddedDiagLinearOperator": "LowRankRootAddedDiag", "SumLinearOperator": "Sum",
    "PsdSumLinearOperator": "PsdSum", "SumKroneckerLinearOperator": "SumKronecker",
    "MatmulLinearOperator": "Matmul", "MulLinearOperator": "Mul", "ConstantMulLinearOperator": "ConstantMul",
}
# classes that override methods the model gives the base behaviour for: no model line when they occur
NO_MODEL = {"InterpolatedLinearOperator", "BlockDiagLinearOperator", "BlockInterleavedLinearOperator",
            "SumBatchLinearOperator", "BatchRepeatLinearOperator", "KeOpsLinearOperator"}
_OPQ = {}


def opq_id(cls_name):
    if not _OPQ:
        import linear_operator.operators as O
        names = sorted(n for n in dir(O) if n.endswith("LinearOperator"))
        for i, n in enumerate(names):
            _OPQ[n] = i
    return _OPQ.get(cls_name, 97)


def children(op):
    n = type(op).__name__
    if n in ("AddedDiagLinearOperator", "KroneckerProductAddedDiagLinearOperator", "LowRankRootAddedDiagLinearOperator"):
        return [op._linear_op, op._diag_tensor]
    if n in ("SumLinearOperator", "PsdSumLinearOperator", "SumKroneckerLinearOperator", "KroneckerProductLinearOperator",
             "KroneckerProductTriangularLinearOperator", "KroneckerProductDiagLinearOperator"):
        return list(op.linear_ops)
    if n in ("MatmulLinearOperator", "MulLinearOperator"):
        return [op.left_linear_op, op.right_linear_op]
    if n in ("RootLinearOperator", "LowRankRootLinearOperator", "CholLinearOperator"):
        return [op.root]
    if n == "TriangularLinearOperator":
        return [op._tensor]
    if n == "ConstantMulLinearOperator":
        return [op.base_linear_op]
    return []


def tree(op):
    """Class tree of a library object in the notation of `Op.tree` (Lean)."""
    if torch.is_tensor(op):
        return "Tensor"
    n = type(op).__name__
    if n not in MODELLED or (n.startswith("KroneckerProduct") and n != "KroneckerProductAddedDiagLinearOperator" and len(op.linear_ops) != 2):
        return f"Opaque{opq_id(n)}"
    if n == "MulLinearOperator":
        return "Mul(*)"
    ch = children(op)
    flag = ""
    if n in ("TriangularLinearOperator", "CholLinearOperator", "KroneckerProductTriangularLinearOperator"):
        flag = "[U]" if getattr(op, "upper", False) else "[L]"   # orientation is part of the class tree
    return MODELLED[n] + flag + ("(" + ",".join(tree(c) for c in ch) + ")" if ch else "")


def collapse_mul(t):
    """Replace the arguments of every Mul(...) in a Lean tree by `*` (root decompositions are numerical)."""
    out, i = [], 0
    while i < len(t):
        if t.startswith("Mul(", i) and (i == 0 or not t[i - 1].isalnum()):
            depth, j = 1, i + 4
            while depth:
                depth += {"(": 1, ")": -1}.get(t[j], 0)
                j += 1
            out.append("Mul(*)")
            i = j
        else:
            out.append(t[i])
            i += 1
    return "".join(out)


def classes_in(op, acc=None):
    acc = set() if acc is None else acc
    if is_op(op):
        acc.add(type(op).__name__)
        for a in op._args:
            classes_in(a, acc)
    return acc


def b0(t, nb):
    return t[(0,) * nb] if nb else t


def mat(t):
    return fmt_mat([[float(x) for x in row] for row in t.tolist()]) if t.numel() else "-"


def vec(t):
    return fmt_list([float(x) for x in t.tolist()])


class NotEncodable(Exception):
    pass


def enc(op):
    """Prefix encoding of a library operator (first batch element) for the Lean driver."""
    n = type(op).__name__
    nb = len(op.shape) - 2
    r, c = op.shape[-2], op.shape[-1]
    if n in NO_MODEL:
        raise NotEncodable(n)

    def sub(x):
        return enc(x)
    if n == "DenseLinearOperator":
        return f"D {r} {c} {mat(b0(op.tensor.expand(*op.shape), nb))}"
    if n == "DiagLinearOperator":
        return f"G {r} {vec(b0(op._diag.expand(*op.shape[:-1]), nb))}"
    if n == "ConstantDiagLinearOperator":
        return f"C {r} {fmt_rat(float(b0(op.diag_values.expand(*op.shape[:-2], 1), nb)[0]))}"
    if n == "IdentityLinearOperator":
        return f"I {r}"
    if n == "ZeroLinearOperator":
        return f"Z {r} {c}"
    if n == "TriangularLinearOperator":
        return f"T {1 if op.upper else 0} {sub(op._tensor)}"
    if n == "ToeplitzLinearOperator":
        return f"P {r} {vec(b0(op.column.expand(*op.shape[:-1]), nb))}"
    if n in ("RootLinearOperator", "LowRankRootLinearOperator", "CholLinearOperator"):
        tag = {"RootLinearOperator": "R", "LowRankRootLinearOperator": "L", "CholLinearOperator": "H"}[n]
        if n == "CholLinearOperator" and getattr(op, "upper", False):
            tag = "HU"
        return tag + " " + sub(op.root)
    if n in ("KroneckerProductLinearOperator", "KroneckerProductTriangularLinearOperator", "KroneckerProductDiagLinearOperator") \
            and len(op.linear_ops) == 2:
        tag = {"KroneckerProductLinearOperator": "K", "KroneckerProductTriangularLinearOperator": "KT",
               "KroneckerProductDiagLinearOperator": "KD"}[n]
        if tag == "KT":
            tag = f"KT {1 if getattr(op, 'upper', False) else 0}"
        return f"{tag} {sub(op.linear_ops[0])} {sub(op.linear_ops[1])}"
    if n in ("AddedDiagLinearOperator", "KroneckerProductAddedDiagLinearOperator", "LowRankRootAddedDiagLinearOperator"):
        tag = {"AddedDiagLinearOperator": "AD", "KroneckerProductAddedDiagLinearOperator": "KAD",
               "LowRankRootAddedDiagLinearOperator": "LAD"}[n]
        return f"{tag} {sub(op._linear_op)} {sub(op._diag_tensor)}"
    if n in ("SumLinearOperator", "PsdSumLinearOperator"):
        return f"{'S' if n == 'SumLinearOperator' else 'PS'} {len(op.linear_ops)} " + " ".join(sub(x) for x in op.linear_ops)
    if n == "SumKroneckerLinearOperator" and len(op.linear_ops) == 2:
        return f"SK {sub(op.linear_ops[0])} {sub(op.linear_ops[1])}"
    if n == "MatmulLinearOperator":
        return f"MM {sub(op.left_linear_op)} {sub(op.right_linear_op)}"
    if n == "MulLinearOperator":
        return f"MU {sub(op.left_linear_op)} {sub(op.right_linear_op)}"
    if n == "ConstantMulLinearOperator":
        k = op._constant
        k = k.expand(*op.shape[:-2]) if k.dim() else k
        return f"CM {fmt_rat(float(b0(k, nb) if k.dim() else k))} {sub(op.base_linear_op)}"
    if n.startswith("KroneckerProduct") or n == "SumKroneckerLinearOperator":
        raise NotEncodable(n)
    # any other class: opaque, value from its own dense form
    return f"O {opq_id(n)} {r} {c} {mat(b0(op.to_dense(), nb))}"


GENERAL = re.compile(r"not positive definite|are not positive definite|does not allow a root decomposition|not implemented"
                     r"|is not supported|not supported", re.I)
# messages with which a specific operation declares an argument combination unsupported
BY_OP = {
    "add": r"Trailing batch shapes must match",
    "sub": r"Trailing batch shapes must match",
    "mul": r"expects two LinearOperators of the same size|Must have same diag_shape",
    "div": r"Attempted to divide by a ZeroLinearOperator",
    "unsqueeze": r"Can only unsqueeze batch dimensions of",
    "unsq": r"Can only unsqueeze batch dimensions of",
    "expand": r"Invalid expand arguments|but this is the concatenated dimension",
    "_expand_batch": r"but this is the concatenated dimension",
    "repeat": r"Invalid repeat arguments",
    "permute": r"cannot permute the non-batch",
    "transpose": r"Cannot transpose batch dimension",
    "prod": r"only works on batch dimensions|requires a dim argument",
    "sum": r"Invalid dim",
    "add_diagonal": r"only defined for square",
    "add_jitter": r"only defined for square",
}


def declared_unsupported(e, opkind=""):
    """Is this exception the library saying `not supported` (as opposed to an error from inside)?"""
    from linear_operator.utils.errors import NotPSDError
    if isinstance(e, (NotImplementedError, NotPSDError)):
        return True
    if isinstance(e, (RuntimeError, ValueError)):
        if GENERAL.search(str(e)):
            return True
        for k, pat in BY_OP.items():
            if opkind.startswith(k) and re.search(pat, str(e), re.I):
                return True
    return False


def dense_of(x):
    return x if torch.is_tensor(x) else x.to_dense()


def compare(got, want, exact):
    """-> None or failure kind."""
    if tuple(got.shape) != tuple(want.shape):
        return f"shape", f"shape {tuple(got.shape)} != {tuple(want.shape)}"
    if got.dtype != want.dtype:
        return "dtype", f"dtype {got.dtype} != {want.dtype}"
    tol = 1e-9 if got.dtype == torch.float64 else 1e-4
    if not exact:
        tol = 1e-6 if got.dtype == torch.float64 else 2e-3
    scale = max(1.0, float(want.abs().max()) if want.numel() else 1.0)
    if want.numel() and not torch.allclose(got, want, atol=tol * scale, rtol=0):
        return "value", f"max abs diff {float((got - want).abs().max()):.3g}"
    return None


# ----------------------------------------------------------------------------------------------- the checker
class Runner:
    def __init__(self, chk):
        self.chk = chk
        self.lines, self.meta = [], []   # model lines and (cell, impl_tree, impl_dense0, payload)
        self.dump = [] if os.environ.get("C02_DUMP") else None
        if self.dump is not None:   # development aid: log every failure (the Check object caps its lists)
            v0, c0 = chk.violation, chk.corr_break

            def v(cell, what, payload=None):
                self.dump.append(("V" if chk.known(cell) is None else "K", cell, what))
                return v0(cell, what, payload)

            def c(cell, what, payload=None):
                self.dump.append(("C" if chk.known(cell) is None else "K", cell, what))
                return c0(cell, what, payload)
            chk.violation, chk.corr_break = v, c

    def record(self, cell, desc, impl_fn, spec_fn, payload, exact=True, model=None, opkind=""):
        """Run one case.  impl_fn() -> library result; spec_fn() -> dense tensor (None / raises: undefined)."""
        chk = self.chk
        try:
            want = spec_fn()
        except Exception:
            return None
        if want is None:
            return None
        chk.case(desc, nontrivial=bool(want.numel() > 1 and (want != 0).any()))
        chk.count("cases")
        try:
            res = impl_fn()
        except Exception as e:
            if declared_unsupported(e, opkind or cell.split("/")[2]):
                chk.count("declared-unsupported")
                return None
            chk.count("raised")
            chk.violation(f"{cell}/raise:{type(e).__name__}", f"{desc}: {type(e).__name__}: {str(e)[:160]}", payload)
            return None
        try:
            got = dense_of(res)
        except Exception as e:
            chk.violation(f"{cell}/raise-to_dense:{type(e).__name__}", f"{desc}: to_dense: {type(e).__name__}: {str(e)[:160]}", payload)
            return None
        bad = compare(got, want.to(got.dtype) if got.dtype != want.dtype and False else want, exact)
        if bad is None and is_op(res) and tuple(res.shape) != tuple(want.shape):
            bad = ("shape", f"operator shape {tuple(res.shape)} != {tuple(want.shape)}")
        if bad is not None:
            chk.count("impl!=spec:" + bad[0])
            chk.violation(f"{cell}/{bad[0]}", f"{desc}: {bad[1]} (result {tree(res)})", payload)
            return None
        if model is not None and is_op(res):
            nb = got.dim() - 2
            self.lines.append(model)
            self.meta.append((cell, tree(res), b0(got, nb), payload, exact))
        return res

    def flush(self):
        chk = self.chk
        outs = chk.run_driver("C02", self.lines) if self.lines else []
        if outs is None:
            return
        for line, out, (cell, itree, idense, payload, exact) in zip(self.lines, outs, self.meta):
            parts = out.split(" ")
            if parts[0] != "ok":
                chk.corr_break(f"{cell}/tree", f"model says `{out[:80]}`, implementation returned {itree}; line `{line[:200]}`", payload)
                continue
            mtree = collapse_mul(parts[1])
            if isinstance(payload, dict) and (payload.get("bdiff") or payload.get("kind") in ("lun", "run", "one3", "bc", "one2")):
                # broadcasting may wrap operands without `_expand_batch` in BatchRepeat: compare modulo opaque ids
                mtree, itree = re.sub(r"Opaque\d+", "Opaque", mtree), re.sub(r"Opaque\d+", "Opaque", itree)
            if mtree != itree:
                chk.corr_break(f"{cell}/tree", f"class tree: model {mtree} vs implementation {itree}", payload)
                continue
            if (exact or (isinstance(payload, dict) and payload.get("mexact"))) and "Mul(*)" not in itree and parts[4] != "-":
                rows = [[float(__import__('fractions').Fraction(x)) for x in r.split(",")] for r in parts[4].split(";")]
                mt = torch.tensor(rows, dtype=idense.dtype)
                tol = (1e-9 if idense.dtype == torch.float64 else 1e-4) * (1 if 'Toeplitz' not in itree else 1e3)
                if tuple(mt.shape) != tuple(idense.shape) or not torch.allclose(mt, idense, atol=tol * max(1.0, float(idense.abs().max())), rtol=0):
                    chk.corr_break(f"{cell}/model-value", f"value: model {parts[4][:80]} vs implementation {idense.tolist()}", payload)
                    continue
            chk.traces_validated += 1
        self.lines, self.meta = [], []


# sweep configuration (the size-1 sweep re-runs the pair / scalar / unary parts with n = 1)
SIZE = {"n": 3, "kinds": None, "primary": "same2", "all": False, "batches": None}
BATCH_KINDS = {"same1": ((1,), (1,)), "one2": ((1,), (2,)), "none": ((), ()), "same2": ((2,), (2,)), "lun": ((), (2,)), "run": ((2,), ()), "one3": ((1,), (3,)),
               "bc": ((2, 1), (3,))}
SMALL6 = ["Dense", "Dense[psd]", "Diag", "Diag[signed]", "ConstantDiag", "Identity", "Zero", "Toeplitz", "Triangular[lower]",
          "Triangular[upper]", "Chol[lower]", "Root", "LowRankRoot", "AddedDiag", "LowRankRootAddedDiag", "Sum", "PsdSum",
          "ConstantMul", "Mul"]
DIAGLIKE = ("Diag", "ConstantDiag", "Identity", "KroneckerDiag")


def size1_customs(rng, dtype, batch):
    """True 1x1 instances of the classes whose catalogue entry is larger than 1x1 at n = 1."""
    from linear_operator.operators import (
        BlockDiagLinearOperator, BlockInterleavedLinearOperator, ConstantDiagLinearOperator, DenseLinearOperator, DiagLinearOperator,
        KroneckerProductAddedDiagLinearOperator, KroneckerProductDiagLinearOperator, KroneckerProductLinearOperator,
        KroneckerProductTriangularLinearOperator, MaskedLinearOperator, MatmulLinearOperator, SumKroneckerLinearOperator,
        TriangularLinearOperator)
    v = lambda lo=1, hi=3: C.ri(rng, (*batch, 1, 1), lo, hi, dtype)
    a, b, c, d = v(), v(), v(), v()
    e = C.ri(rng, (*batch, 1), 1, 3, dtype)
    r1, r2 = C.ri(rng, (*batch, 1, 2), -2, 2, dtype), C.ri(rng, (*batch, 2, 1), -2, 2, dtype)
    g = C.ri(rng, (*batch, 2, 2), -2, 2, dtype)
    kp = lambda x, y: KroneckerProductLinearOperator(DenseLinearOperator(x.clone()), DenseLinearOperator(y.clone()))
    mk = [
        ("Kronecker", lambda: (kp(a, b), a * b), True),
        ("KroneckerDiag", lambda: (KroneckerProductDiagLinearOperator(DiagLinearOperator(a[..., 0].clone()), DiagLinearOperator(b[..., 0].clone())), a * b), True),
        ("KroneckerTriangular", lambda: (KroneckerProductTriangularLinearOperator(TriangularLinearOperator(a.clone()), TriangularLinearOperator(b.clone())), a * b), False),
        ("KroneckerAddedDiag[diag]", lambda: (KroneckerProductAddedDiagLinearOperator(kp(a, b), DiagLinearOperator(e.clone())), a * b + e.unsqueeze(-1)), True),
        ("KroneckerAddedDiag[const]", lambda: (KroneckerProductAddedDiagLinearOperator(kp(a, b), ConstantDiagLinearOperator(e.clone(), diag_shape=1)), a * b + e.unsqueeze(-1)), True),
        ("SumKronecker", lambda: (SumKroneckerLinearOperator(kp(a, b), kp(c, d)), a * b + c * d), True),
        ("BlockDiag", lambda: (BlockDiagLinearOperator(DenseLinearOperator(a.unsqueeze(-3).clone())), a), True),
        ("BlockInterleaved", lambda: (BlockInterleavedLinearOperator(DenseLinearOperator(a.unsqueeze(-3).clone())), a), True),
        ("Matmul", lambda: (MatmulLinearOperator(DenseLinearOperator(r1.clone()), DenseLinearOperator(r2.clone())), r1 @ r2), False),
        ("Masked", lambda: (MaskedLinearOperator(DenseLinearOperator(g.clone()), torch.tensor([False, True]), torch.tensor([True, False])),
                                 g[..., 1:2, 0:1]), False),
    ]
    return [CustomInst(nm, f, psd=psd) for nm, f, psd in mk]


def _zero_root(it):
    """A root-form instance whose root factor is exactly zero for some batch element (possible at n = 1): the operator is then
    the zero matrix and root-based operations on it are outside the PSD grammar in a value-dependent way."""
    if it.name not in ("Root", "LowRankRoot", "LowRankRootAddedDiag", "Mul"):
        return False
    op = it.build()
    roots = []
    for o in (op, getattr(op, "_linear_op", None), getattr(op, "left_linear_op", None), getattr(op, "right_linear_op", None)):
        if o is not None and hasattr(o, "root"):
            roots.append(o.root.to_dense())
    return any(bool((r.abs().sum((-1, -2)) == 0).any()) for r in roots)


def build_insts(rng, dtype, batch, n, thorough):
    its = C.instances(rng, dtype, batch, n, depth=2 if thorough else 1)
    for _ in range(50):   # (only ever needed for n = 1) redraw until no root factor is identically zero: keeps cells seed-stable
        if not any(_zero_root(it) for it in its):
            break
        its = C.instances(rng, dtype, batch, n, depth=2 if thorough else 1)
    its += C.instances(rng, dtype, batch, 2 * n, classes=SMALL6)
    try:   # upper-orientation Cholesky operator (opt-in entry of the catalogue; it is positive definite)
        ex = C.instances(rng, dtype, batch, n, classes=["Chol[upper]"], extra=True)
        for it in ex:
            it.psd = True
        its += ex
    except TypeError:
        pass
    res = []
    if n == 1:   # the size-1 sweep: only instances with a dimension of size 1, plus true 1x1 instances of the other classes
        its = [it for it in its if min(it.shape[-2:]) == 1 and max(it.shape[-2:]) <= 2]
        its += size1_customs(rng, dtype, batch)
    for it in its:
        if "f32only" in it.tags and dtype != torch.float32:
            continue
        if "nobatch" in it.tags and batch:
            continue
        it.cname = san(it.name) + f"@{it.shape[-2]}x{it.shape[-1]}"
        res.append(it)
    return res


class TensorInst:
    """A plain tensor as an operand."""
    def __init__(self, rng, dtype, batch, r, c):
        self.dense = C.ri(rng, (*batch, r, c), dtype=dtype)
        self.name, self.cname, self.shape = "Tensor", f"Tensor@{r}x{c}", tuple(self.dense.shape)
        self.psd, self.exact, self.tags, self.square = False, True, set(), r == c

    def build(self):
        return self.dense.clone()


def pair_ops(a, b):
    """Which binary operations are in the property's grammar for this pair."""
    ops = []
    ta, tb = a.name == "Tensor", b.name == "Tensor"
    if a.shape[-2:] == b.shape[-2:]:
        rootish = lambda x: x.name.split("[")[0] in ("Root", "LowRankRoot", "Chol")
        # adding a root-form operator goes through add_low_rank: PSD operands only
        if not ((rootish(b) and not (a.psd or ta)) or (rootish(a) and tb and False)):
            ops += ["add", "sub"]
        base = lambda x: x.name.split("[")[0].split("(")[0]
        easy = lambda x: base(x) in DIAGLIKE + ("Dense", "Zero", "Tensor")
        if (a.psd and b.psd) or easy(a) or base(b) in ("Dense", "Zero", "Tensor"):
            if not (ta and tb):
                ops.append("mul")
    if a.shape[-1] == b.shape[-2] and not (ta and tb):
        ops.append("matmul")
    return ops


PYOP = {"add": lambda x, y: x + y, "sub": lambda x, y: x - y, "mul": lambda x, y: x * y, "matmul": lambda x, y: x @ y}
SYM = {"add": "+", "sub": "-", "mul": "*m", "matmul": "@"}


SUM_FAMILY = ("SumKronecker", "PsdSum", "AddedDiag", "KroneckerAddedDiag[diag]", "KroneckerAddedDiag[const]", "LowRankRootAddedDiag",
              "Sum[toeplitz+diag]", "Sum")


def closed_forms(R, chk, cell, desc, res, dense, payload):
    """A result class with wrong closed forms is a value bug even if to_dense agrees: logdet / solve of a PSD sum."""
    n = dense.shape[-1]
    rhs = torch.arange(1, 2 * n + 1, dtype=dense.dtype).reshape(n, 2) / n
    for nm, fi, fs in (("logdet", lambda o: o.logdet(), lambda d: torch.logdet(d)),
                       ("solve", lambda o: o.solve(rhs.clone()), lambda d: torch.linalg.solve(d, rhs.expand(*d.shape[:-2], n, 2)))):
        chk.count("op:closed-" + nm)
        R.record(f"{cell}/{nm}", f"{nm}({desc})", lambda fi=fi: fi(res), lambda fs=fs: fs(dense), dict(payload, closed=nm), exact=False,
                 opkind=nm)


TRI_FAMILY = ("Triangular[lower]", "Triangular[upper]", "Diag", "Diag[signed]", "ConstantDiag", "Identity", "Chol[lower]", "Chol[upper]",
              "KroneckerDiag", "KroneckerTriangular")
STRUCTURED = ("TriangularLinearOperator", "DiagLinearOperator", "ConstantDiagLinearOperator", "IdentityLinearOperator",
              "KroneckerProductDiagLinearOperator", "KroneckerProductTriangularLinearOperator", "CholLinearOperator")


def tri_followups(R, chk, cell, desc, res, dense, payload):
    """The product of triangular / diagonal / Cholesky operators: a structured result (Triangular, Diag, Chol …) must also solve,
    invert and take log-determinants like its dense value — a wrong `upper` flag reads the wrong triangle."""
    n = dense.shape[-1]
    if dense.shape[-2] != n:
        return
    det = torch.linalg.det(dense)
    if not bool((det.abs() > 1e-6).all()):
        return
    rhs = torch.arange(1, 2 * n + 1, dtype=dense.dtype).reshape(n, 2) / n
    structured = type(res).__name__ in STRUCTURED
    sym_pd = bool(torch.allclose(dense, dense.mT)) and bool((torch.linalg.cholesky_ex(dense).info == 0).all())
    todo = []
    if structured or sym_pd:
        todo.append(("solve", lambda o: o.solve(rhs.clone()), lambda d: torch.linalg.solve(d, rhs.expand(*d.shape[:-2], n, 2))))
        # log-determinants are defined for positive diagonals (Diag.logdet sums log d_i; a negative pair would give nan)
        if bool((det > 0).all()) and bool((dense.diagonal(dim1=-2, dim2=-1) > 0).all()):
            todo.append(("logdet", lambda o: o.logdet(), lambda d: torch.logdet(d)))
    if structured:
        todo.append(("inverse", lambda o: o.inverse(), lambda d: torch.linalg.inv(d)))
    if sym_pd:
        todo.append(("cholesky", lambda o: (lambda c: c @ c.mT)(o.cholesky()), lambda d: d))
    for nm, fi, fs in todo:
        chk.count("op:followup-" + nm)
        R.record(f"{cell}/{nm}", f"{nm}({desc})", lambda fi=fi: fi(res), lambda fs=fs: fs(dense), dict(payload, followup=nm), exact=False,
                 opkind=nm)


def pair_line(op, A, B):
    if not (is_op(A) and is_op(B)):
        return None
    try:
        ea, eb = enc(A), enc(B)
    except NotEncodable:
        return None
    if op == "matmul":
        return f"@ {A.shape[-1]} leaf {ea} leaf {eb}"
    return f"{SYM[op]} leaf {ea} leaf {eb}"


def run_pairs(R, chk, thorough):
    rng = chk.rng
    dtype = torch.float64
    kinds = SIZE["kinds"] or [k for k in BATCH_KINDS if k not in ("same1", "one2")]
    n0, primary = SIZE["n"], SIZE["primary"]
    insts = {}

    def get(batch):
        if batch not in insts:
            l = build_insts(rng, dtype, batch, n0, thorough)
            for (r, c) in ((n0, n0), (2 * n0, 2 * n0), (n0, n0 + 1)):
                l.append(TensorInst(rng, dtype, batch, r, c))
            insts[batch] = l
        return insts[batch]

    for kind in kinds:
        ba, bb = BATCH_KINDS[kind]
        for a in get(ba):
            for b in get(bb):
                for op in pair_ops(a, b):
                    if not thorough and kind != primary and not SIZE["all"]:
                        # quick: `same2` for every pair, plus one seed-rotating other batch kind per (pair, op)
                        h = zlib.crc32(f"{a.cname}|{b.cname}|{op}".encode())
                        others = [k for k in kinds if k != primary]
                        if others[(h + chk.seed) % len(others)] != kind:
                            continue
                    cell = f"C02/pair/{op}/{a.cname}/{b.cname}/b={kind}"
                    desc = f"{a.name}{list(ba)} {op} {b.name}{list(bb)}"
                    chk.count("op:" + op)
                    chk.count("batch:" + kind)
                    exact = a.exact and b.exact or op != "matmul"
                    if op == "mul":
                        exact = False if not (a.name.split("[")[0] in DIAGLIKE + ("Dense", "Zero", "Tensor") or b.name.split("[")[0] in ("Dense", "Zero", "Tensor")) else True
                    holder = {}

                    def impl(a=a, b=b, op=op):
                        A, B = a.build(), b.build()
                        holder["A"], holder["B"] = A, B
                        return PYOP[op](A, B)

                    def spec(a=a, b=b, op=op):
                        return PYOP[op](a.dense, b.dense)
                    payload = {"part": "pair", "op": op, "a": a.name, "b": b.name, "na": a.shape[-1], "nb": b.shape[-1], "kind": kind,
                               "bdiff": tuple(a.shape[:-2]) != tuple(b.shape[:-2])}
                    # model line needs the built operands: build once here for the encoding
                    line = None
                    try:
                        line = pair_line(op, a.build() if a.name != "Tensor" else None, b.build() if b.name != "Tensor" else None)
                    except Exception:
                        line = None
                    if (not thorough and kind != primary and not SIZE["all"]) or (thorough and kind in ("one3", "bc")):
                        line = None   # the dispatch does not depend on batch shapes: model lines for a subset of the kinds
                    res = R.record(cell, desc, impl, spec, payload, exact=exact, model=line)
                    if op == "add" and res is not None and is_op(res) and a.psd and b.psd and a.name.split("(")[0] in SUM_FAMILY:
                        closed_forms(R, chk, cell, desc, res, spec(), payload)
                    if op == "matmul" and res is not None and is_op(res) and a.name in TRI_FAMILY and b.name in TRI_FAMILY:
                        tri_followups(R, chk, cell, desc, res, spec(), payload)


SCALARS = [("py2", 2.0), ("py0.5", 0.5), ("pyneg", -3.0), ("py0", 0.0), ("py4", 4.0), ("t0d4", "t4"), ("t0dneg", "t-1"),
           ("t1", "u4"), ("b", "b"), ("b11", "b11"), ("bneg11", "bn11"), ("int3", 3)]


def scalar_value(kind, rng, dtype, batch):
    """-> (python object handed to the library, dense broadcastable tensor/number, model constant or None)."""
    if isinstance(kind, (float, int)):
        return kind, kind, (kind, "py")
    if kind.startswith("t"):
        v = float(kind[1:])
        return torch.tensor(v, dtype=dtype), v, (v, "t")
    if kind.startswith("u"):
        v = float(kind[1:])
        return torch.tensor([v], dtype=dtype), v, (v, "t")
    if not batch:
        return None, None, None
    if kind == "b":      # (b,) batch of constants: only meaningful as (..., 1, 1); torch broadcasting of (b,) hits columns
        return None, None, None
    sign = -1 if kind.startswith("bn") else 1
    vals = torch.tensor([sign * float(rng.choice([1, 4, 9])) for _ in range(int(torch.Size(batch).numel()))], dtype=dtype)
    t = vals.reshape(*batch, 1, 1)
    return t, t, (float(vals[0]), "t")


def has_rootish(op):
    return bool(classes_in(op) & {"RootLinearOperator", "LowRankRootLinearOperator", "CholLinearOperator", "MulLinearOperator",
                                  "LowRankRootAddedDiagLinearOperator"})


def run_scalars(R, chk, thorough):
    rng = chk.rng
    for dtype in (torch.float64, torch.float32):
        for batch in SIZE["batches"] or (((), (2,), (2, 3)) if thorough else ((), (2,))):
            for it in build_insts(rng, dtype, batch, SIZE["n"], thorough):
                if not it.square and not thorough:
                    pass
                for sname, kind in SCALARS:
                    obj, dval, mc = scalar_value(kind, rng, dtype, batch)
                    if obj is None:
                        continue
                    for opn in ("mul", "rmul", "div"):
                        if opn == "div" and dval is not None and not torch.is_tensor(dval) and dval == 0:
                            continue
                        if opn == "rmul" and torch.is_tensor(obj) and not thorough:
                            continue
                        cell = f"C02/scalar/{opn}/{it.cname}/k={sname}/b={len(batch)}/{str(dtype)[6:]}"
                        desc = f"{it.name}{list(batch)} {opn} {sname} {dtype}"
                        chk.count("op:scalar-" + opn)

                        def impl(it=it, obj=obj, opn=opn):
                            A = it.build()
                            o = obj.clone() if torch.is_tensor(obj) else obj
                            return A * o if opn == "mul" else (o * A if opn == "rmul" else A / o)

                        def spec(it=it, dval=dval, opn=opn):
                            return it.dense * dval if opn != "div" else it.dense / dval
                        line = None
                        try:
                            A = it.build()
                            c, how = mc
                            if not (has_rootish(A) and c > 0 and c not in (1.0, 4.0, 9.0, 0.25)) and not (has_rootish(A) and opn == "div"):
                                e = enc(A)
                                if opn == "div":
                                    line = f"/c {fmt_rat(c)} leaf {e}"
                                else:
                                    line = f"*c {how} {fmt_rat(c)} leaf {e}"
                        except Exception:
                            line = None
                        R.record(cell, desc, impl, spec, {"part": "scalar", "inst": it.name, "batch": list(batch), "k": sname, "op": opn,
                                                          "dtype": str(dtype)}, exact=True, model=line)


def unary_cases(it, batch, rng, dtype):
    """(name, impl(op), spec(dense), model-line-builder or None, exact)"""
    n = it.shape[-1]
    nb = len(batch)
    cases = []
    D = it.dense
    cases.append(("mT", lambda o: o.mT, lambda d: d.mT, lambda e: f"tr leaf {e}"))
    cases.append(("transpose-1-2", lambda o: o.transpose(-1, -2), lambda d: d.transpose(-1, -2), lambda e: f"tr leaf {e}"))
    cases.append(("t-twice", lambda o: o.mT.mT, lambda d: d, lambda e: f"tr tr leaf {e}"))
    cases.append(("repeat2", lambda o: o.repeat(*([2] + [1] * (nb + 1 if nb else 2))), lambda d: d.repeat(*([2] + [1] * (nb + 1 if nb else 2))), None))
    cases.append(("repeat32", lambda o: o.repeat(3, *([2] * nb), 1, 1), lambda d: d.repeat(3, *([2] * nb), 1, 1), None))
    cases.append(("expand-new", lambda o: o.expand(2, *D.shape), lambda d: d.expand(2, *d.shape), None))
    cases.append(("_expand_batch", lambda o: o._expand_batch(torch.Size((3,) + tuple(it.shape[:-2]))), lambda d: d.expand(3, *d.shape), None))
    for dim in range(nb + 1):
        cases.append((f"unsqueeze{dim}", lambda o, dim=dim: o.unsqueeze(dim), lambda d, dim=dim: d.unsqueeze(dim), None))
    cases.append(("unsqueeze-3", lambda o: o.unsqueeze(-3), lambda d: d.unsqueeze(-3), None))
    cases.append(("unsq-squeeze", lambda o: o.unsqueeze(0).squeeze(0), lambda d: d, None))
    cases.append(("sum-1", lambda o: o.sum(-1), lambda d: d.sum(-1), None))
    cases.append(("sum-2", lambda o: o.sum(-2), lambda d: d.sum(-2), None))
    cases.append(("sumall", lambda o: o.sum(), lambda d: d.sum(), None))
    for dim in range(nb):
        cases.append((f"sum{dim}", lambda o, dim=dim: o.sum(dim), lambda d, dim=dim: d.sum(dim), None))
        cases.append((f"sumneg{dim}", lambda o, dim=dim: o.sum(dim - nb - 2), lambda d, dim=dim: d.sum(dim - nb - 2), None))
        if it.psd:
            cases.append((f"prod{dim}", lambda o, dim=dim: o.prod(dim), lambda d, dim=dim: d.prod(dim), None))
        cases.append((f"squeeze-noop{dim}", lambda o, dim=dim: o.squeeze(dim), lambda d, dim=dim: d.squeeze(dim), None))
    if nb == 2:
        cases.append(("permute10", lambda o: o.permute(1, 0, 2, 3), lambda d: d.permute(1, 0, 2, 3), None))
        cases.append(("permute-neg", lambda o: o.permute(-3, -4, -2, -1), lambda d: d.permute(1, 0, 2, 3), None))
        cases.append(("transpose01", lambda o: o.transpose(0, 1), lambda d: d.transpose(0, 1), None))
    if it.square:
        full = C.ri(rng, (*batch, n), 1, 3, dtype)
        cases.append(("add_diagonal-full", lambda o: o.add_diagonal(full.clone()), lambda d: d + torch.diag_embed(full),
                      lambda e: f"ad f {vec(b0(full, nb))} leaf {e}"))
        f1 = C.ri(rng, (n,), 1, 3, dtype)
        cases.append(("add_diagonal-full-unbatched", lambda o: o.add_diagonal(f1.clone()), lambda d: d + torch.diag_embed(f1),
                      lambda e: f"ad f {vec(f1)} leaf {e}"))
        c1 = C.ri(rng, (*batch, 1), 1, 3, dtype)
        cases.append(("add_diagonal-const", lambda o: o.add_diagonal(c1.clone()), lambda d: d + c1.unsqueeze(-1) * torch.eye(n, dtype=dtype),
                      lambda e: f"ad c {fmt_rat(float(b0(c1, nb)[0]))} leaf {e}"))
        cases.append(("add_diagonal-scalar", lambda o: o.add_diagonal(torch.tensor(2.0, dtype=dtype)), lambda d: d + 2 * torch.eye(n, dtype=dtype),
                      lambda e: f"ad s 2 leaf {e}"))
        cases.append(("add_jitter", lambda o: o.add_jitter(0.5), lambda d: d + 0.5 * torch.eye(n, dtype=dtype), lambda e: f"jit 1/2 leaf {e}"))
        cases.append(("add_jitter-default", lambda o: o.add_jitter(), lambda d: d + 1e-3 * torch.eye(n, dtype=dtype), None))
        if it.psd:
            lr = C.ri(rng, (*batch, n, 2), -2, 2, dtype)
            cases.append(("add_low_rank", lambda o: o.add_low_rank(lr.clone()), lambda d: d + lr @ lr.mT,
                          lambda e: f"alr 2 {mat(b0(lr, nb))} {e}"))
            cross = C.ri(rng, (*batch, 2, n), -1, 1, dtype)
            new = cross @ cross.mT + 30 * torch.eye(2, dtype=dtype)
            cases.append(("cat_rows", lambda o: o.cat_rows(cross.clone(), new.clone()),
                          lambda d: torch.cat([torch.cat([d, cross.mT], -1), torch.cat([cross, new], -1)], -2),
                          lambda e: f"catrows {opq_id('CatLinearOperator')} 2 {mat(b0(cross, nb))} {mat(b0(new, nb))} {e}"))
            if dtype == torch.float64:
                # two-step programs: root-based operations on the results of cat_rows / add_low_rank (they read the roots these
                # methods cache); cross terms of ordinary magnitude, Schur complement = identity
                from linear_operator.operators import RootLinearOperator
                bsh = tuple(it.shape[:-2])
                cr = C.ri(rng, (*bsh, 2, n), -2, 2, dtype)
                nw = cr @ torch.linalg.solve(D, cr.mT) + torch.eye(2, dtype=dtype)
                nw = (nw + nw.mT) / 2
                blk = lambda d, c=cr, w=nw: torch.cat([torch.cat([d, c.mT], -1), torch.cat([c, w], -1)], -2)
                Rk = C.ri(rng, (*bsh, n + 2, 2), -2, 2, dtype)
                Rn = C.ri(rng, (*bsh, n, 2), -2, 2, dtype)
                lr2 = C.ri(rng, (*bsh, n + 2, 1), -2, 2, dtype)
                cr3 = C.ri(rng, (*bsh, 1, n + 2), -1, 1, dtype)
                nw3 = lambda m: cr3 @ torch.linalg.solve(m, cr3.mT) + torch.eye(1, dtype=dtype)
                blk3 = lambda m: torch.cat([torch.cat([m, cr3.mT], -1), torch.cat([cr3, nw3(m)], -1)], -2)
                crl = C.ri(rng, (*bsh, 1, n), -1, 1, dtype)
                nwl = lambda m: crl @ torch.linalg.solve(m, crl.mT) + torch.eye(1, dtype=dtype)
                blkl = lambda m: torch.cat([torch.cat([m, crl.mT], -1), torch.cat([crl, nwl(m)], -1)], -2)
                step1 = {"cat_rows": (lambda o: o.cat_rows(cr.clone(), nw.clone()), blk, Rk, lr2),
                         "add_low_rank": (lambda o: o.add_low_rank(lr.clone()), lambda d: d + lr @ lr.mT, Rn, lr[..., :1])}
                # the root that cat_rows caches for its result (transplanted through the Schur complement, here = I so that the block
                # matrix is positive definite whatever the operand's conditioning) denotes the result: instance of `catRows_root_identity`
                cases.append(("cat_rows-root", lambda o: (lambda z: z @ z.mT)(o.cat_rows(cr.clone(), nw.clone()).root_decomposition().root.to_dense()),
                              blk, None))
                for s1, (f1_, d1_, rk, l2) in step1.items():
                    cases.append((f"{s1}-ord", f1_, d1_, None))
                    cases.append((f"{s1}>mulroot", lambda o, f1_=f1_, rk=rk: f1_(o) * RootLinearOperator(rk.clone()),
                                  lambda d, d1_=d1_, rk=rk: d1_(d) * (rk @ rk.mT), None))
                    cases.append((f"{s1}>add_low_rank", lambda o, f1_=f1_, l2=l2: f1_(o).add_low_rank(l2.clone()),
                                  lambda d, d1_=d1_, l2=l2: d1_(d) + l2 @ l2.mT, None))
                    if s1 == "cat_rows":
                        cases.append((f"{s1}>cat_rows", lambda o, f1_=f1_: (lambda r: r.cat_rows(cr3.clone(), nw3(blk(D)).clone()))(f1_(o)),
                                      lambda d, d1_=d1_: blk3(d1_(d)), None))
                    else:
                        cases.append((f"{s1}>cat_rows", lambda o, f1_=f1_: (lambda r: r.cat_rows(crl.clone(), nwl(D + lr @ lr.mT).clone()))(f1_(o)),
                                      lambda d, d1_=d1_: blkl(d1_(d)), None))
                    for dim in range(len(bsh)):
                        cases.append((f"{s1}>prod{dim}", lambda o, f1_=f1_, dim=dim: f1_(o).prod(dim),
                                      lambda d, d1_=d1_, dim=dim: d1_(d).prod(dim), None))
    return cases


def run_unary(R, chk, thorough):
    rng = chk.rng
    from linear_operator.operators import cat as lo_cat
    for dtype in (torch.float64, torch.float32):
        for batch in SIZE["batches"] or ((), (2,), (2, 3)):
            if not thorough and dtype == torch.float32 and batch == (2, 3):
                continue
            its = build_insts(rng, dtype, batch, SIZE["n"], thorough)
            for it in its:
                if it.shape[-1] > SIZE["n"] + 1 and it.name in SMALL6:
                    continue
                for case in unary_cases(it, batch, rng, dtype):
                    name, fi, fs, fm = case
                    cell = f"C02/unary/{name}/{it.cname}/b={len(batch)}/{str(dtype)[6:]}"
                    desc = f"{name}({it.name}{list(batch)}) {dtype}"
                    chk.count("op:unary-" + name.rstrip("0123456789-"))
                    line = None
                    if fm is not None:
                        try:
                            line = fm(enc(it.build()))
                        except Exception:
                            line = None
                    exact = it.exact or not name.startswith(("sum-", "sumall"))
                    if name.startswith(("prod", "add_low_rank", "cat_rows")) or ">" in name:
                        exact = False
                    R.record(cell, desc, lambda it=it, fi=fi: fi(it.build()), lambda it=it, fs=fs: fs(it.dense),
                             {"part": "unary", "inst": it.name, "batch": list(batch), "case": name, "dtype": str(dtype),
                              "mexact": name in ("add_low_rank", "cat_rows")}, exact=exact, model=line)
            # cat of two operators along batch / row / column dimensions
            sq = [it for it in its if it.shape[-2:] == (SIZE["n"], SIZE["n"]) and "fft" not in it.tags][:12]
            for i, a in enumerate(sq):
                b = sq[(i + 3) % len(sq)]
                for dim in ([-1, -2] + ([0] if batch else [])):
                    cell = f"C02/unary/cat{dim}/{a.cname}/{b.cname}/b={len(batch)}/{str(dtype)[6:]}"
                    cline = None
                    if dim in (-1, -2):
                        try:
                            cline = f"cat {1 if dim == -2 else 0} {opq_id('CatLinearOperator')} {enc(a.build())} {enc(b.build())}"
                        except Exception:
                            cline = None
                    R.record(cell, f"cat([{a.name},{b.name}],{dim}) {list(batch)} {dtype}",
                             lambda a=a, b=b, dim=dim: lo_cat([a.build(), b.build()], dim=dim),
                             lambda a=a, b=b, dim=dim: torch.cat([a.dense, b.dense], dim=dim),
                             {"part": "cat", "a": a.name, "b": b.name, "dim": dim, "batch": list(batch), "dtype": str(dtype)},
                             exact=a.exact and b.exact, model=cline)



# ----------------------------------------------------------------------------------------------- 3 batch dims
class CustomInst:
    """An instance built inside this check (same interface as catalogue.Inst)."""
    def __init__(self, name, make, psd=False, exact=True):
        self.name, self._make, self.psd, self.exact, self.tags = name, make, psd, exact, set()
        _, self.dense = make()
        self.shape = tuple(self.dense.shape)
        self.square = self.shape[-1] == self.shape[-2]
        self.cname = san(name) + f"@{self.shape[-2]}x{self.shape[-1]}"

    def build(self):
        return self._make()[0]


def cat_batch_insts(rng, dtype, B, n):
    """CatLinearOperator along EACH batch dim with pieces of unequal length (positive and negative `dim`)."""
    from linear_operator.operators import CatLinearOperator, DenseLinearOperator, DiagLinearOperator
    res = []
    nb = len(B)
    for d in range(nb):
        k1 = 1
        k2 = B[d] - 1
        if k2 < 1:
            continue
        sa = list(B); sa[d] = k1
        sb = list(B); sb[d] = k2
        a, b = C.ri(rng, (*sa, n, n), dtype=dtype), C.ri(rng, (*sb, n, n), dtype=dtype)
        dg = C.ri(rng, (*sa, n), 1, 3, dtype)
        for dim, tag in ((d, f"d{d}"), (d - nb - 2, f"dneg{d}")):
            res.append(CustomInst(f"Cat[batch{tag}]", lambda a=a, b=b, dim=dim, d=d: (
                CatLinearOperator(DenseLinearOperator(a.clone()), DenseLinearOperator(b.clone()), dim=dim), torch.cat([a, b], d))))
        res.append(CustomInst(f"Cat[batchd{d}](Diag,Dense)", lambda dg=dg, b=b, d=d: (
            CatLinearOperator(DiagLinearOperator(dg.clone()), DenseLinearOperator(b.clone()), dim=d), torch.cat([torch.diag_embed(dg), b], d))))
        # three pieces, the middle one longest
        c3 = C.ri(rng, (*sa, n, n), dtype=dtype)
        res.append(CustomInst(f"Cat3[batchd{d}]", lambda a=a, b=b, c3=c3, d=d: (
            CatLinearOperator(DenseLinearOperator(a.clone()), DenseLinearOperator(b.clone()), DenseLinearOperator(c3.clone()), dim=d),
            torch.cat([a, b, c3], d))))
    return res


def batch_perms(nb):
    import itertools
    if nb <= 3:
        return [p for p in itertools.permutations(range(nb))]
    cyc = [tuple((i + k) % nb for i in range(nb)) for k in range(nb)]
    return cyc + [tuple(reversed(range(nb))), tuple([1, 2, 0] + list(range(3, nb))), tuple([nb - 1] + list(range(nb - 1)))]


def batch3_cases(it):
    nb = len(it.shape) - 2
    nd = nb + 2
    cases = []
    for p in batch_perms(nb):
        nm = "".join(map(str, p))
        cases.append((f"permute{nm}", lambda o, p=p: o.permute(*p, nb, nb + 1), lambda d, p=p: d.permute(*p, nb, nb + 1)))
        cases.append((f"permuteneg{nm}", lambda o, p=p: o.permute(*[q - nd for q in p], -2, -1), lambda d, p=p: d.permute(*p, nb, nb + 1)))
        # a permutation followed by a second one (composition must be the composed permutation)
        cases.append((f"permute2x{nm}", lambda o, p=p: o.permute(*p, nb, nb + 1).permute(*p, nb, nb + 1),
                      lambda d, p=p: d.permute(*p, nb, nb + 1).permute(*p, nb, nb + 1)))
    for i in range(nb):
        for j in range(nb):
            if i < j:
                cases.append((f"transpose{i}{j}", lambda o, i=i, j=j: o.transpose(i, j), lambda d, i=i, j=j: d.transpose(i, j)))
                cases.append((f"transposeneg{i}{j}", lambda o, i=i, j=j: o.transpose(j - nd, i - nd), lambda d, i=i, j=j: d.transpose(i, j)))
    for pos in range(nb + 1):
        cases.append((f"unsqueeze{pos}", lambda o, pos=pos: o.unsqueeze(pos), lambda d, pos=pos: d.unsqueeze(pos)))
        cases.append((f"unsqueezeneg{pos}", lambda o, pos=pos: o.unsqueeze(pos - nd - 1), lambda d, pos=pos: d.unsqueeze(pos)))
        cases.append((f"unsq-squeeze{pos}", lambda o, pos=pos: o.unsqueeze(pos).squeeze(pos), lambda d: d))
        cases.append((f"unsq-expand{pos}", lambda o, pos=pos: o.unsqueeze(pos).expand(*it.shape[:pos], 2, *it.shape[pos:]),
                      lambda d, pos=pos: d.unsqueeze(pos).expand(*it.shape[:pos], 2, *it.shape[pos:])))
        cases.append((f"unsq-permute{pos}", lambda o, pos=pos: o.unsqueeze(pos).permute(*reversed(range(nb + 1)), nb + 1, nb + 2),
                      lambda d, pos=pos: d.unsqueeze(pos).permute(*reversed(range(nb + 1)), nb + 1, nb + 2)))
    for pos in range(nb):
        rep = [1] * nd
        rep[pos] = 2
        cases.append((f"repeat{pos}", lambda o, rep=tuple(rep): o.repeat(*rep), lambda d, rep=tuple(rep): d.repeat(*rep)))
        cases.append((f"sum{pos}", lambda o, pos=pos: o.sum(pos), lambda d, pos=pos: d.sum(pos)))
        cases.append((f"sumneg{pos}", lambda o, pos=pos: o.sum(pos - nd), lambda d, pos=pos: d.sum(pos)))
        cases.append((f"permute-sum{pos}", lambda o, pos=pos: o.permute(*batch_perms(nb)[-2 if nb <= 3 else 1], nb, nb + 1).sum(pos),
                      lambda d, pos=pos: d.permute(*batch_perms(nb)[-2 if nb <= 3 else 1], nb, nb + 1).sum(pos)))
        if it.psd:
            cases.append((f"prod{pos}", lambda o, pos=pos: o.prod(pos), lambda d, pos=pos: d.prod(pos)))
    cases.append(("repeat-all", lambda o: o.repeat(*([2] * nb), 1, 1), lambda d: d.repeat(*([2] * nb), 1, 1)))
    cases.append(("repeat-new", lambda o: o.repeat(2, *([1] * nd)), lambda d: d.repeat(2, *([1] * nd))))
    cases.append(("expand-new", lambda o: o.expand(2, *it.shape), lambda d: d.expand(2, *it.shape)))
    return cases


def run_batch3(R, chk, thorough):
    """Operators with three batch dims of pairwise different sizes x every batch permutation / transpose / unsqueeze /
    squeeze / expand / repeat / sum / prod position.  Own random stream (replayable on its own)."""
    import random
    rng = random.Random(f"{PID}:batch3:{chk.seed}")
    B = (3, 4, 2) if not thorough else (3, 4, 5)
    for dtype in ((torch.float64,) if not thorough else (torch.float64, torch.float32)):
        its = build_insts(rng, dtype, B, 3, thorough)
        its = [it for it in its if not (it.shape[-1] > 4 and it.name in SMALL6)]
        its += cat_batch_insts(rng, dtype, B, 3)
        for it in its:
            for name, fi, fs in batch3_cases(it):
                cell = f"C02/batch3/{name}/{it.cname}/{str(dtype)[6:]}"
                desc = f"{name}({it.name}{list(it.shape[:-2])}) {dtype}"
                chk.count("op:batch3-" + name.rstrip("0123456789"))
                exact = it.exact and not name.startswith("prod")
                R.record(cell, desc, lambda it=it, fi=fi: fi(it.build()), lambda it=it, fs=fs: fs(it.dense),
                         {"part": "batch3", "inst": it.name, "case": name, "dtype": str(dtype)}, exact=exact, model=None,
                         opkind=name.replace("unsq-", "unsqueeze-"))



# ----------------------------------------------------------------------------------------------- size-1 corner cases
def run_size1(R, chk, thorough):
    """The pair / scalar / unary sweeps again with n = 1 (1x1 operators of EVERY class, length-1 diagonals, size-1 batches,
    0-d vs (1,) constants), all batch kinds, with model lines for every case.  Deterministic cell set, own random stream."""
    import random
    saved, rng0 = dict(SIZE), chk.rng
    rec0 = R.record

    def rec(cell, desc, impl_fn, spec_fn, payload, **kw):
        if isinstance(payload, dict):
            payload = dict(payload, part="size1")
        return rec0(cell, desc, impl_fn, spec_fn, payload, **kw)
    try:
        chk.rng = random.Random(f"{PID}:size1:{chk.seed}")
        SIZE.update(n=1, kinds=["none", "same1", "one2", "same2"], primary="same1", all=thorough, batches=((), (1,), (2,)))
        R.record = rec
        run_pairs(R, chk, thorough)
        run_scalars(R, chk, thorough)
        run_unary(R, chk, thorough)
    finally:
        SIZE.clear()
        SIZE.update(saved)
        chk.rng = rng0
        R.record = rec0



# ----------------------------------------------------------------------------------------------- mixed batch ranks
MIX_SMALL = ("Dense", "Diag", "Toeplitz", "Triangular[lower]", "Root", "ConstantDiag")
MIX_KINDS = {"32v2": ((3, 2), (2,)), "0v32": ((), (3, 2)), "31v2": ((3, 1), (2,)), "2v32": ((2,), (3, 2)), "32v12": ((3, 2), (1, 2))}


def rewrite_cases(shape):
    """Unary batch rewrites of an operator of the given shape (each rebuilds the operator in some way)."""
    nb = len(shape) - 2
    nd = nb + 2
    import itertools
    cs = [("mT", lambda o: o.mT, lambda d: d.mT),
          ("clone-unsqueeze1", lambda o: o.clone().unsqueeze(min(1, nb)), lambda d: d.unsqueeze(min(1, nb))),
          ("expand-new", lambda o: o.expand(2, *shape), lambda d: d.expand(2, *shape)),
          ("_expand_batch", lambda o: o._expand_batch(torch.Size((2,) + tuple(shape[:-2]))), lambda d: d.expand(2, *shape)),
          ("repeat-new", lambda o: o.repeat(2, *([1] * nd)), lambda d: d.repeat(2, *([1] * nd))),
          ("detach-unsqueeze0", lambda o: o.detach().unsqueeze(0), lambda d: d.unsqueeze(0))]
    for pos in range(nb + 1):
        cs.append((f"unsqueeze{pos}", lambda o, pos=pos: o.unsqueeze(pos), lambda d, pos=pos: d.unsqueeze(pos)))
        cs.append((f"unsqueezeneg{pos}", lambda o, pos=pos: o.unsqueeze(pos - nd - 1), lambda d, pos=pos: d.unsqueeze(pos)))
        cs.append((f"unsq-squeeze{pos}", lambda o, pos=pos: o.unsqueeze(pos).squeeze(pos), lambda d: d))
    for p in itertools.permutations(range(nb)):
        if list(p) != list(range(nb)):
            nm = "".join(map(str, p))
            cs.append((f"permute{nm}", lambda o, p=p: o.permute(*p, nb, nb + 1), lambda d, p=p: d.permute(*p, nb, nb + 1)))
    for pos in range(nb):
        rep = [1] * nd
        rep[pos] = 2
        cs.append((f"repeat{pos}", lambda o, rep=tuple(rep): o.repeat(*rep), lambda d, rep=tuple(rep): d.repeat(*rep)))
        cs.append((f"sum{pos}", lambda o, pos=pos: o.sum(pos), lambda d, pos=pos: d.sum(pos)))
    return cs


def run_mixed(R, chk, thorough):
    """Two-step programs: a binary operation (@, +, elementwise *) between operands of DIFFERENT batch ranks (fewer batch dims,
    unbatched, size-1 dims) followed by every unary batch rewrite of the lazy result — value and shape against dense torch."""
    import random
    rng = random.Random(f"{PID}:mixed:{chk.seed}")
    dtype = torch.float64
    kinds = list(MIX_KINDS)
    insts = {}

    def get(batch):
        if batch not in insts:
            its = [it for it in build_insts(rng, dtype, batch, 3, False) if it.shape[-2:] == (3, 3) and "f32only" not in it.tags]
            insts[batch] = its
        return insts[batch]
    for kind in kinds:
        ba, bb = MIX_KINDS[kind]
        for a in get(ba):
            for b in get(bb):
                if a.name not in MIX_SMALL and b.name not in MIX_SMALL:
                    continue
                for op in pair_ops(a, b):
                    if op == "sub":
                        continue
                    if not thorough and kind != "32v2":
                        h = zlib.crc32(f"{a.cname}|{b.cname}|{op}".encode())
                        if kinds[1 + (h + chk.seed) % (len(kinds) - 1)] != kind:
                            continue
                    try:
                        res = PYOP[op](a.build(), b.build())
                        dres = PYOP[op](a.dense, b.dense)
                    except Exception:
                        continue   # the binary step itself is the pairs part's business
                    if not is_op(res) or tuple(res.shape) != tuple(dres.shape):
                        continue
                    exact = op != "mul" or a.name.split("[")[0] in DIAGLIKE + ("Dense", "Zero") or b.name.split("[")[0] in ("Dense", "Zero")
                    for name, fi, fs in rewrite_cases(tuple(dres.shape)):
                        cell = f"C02/mixed/{op}/{a.cname}/{b.cname}/b={kind}/{name}"
                        desc = f"{name}({a.name}{list(ba)} {op} {b.name}{list(bb)})"
                        chk.count("op:mixed-" + name.rstrip("0123456789"))
                        R.record(cell, desc, lambda fi=fi, a=a, b=b, op=op: fi(PYOP[op](a.build(), b.build())), lambda fs=fs: fs(dres),
                                 {"part": "mixed", "op": op, "a": a.name, "b": b.name, "kind": kind, "case": name},
                                 exact=exact and a.exact and b.exact, opkind=name.replace("unsq-", "unsqueeze-"))


# ----------------------------------------------------------------------------------------------- operand re-use
def reuse_steps(it):
    """Read-only uses of ONE operator object, in sequence: (name, impl(o), spec(d))."""
    nb = len(it.shape) - 2
    r, c = it.shape[-2:]
    dt = it.dense.dtype
    T = torch.arange(r * c, dtype=dt).reshape(r, c) % 5 - 2
    Cm = torch.arange(c * 2, dtype=dt).reshape(c, 2) % 3 - 1
    steps = [("mT", lambda o: o.mT, lambda d: d.mT),
             ("mT@self", lambda o: o.mT @ o, lambda d: d.mT @ d),
             ("self@mT", lambda o: o @ o.mT, lambda d: d @ d.mT),
             ("add-tensor", lambda o: o + T.clone(), lambda d: d + T),
             ("matmul-tensor", lambda o: o @ Cm.clone(), lambda d: d @ Cm),
             ("mul2", lambda o: o * 2.0, lambda d: d * 2.0),
             ("transpose-2-1", lambda o: o.transpose(-2, -1), lambda d: d.transpose(-2, -1)),
             ("add-self", lambda o: o + o, lambda d: d + d),
             ("unsqueeze0", lambda o: o.unsqueeze(0), lambda d: d.unsqueeze(0)),
             ("expand-new", lambda o: o.expand(2, *it.shape), lambda d: d.expand(2, *it.shape)),
             ("sum-1", lambda o: o.sum(-1), lambda d: d.sum(-1)),
             ("mT-again", lambda o: o.mT, lambda d: d.mT)]
    if nb >= 1:
        steps.insert(6, ("sum0", lambda o: o.sum(0), lambda d: d.sum(0)))
    if nb >= 2:
        steps.insert(2, ("transpose01", lambda o: o.transpose(0, 1), lambda d: d.transpose(0, 1)))
        steps.insert(3, ("permute10", lambda o: o.permute(1, 0, nb, nb + 1), lambda d: d.permute(1, 0, nb, nb + 1)))
        steps.append(("sum1-after", lambda o: o.sum(1), lambda d: d.sum(1)))
    if r == c:
        steps.append(("add_jitter", lambda o: o.add_jitter(0.5), lambda d: d + 0.5 * torch.eye(r, dtype=dt)))
        steps.append(("sub-self-mT", lambda o: o - o.mT, lambda d: d - d.mT))
    return steps


def run_reuse(R, chk, thorough):
    """One operator OBJECT used by a sequence of read-only operations: every result is compared with dense torch and after
    every step the operand must still have its shape and value (an operation that edits its operand breaks later uses)."""
    import random
    from linear_operator.operators import DenseLinearOperator, ZeroLinearOperator
    rng = random.Random(f"{PID}:reuse:{chk.seed}")
    for dtype in ((torch.float64,) if not thorough else (torch.float64, torch.float32)):
        for batch in ((), (2,), (2, 3)):
            its = build_insts(rng, dtype, batch, 3, thorough)
            its = [it for it in its if not (it.shape[-1] > 4 and it.name in SMALL6)]
            its.append(CustomInst("Zero[rect]", lambda batch=batch, dtype=dtype: (ZeroLinearOperator(*batch, 3, 4, dtype=dtype),
                                                                                  torch.zeros(*batch, 3, 4, dtype=dtype))))
            Rt = C.ri(rng, (*batch, 4, 2), dtype=dtype)
            its.append(CustomInst("Dense[tall]", lambda Rt=Rt: (DenseLinearOperator(Rt.clone()), Rt)))
            for it in its:
                try:
                    o = it.build()
                except Exception:
                    continue
                for name, fi, fs in reuse_steps(it):
                    cell = f"C02/reuse/{name}/{it.cname}/b={len(batch)}/{str(dtype)[6:]}"
                    desc = f"reuse {name}({it.name}{list(batch)}) {dtype}"
                    chk.count("op:reuse-" + name)
                    payload = {"part": "reuse", "inst": it.name, "batch": list(batch), "step": name, "dtype": str(dtype)}
                    exact = it.exact and "@" not in name and not name.startswith(("sum-", "matmul"))
                    R.record(cell, desc, lambda fi=fi: fi(o), lambda fs=fs: fs(it.dense), payload, exact=exact, opkind=name)
                    bad = None
                    try:
                        if tuple(o.shape) != tuple(it.shape):
                            bad = f"operand shape {tuple(it.shape)} -> {tuple(o.shape)}"
                        else:
                            got = o.to_dense()
                            if tuple(got.shape) != tuple(it.dense.shape) or not torch.allclose(got, it.dense.to(got.dtype), atol=1e-4):
                                bad = "operand value changed"
                    except Exception as e:
                        bad = f"operand unusable: {type(e).__name__}: {str(e)[:80]}"
                    if bad:
                        chk.violation(f"{cell}/operand-changed", f"{desc}: after the step the operand itself changed: {bad}", payload)
                        break


# ----------------------------------------------------------------------------------------------- programs
PROG_LEAVES = ["Dense", "Dense[psd]", "Diag", "Diag[signed]", "ConstantDiag", "Identity", "Zero", "Toeplitz", "Triangular[lower]",
               "Triangular[upper]", "Root", "LowRankRoot", "Chol[lower]", "AddedDiag", "LowRankRootAddedDiag", "Sum", "PsdSum",
               "ConstantMul", "Matmul(Diag,Toeplitz)", "Sum[toeplitz+diag]", "Kernel[sym]", "Masked", "Cat[rows]"]


def gen_prog(rng, leaves, depth):
    """Random expression over square n×n leaves.  Returns a nested tuple."""
    if depth == 0 or rng.random() < 0.15:
        return ("leaf", rng.randrange(len(leaves)))
    k = rng.choice(["add", "add", "sub", "mulc", "mulc", "divc", "matmul", "matmul", "mulm", "adddiag", "jitter", "tr", "tensor+", "tensor@"])
    if k in ("add", "sub", "matmul", "mulm"):
        return (k, gen_prog(rng, leaves, depth - 1), gen_prog(rng, leaves, depth - 1))
    if k == "mulc":
        return (k, rng.choice([4.0, 0.25, -1.0, -3.0, 9.0, 1.0, 0.0, 2.0]), rng.choice(["py", "t"]), gen_prog(rng, leaves, depth - 1))
    if k == "divc":
        return (k, rng.choice([4.0, 0.25, -2.0, 0.5]), gen_prog(rng, leaves, depth - 1))
    if k == "adddiag":
        return (k, rng.choice(["f", "c", "s"]), [rng.randint(1, 3) for _ in range(8)], gen_prog(rng, leaves, depth - 1))
    if k == "jitter":
        return (k, rng.choice([0.5, 2.0]), gen_prog(rng, leaves, depth - 1))
    if k in ("tensor+", "tensor@"):
        return (k, [rng.randint(-2, 2) for _ in range(64)], gen_prog(rng, leaves, depth - 1))
    return (k, gen_prog(rng, leaves, depth - 1))


def prog_str(p, leaves):
    if p[0] == "leaf":
        return leaves[p[1]].name
    return "(" + p[0] + " " + " ".join(prog_str(x, leaves) if isinstance(x, tuple) else (str(x) if not isinstance(x, list) else "#") for x in p[1:]) + ")"


class Unsupported(Exception):
    pass


class OperandChanged(Exception):
    pass


def check_leaves(cache, leaves):
    """After a program: every leaf object (used possibly several times) still has its shape and value."""
    for idx, obj in cache.items():
        it = leaves[idx]
        if tuple(obj.shape) != tuple(it.shape):
            raise OperandChanged(f"leaf {it.name} changed shape {tuple(it.shape)} -> {tuple(obj.shape)}")
        got = type(obj)(*obj._args, **obj._kwargs).to_dense() if False else obj.to_dense()
        if got.shape != it.dense.shape or not torch.allclose(got, it.dense.to(got.dtype), atol=1e-4):
            raise OperandChanged(f"leaf {it.name} changed value")


def eval_prog(p, leaves, n, dtype, batch, cache=None):
    """-> (impl result, dense result, model line or None, psd-ish flag).  Raises Unsupported when a step is outside the grammar.
    With `cache` the SAME leaf object is used for every occurrence of a leaf (programs are DAGs)."""
    k = p[0]
    if k == "leaf":
        it = leaves[p[1]]
        if cache is not None:
            if p[1] not in cache:
                cache[p[1]] = it.build()
            A = cache[p[1]]
        else:
            A = it.build()
        try:
            e = "leaf " + enc(A)
        except NotEncodable:
            e = None
        return A, it.dense, e, it.psd
    if k in ("add", "sub", "matmul", "mulm"):
        A, da, ea, pa = eval_prog(p[1], leaves, n, dtype, batch, cache)
        B, db, eb, pb = eval_prog(p[2], leaves, n, dtype, batch, cache)
        roots = {"RootLinearOperator", "LowRankRootLinearOperator", "CholLinearOperator"}
        if k in ("add", "sub") and is_op(B) and type(B).__name__ in roots and not pa:
            raise Unsupported("adding a root to a non-PSD operator")
        if k == "mulm":
            easy = lambda x: torch.is_tensor(x) or type(x).__name__ in ("DenseLinearOperator", "DiagLinearOperator", "ZeroLinearOperator",
                                                                        "ConstantDiagLinearOperator", "IdentityLinearOperator")
            if not (easy(A) or torch.is_tensor(B) or type(B).__name__ in ("DenseLinearOperator", "ZeroLinearOperator") or (pa and pb)):
                raise Unsupported("elementwise product of non-PSD operators")
            if not easy(A) and not (torch.is_tensor(B) or type(B).__name__ in ("DenseLinearOperator", "ZeroLinearOperator")):
                ea = eb = None  # root decompositions: values toleranced, no exact model value
        res = PYOP["mul" if k == "mulm" else k](A, B)
        dres = PYOP["mul" if k == "mulm" else k](da, db)
        e = None
        if ea and eb:
            e = f"@ {n} {ea} {eb}" if k == "matmul" else f"{SYM['mul' if k == 'mulm' else k]} {ea} {eb}"
        return res, dres, e, (pa and pb and k in ("add", "mulm"))
    if k == "mulc":
        _, c, how, q = p
        A, da, ea, pa = eval_prog(q, leaves, n, dtype, batch, cache)
        obj = c if how == "py" else torch.tensor(c, dtype=dtype)
        if is_op(A) and has_rootish(A) and c > 0 and c not in (1.0, 4.0, 9.0, 0.25):
            ea = None
        return A * obj, da * c, (f"*c {how} {fmt_rat(c)} {ea}" if ea else None), pa and c > 0
    if k == "divc":
        _, c, q = p
        A, da, ea, pa = eval_prog(q, leaves, n, dtype, batch, cache)
        if is_op(A) and has_rootish(A):
            ea = None
        return A / c, da / c, (f"/c {fmt_rat(c)} {ea}" if ea else None), pa and c > 0
    if k == "adddiag":
        _, shape, vals, q = p
        A, da, ea, pa = eval_prog(q, leaves, n, dtype, batch, cache)
        if not is_op(A):
            raise Unsupported("add_diagonal on a tensor")
        if shape == "f":
            d = torch.tensor(vals[:n], dtype=dtype)
            return A.add_diagonal(d.clone()), da + torch.diag_embed(d), (f"ad f {vec(d)} {ea}" if ea else None), pa
        if shape == "c":
            d = torch.tensor([float(vals[0])], dtype=dtype)
            return A.add_diagonal(d.clone()), da + vals[0] * torch.eye(n, dtype=dtype), (f"ad c {vals[0]} {ea}" if ea else None), pa
        d = torch.tensor(float(vals[0]), dtype=dtype)
        return A.add_diagonal(d.clone()), da + vals[0] * torch.eye(n, dtype=dtype), (f"ad s {vals[0]} {ea}" if ea else None), pa
    if k == "jitter":
        _, c, q = p
        A, da, ea, pa = eval_prog(q, leaves, n, dtype, batch, cache)
        if not is_op(A):
            raise Unsupported("add_jitter on a tensor")
        return A.add_jitter(c), da + c * torch.eye(n, dtype=dtype), (f"jit {fmt_rat(c)} {ea}" if ea else None), pa
    if k == "tr":
        A, da, ea, pa = eval_prog(p[1], leaves, n, dtype, batch, cache)
        return A.mT, da.mT, (f"tr {ea}" if ea else None), pa
    if k in ("tensor+", "tensor@"):
        _, vals, q = p
        A, da, ea, pa = eval_prog(q, leaves, n, dtype, batch, cache)
        t = torch.tensor(vals[:n * n], dtype=dtype).reshape(n, n)
        if k == "tensor+":
            return A + t.clone(), da + t, (f"+ {ea} leaf D {n} {n} {mat(t)}" if ea and False else None), False
        return A @ t.clone(), da @ t, None, False
    raise ValueError(k)


def run_programs(R, chk, thorough, progs=None):
    rng = chk.rng
    depth = 5 if thorough else 3
    count = 1500 if thorough else 350
    n = 3
    todo = []
    if progs is not None:
        todo = progs
    else:
        for i in range(count):
            batch = [(), (2,), ()][i % 3]
            dtype = torch.float64 if i % 4 else torch.float32
            todo.append((batch, dtype, rng.randrange(2 ** 31), rng.randint(1, depth)))
    import random
    for batch, dtype, pseed, d in todo:
        prng = random.Random(pseed)
        leaves = [it for it in C.instances(prng, dtype, tuple(batch), n, depth=1, classes=PROG_LEAVES) if it.shape[-2:] == (n, n)]
        pool = prng.sample(range(len(leaves)), min(3, len(leaves)))   # few leaves: operands are re-used (DAG)
        leaves = [leaves[i] for i in pool]
        p = gen_prog(prng, leaves, d)
        desc = f"prog {prog_str(p, leaves)} batch={list(batch)} {dtype}"
        ops = sorted(set(re.findall(r"\((\w+[+@]?)", prog_str(p, leaves))))
        lnames = sorted(set(san(leaves[i].name) for i in re.findall(r"'leaf', (\d+)", repr(p)) for i in [int(i)]))
        holder = {}

        def impl():
            cache = {}
            r, dd, line, _ = eval_prog(p, leaves, n, dtype, tuple(batch), cache)
            holder["line"], holder["dense"] = line, dd
            dense_of(r)
            check_leaves(cache, leaves)
            return r
        try:
            _, want, line, _ = eval_prog(p, leaves, n, dtype, tuple(batch))
            ok = True
        except Unsupported:
            chk.count("prog-outside-grammar")
            continue
        except Exception as e:
            # classify the failing step: re-run to attribute
            ok = False
            err = e
        payload = {"part": "prog", "batch": list(batch), "dtype": str(dtype), "pseed": pseed, "depth": d}
        chk.count("programs")
        chk.count(f"prog-depth:{d}")
        exact = "mulm" not in ops and "Toeplitz" not in desc
        if not ok:
            chk.case(desc)
            if declared_unsupported(err, ""):
                chk.count("declared-unsupported")
                continue
            cell = f"C02/prog/ops={'+'.join(ops)}/leaves={'+'.join(lnames)}/raise:{type(err).__name__}"
            small = shrink_prog(p, leaves, n, dtype, tuple(batch), type(err))
            chk.violation(cell, f"{prog_str(small, leaves)} batch={list(batch)}: {type(err).__name__}: {str(err)[:140]}", payload)
            continue
        cell = f"C02/prog/ops={'+'.join(ops)}/leaves={'+'.join(lnames)}"
        R.record(cell, desc, impl, lambda: want, payload, exact=exact, model=line if exact else None)


def shrink_prog(p, leaves, n, dtype, batch, etype):
    """Smallest sub-expression that still raises the same exception type."""
    best = p
    stack = [p]
    while stack:
        q = stack.pop()
        for x in q[1:]:
            if isinstance(x, tuple):
                stack.append(x)
        try:
            eval_prog(q, leaves, n, dtype, batch)
        except Unsupported:
            continue
        except Exception as e:
            if isinstance(e, etype) and len(repr(q)) < len(repr(best)):
                best = q
    return best


# ----------------------------------------------------------------------------------------------- entry points
def run_batchm_part(R, chk, thorough):
    """Batched Lean model (LinOp/C02/Batch.lean, DriverB) vs the library: see c02_batch.py."""
    from . import c02_batch
    c02_batch.run_batchm(chk, thorough)


def translator_checks(chk):
    classes, ladders = c02_dispatch.generate()
    for b in c02_dispatch.runtime_crosscheck(classes):
        chk.proof_break("translator(C02Table)", b)
    return classes, ladders


def run(chk):
    torch.manual_seed(0)
    thorough = chk.tier == "thorough"
    chk.rule = ("(1) all ordered pairs of catalogue instances with matching sizes (n=3 catalogue + size-6 leaves, plain tensors on "
                "either side) x {+,-,elementwise *,@} x batch-shape pairs {same, none, left/right unbatched, 1 vs 3, (2,1) vs (3,)} "
                "(quick: `same` for every pair plus one seed-rotated other kind); (2) every instance x scalar kind x {*, r*, /}; "
                "(3) every instance x unary rewrite (transpose, repeat, expand, unsqueeze/squeeze, permute, sum/prod over batch and "
                "matrix dims, add_diagonal x3 shapes, add_jitter, add_low_rank, cat_rows, cat); (3b) every instance with THREE batch dims of different sizes (plus Cat along each batch dim with unequal pieces) x every batch permutation in S3 (positive / negative dims, applied twice), transpose of every batch pair, unsqueeze/squeeze/expand at every position, repeat/sum/prod over each batch dim; (3a) the pair / scalar / unary sweeps with n = 1 (1x1 instance of every class, size-1 batches, all batch kinds, every case with a model line); (3d) two-step programs: @, +, * between operands of different batch ranks followed by every unary batch rewrite of the lazy result; (3c) one operator OBJECT used by a sequence of read-only operations, operand checked after each; (4) seed-random expression programs "
                "of depth <= 3 (quick) / 5 (thorough); (5) batched layer (part batchm): unary batch rewrites, mixed-rank @ / +, batches of "
                "constants, and seed-random BProg programs (chains of three batch rewrites; (a op b) of mixed batch ranks, two rewrites, a "
                "second broadcasting op, one more rewrite) run by the Lean evaluator `beval` of theorem beval_refines_partial.  distinct = distinct (cell description); non-trivial = dense result has more "
                "than one entry and is not all zero.  Each case: implementation vs dense torch expression (value, shape, dtype), and "
                "for modelled classes implementation vs Lean model (class tree exact, values exact on the first batch element).")
    chk.assumptions += ["torch broadcasting / matmul on dense tensors is the specification",
                        "root decompositions (cholesky / Lanczos) meet R Rᵀ = A (parameter of the model)",
                        "catalogue instances' independent dense definitions are right (harness/catalogue.py self-test)"]
    translator_checks(chk)
    chk.prove("LinOp.Properties.C02", ["LinOp/C02", "LinOp/Generated/C02Table.lean", "LinOp/Core/Parse.lean", "LinOp/Core/Basic.lean",
                                       "LinOp/Core/Bridge.lean"])
    R = Runner(chk)
    parts = os.environ.get("C02_PARTS", "pairs,scalars,unary,size1,batch3,mixed,reuse,programs,batchm").split(",")
    for name, fn in (("pairs", run_pairs), ("scalars", run_scalars), ("unary", run_unary), ("size1", run_size1), ("batch3", run_batch3), ("mixed", run_mixed), ("reuse", run_reuse), ("programs", run_programs), ("batchm", run_batchm_part)):
        t = time.time()
        if name in parts:
            fn(R, chk, thorough)
            R.flush()
        chk.extra[f"part_{name}_s"] = round(time.time() - t, 1)
    if R.dump is not None:
        with open(os.environ["C02_DUMP"], "w") as fh:
            for k, cell, what in R.dump:
                fh.write(f"{k}\t{cell}\t{what}\n")


def replay(chk, payload):
    pl = payload.get("payload") or {}
    if not isinstance(pl, dict) or "part" not in pl:
        print("replay names broken obligations only:", json.dumps(pl)[:2000])
        return run(chk)
    # cells are deterministic given tier and seed: re-run the part that contains the case and keep only that cell
    import random
    chk.rng = random.Random(f"{PID}:{payload.get('seed', 0)}")
    chk.seed = payload.get("seed", 0)
    chk.tier = payload.get("tier", "quick")
    R = Runner(chk)
    thorough = chk.tier == "thorough"
    part = pl["part"]
    if part == "size1":
        run_size1(R, chk, thorough)
    elif part == "batch3":
        run_batch3(R, chk, thorough)
    elif part == "reuse":
        run_reuse(R, chk, thorough)
    elif part == "mixed":
        run_mixed(R, chk, thorough)
    elif part == "batchm":
        run_batchm_part(R, chk, thorough)
    elif part == "prog":
        run_programs(R, chk, thorough, progs=[(tuple(pl["batch"]), eval(pl["dtype"]), pl["pseed"], pl["depth"])])
    else:
        # consume the random stream exactly as `run` does up to the part
        run_pairs(R, chk, thorough)
        if part in ("scalar", "unary", "cat"):
            run_scalars(R, chk, thorough)
        if part in ("unary", "cat"):
            run_unary(R, chk, thorough)
    R.flush()
    want = payload.get("cell")
    chk.violations = [v for v in chk.violations if v[0] == want]
    chk.corr_breaks = [c for c in chk.corr_breaks if c[0] == want]
