"""C10 — multi-step HISTORIES on one operator object (part of the C10 check; called from c10.run).

The property quantifies over configurations (`preconditioner_tolerance`, `max_preconditioner_size`): every call of
`op.pivoted_cholesky(rank)` with `error_tol=None` must obey the stop rule for the tolerance in force AT THAT CALL, and the
preconditioner of every `AddedDiagLinearOperator` must be built from `pivoted_cholesky(K, max_preconditioner_size,
preconditioner_tolerance)` with the settings in force when IT is built — whatever was computed before on the same kernel
operator object (a result memoised on the operator under a key that does not contain the tolerance / size would violate it).

impl  : the real calls, in sequence, on ONE operator object (loose -> tight, tight -> loose, loose -> tight -> loose, mixed with
        explicit `error_tol` calls and `return_pivots=False` calls), and two or three AddedDiagLinearOperators sharing ONE kernel
        operator object, built under different tolerance / size settings.
spec  : exact `Fraction` pivoted Cholesky (oracle_exact) for the tolerance / rank in force at each call (rank r, pivots, every
        entry of L, hence the residual trace), + the same call on a FRESH copy of the operator (bit-for-bit), + the defining
        properties (stop rule both directions) through check_pc_properties.
model : one `pc rat` driver line per call with the tolerance in force at that call (the Lean model is a pure function of
        (A, rank, tol): `pc_history_stateless`).
Inputs are numerically low-rank integer PSD matrices whose residual trace decays step by step, chosen such that the loose and the
tight tolerance give DIFFERENT ranks (the tolerance decides the rank).
"""
from contextlib import ExitStack
from fractions import Fraction

import torch

from .. import catalogue
from ..common import fmt_rat


def _c10():
    from . import c10
    return c10


# ------------------------------------------------------------------------------------------------ inputs
TOL_PAIRS = [("half", Fraction(1, 2), "tight", Fraction(1, 10 ** 9)),
             ("half", Fraction(1, 2), "eighth", Fraction(1, 8)),
             ("eighth", Fraction(1, 8), "tight", Fraction(1, 10 ** 9)),
             ("half", Fraction(1, 2), "default", None),      # None: no settings context at all (library default)
             ("eighth", Fraction(1, 8), "default", None)]


def gen_decisive(rng, nb, n, rank, tol_loose, tol_tight, tries=300):
    """Exact integer PSD batch on which the loose and the tight tolerance stop at different ranks (both runs exact)."""
    c10 = _c10()
    for _ in range(tries):
        flavour = rng.choice(["dom", "dom", "tied"])
        rhos = [rng.randint(max(2, n - 1), n)] * nb
        As = [c10.gen_exact_member(rng, n, rhos[i], flavour) for i in range(nb)]
        if any(max(A[i][i] for i in range(n)) <= 0 for A in As):
            continue
        m1, mem1, ok1 = c10.oracle_exact(As, rank, tol_loose)
        if not ok1:
            continue
        m2, mem2, ok2 = c10.oracle_exact(As, rank, tol_tight)
        if not ok2 or m1 >= m2:
            continue
        return As, (m1, mem1), (m2, mem2)
    return None


def full_factor(As):
    """Exact n x n factor of every member (A = F F^T) from a run to the end, or None."""
    c10 = _c10()
    n = len(As[0])
    out = []
    for A in As:
        m, mem, ok = c10.oracle_exact([A], n, Fraction(0))
        if not ok:
            return None
        cols = mem[0]["cols"] + [[Fraction(0)] * n] * (n - m)
        out.append([[float(cols[t][i]) for t in range(n)] for i in range(n)])
    return out


OPKINDS = ["Dense", "ConstantMul", "Sum", "Root", "BatchRepeat"]


def make_builder(kind, As, bshape, dtype):
    """-> zero-argument function building a FRESH operator object for the batch of exact matrices `As`."""
    from linear_operator.operators import (BatchRepeatLinearOperator, DenseLinearOperator, RootLinearOperator,
                                           SumLinearOperator)
    n = len(As[0])
    T = torch.tensor([[[float(v) for v in row] for row in A] for A in As], dtype=dtype).reshape(*bshape, n, n)
    if kind == "Dense":
        return lambda: DenseLinearOperator(T.clone())
    if kind == "ConstantMul":
        return lambda: DenseLinearOperator(T.clone() / 4.0) * 4.0
    if kind == "Sum":
        D = torch.diag_embed(torch.diagonal(T, dim1=-2, dim2=-1)) / 2.0
        return lambda: SumLinearOperator(DenseLinearOperator((T - D).clone()), DenseLinearOperator(D.clone()))
    if kind == "Root":
        F = full_factor(As)
        if F is None:
            return None
        Ft = torch.tensor(F, dtype=dtype).reshape(*bshape, n, n)
        if not torch.equal(Ft @ Ft.mT, T):
            return None
        return lambda: RootLinearOperator(Ft.clone())
    if kind == "BatchRepeat":
        if len(bshape) != 1 or len(As) < 2 or any(A != As[0] for A in As[1:]):
            return None
        return lambda: BatchRepeatLinearOperator(DenseLinearOperator(T[0].clone()), torch.Size(bshape))
    raise ValueError(kind)


def _ctx(settings, tolv, how):
    st = ExitStack()
    if how == "settings" and tolv is not None:
        st.enter_context(settings.preconditioner_tolerance(float(tolv)))
    return st


def _call(op, rank, tolv, how, pivots=True):
    """One call.  how = 'settings': error_tol=None inside settings.preconditioner_tolerance(tol) (tol None: no context);
    'explicit': error_tol passed as an argument."""
    from linear_operator import settings
    with _ctx(settings, tolv, how):
        if how == "explicit":
            res = op.pivoted_cholesky(rank, error_tol=float(tolv), return_pivots=pivots)
        else:
            res = op.pivoted_cholesky(rank, return_pivots=pivots)
    return res


def _expected(mem, m, n):
    perm = [M["perm"] for M in mem]
    L = [[[float(M["cols"][t][i]) for t in range(m)] for i in range(n)] for M in mem]
    return perm, L


# ------------------------------------------------------------------------------------------------ H1: pc histories
ORDERS = {"loose-tight": ["L", "T"], "tight-loose": ["T", "L"], "loose-tight-loose": ["L", "T", "L"],
          "tight-loose-tight": ["T", "L", "T"], "explicit-between": ["L", "xT", "T", "xL", "L"],
          "nopivots-first": ["pL", "T", "L"]}


def pc_history_case(chk, cell, kind, order, nb, n, lines, handlers, viol):
    from linear_operator import settings
    rng = chk.rng
    lname, tl, tname, tt = rng.choice(TOL_PAIRS)
    default_tol = Fraction(str(settings.preconditioner_tolerance.value()))
    tt_eff = default_tol if tt is None else tt
    rank = rng.choice([n, n + 1, n - 1]) if n > 2 else n
    if kind == "BatchRepeat":
        g = gen_decisive(rng, 1, n, rank, tl, tt_eff)
        if g is not None:
            g = (g[0] * nb,)
    else:
        g = gen_decisive(rng, nb, n, rank, tl, tt_eff)
    if g is None:
        chk.count("hist_generation_failed")
        return
    As = g[0]
    dt = torch.float64 if rng.random() < 0.7 else torch.float32
    bshape = (nb,) if (nb > 1 or kind == "BatchRepeat") else rng.choice([(), (1,)])
    pc_history_run(chk, cell, kind, order, As, rank, tl, tt, dt, tuple(bshape), lines, handlers, viol)


def pc_history_run(chk, cell, kind, order, As, rank, tl, tt, dt, bshape, lines, handlers, viol):
    from linear_operator import settings
    c10 = _c10()
    n = len(As[0])
    default_tol = Fraction(str(settings.preconditioner_tolerance.value()))
    tt_eff = default_tol if tt is None else tt
    m_l, mem_l, ok_l = c10.oracle_exact(As, rank, tl)
    m_t, mem_t, ok_t = c10.oracle_exact(As, rank, tt_eff)
    if not (ok_l and ok_t):
        chk.count("hist_generation_failed")
        return
    if m_l != m_t:
        chk.count("hist_pc_decisive")
    mk = make_builder(kind, As, bshape, dt)
    if mk is None:
        chk.count("hist_builder_not_exact")
        return
    lname, tname = str(tl), ("default" if tt is None else str(tt))
    chk.case(f"{cell}|n={n}|rank={rank}|{lname}->{tname}|{c10.mat_line(As[0])}", nontrivial=True)
    chk.count("hist_pc")
    chk.count("hist_pc_kind:" + kind)
    payload = {"kind": "hist", "A": [[[str(v) for v in row] for row in A] for A in As], "rank": rank, "opkind": kind,
               "order": order, "loose": str(tl), "tight": None if tt is None else str(tt), "dtype": str(dt), "bshape": list(bshape)}
    op = mk()
    calls, got_hist = [], []
    for step, code in enumerate(ORDERS[order]):
        which = code[-1]
        how = "explicit" if code.startswith("x") else "settings"
        pivots = not code.startswith("p")
        tolv, tol_eff, m_spec, mem = (tl, tl, m_l, mem_l) if which == "L" else (tt, tt_eff, m_t, mem_t)
        if how == "explicit" and tolv is None:
            tolv = tol_eff
        where = f"call {step + 1} of history {ORDERS[order]} ({'loose' if which == 'L' else 'tight'} tolerance {float(tol_eff):g}, {how}" \
                f"{'' if pivots else ', return_pivots=False'}) on ONE {kind} operator object, rank={rank}"
        try:
            res = _call(op, rank, tolv, how, pivots)
            fresh = _call(mk(), rank, tolv, how, True)
        except Exception as e:
            viol(cell, f"exception {type(e).__name__}: {str(e)[:200]} at {where}", payload)
            return
        L, piv = (res if pivots else (res, fresh[1]))
        if not torch.is_tensor(L) or L.shape != fresh[0].shape or not torch.equal(L, fresh[0]) or not torch.equal(piv, fresh[1]):
            viol(cell, f"{where}: result differs from the same call on a FRESH copy of the operator: rank r={L.shape[-1] if torch.is_tensor(L) else None} "
                       f"vs {fresh[0].shape[-1]} (pivots {piv.reshape(-1, n).tolist()} vs {fresh[1].reshape(-1, n).tolist()})", payload)
            return
        Lf, pf = c10.flat_batch(L, 2).double(), c10.flat_batch(piv, 1)
        r = Lf.shape[-1]
        want_perm, want_L = _expected(mem, m_spec, n)
        if not (r == m_spec and pf.tolist() == want_perm and Lf.tolist() == want_L):
            viol(cell, f"{where}: impl r={r} pivots={pf.tolist()} but exact pivoted Cholesky with the tolerance in force gives r={m_spec} "
                       f"pivots={want_perm} for A={[[[int(v) for v in row] for row in A] for A in As]}", payload)
            return
        T = torch.tensor([[[float(v) for v in row] for row in A] for A in As], dtype=torch.float64)
        bad = c10.check_pc_properties(T, Lf, pf, rank, float(tol_eff), 1e-9)
        if bad:
            viol(cell, f"{where}: {bad[0][0]}: {bad[0][1]}", payload)
            return
        # the call as the history model sees it: (rank, error_tol or None, settings value at the call)
        calls.append(f"{rank}:{fmt_rat(tol_eff) if how == 'explicit' else '-'}:{fmt_rat(default_tol if how == 'explicit' else tol_eff)}")
        got_hist.append(f"{r}:" + "|".join(",".join(map(str, q)) for q in pf.tolist()))
        lines.append(f"pc rat {rank} {fmt_rat(tol_eff)} " + "|".join(c10.mat_line(A) for A in As))

        def h(o, r=r, pf=pf, Lf=Lf, where=where):
            try:
                head, *ms = o.split(" # ")
                hm = dict(x.split("=") for x in head.split())
                perm_m, L_m = [], []
                for s in ms:
                    d = dict(x.split("=", 1) for x in s.split())
                    perm_m.append([int(x) for x in d["perm"].split(",")])
                    rows = c10.parse_fmat(d["rows"], lambda x: float(Fraction(x)))
                    L_m.append([[rows[t][i] for t in range(len(rows))] for i in range(n)])
                same = int(hm["m"]) == r and hm["inexact"] == "0" and perm_m == pf.tolist() and L_m == Lf.tolist()
            except Exception as e:
                same, o = False, f"unparsable driver output {o[:200]} ({e})"
            if same:
                chk.traces_validated += 1
            else:
                chk.corr_break(cell, f"{where}: Lean model (pure function of A, rank and the tolerance in force) disagrees: {o[:300]}", payload)
        handlers.append(h)
    # the whole history through the Lean model of the method wrapper (memoisation as the extracted decorator list says)
    lines.append("hist gen " + "|".join(c10.mat_line(A) for A in As) + " " + ";".join(calls))

    def hh(o, want=";".join(got_hist)):
        if o == want:
            chk.traces_validated += 1
        else:
            chk.corr_break(cell, f"history {ORDERS[order]} on one {kind} object: Lean history model gives (r:pivots per call) {o[:200]}, implementation {want[:200]}", payload)
    handlers.append(hh)


# ------------------------------------------------------------------------------------------------ H1': float histories, any class
def pc_history_generic(chk, cell, it, viol):
    """Catalogue operator (any PSD class): loose/tight/loose on one object vs fresh copies, + stop rule of the tolerance in force."""
    c10 = _c10()
    rng = chk.rng
    A = it.dense.double()
    n = A.shape[-1]
    Af = c10.flat_batch(A, 2)
    rank = rng.choice([n, n + 1])
    loose, tight = rng.choice([(0.5, 1e-9), (0.5, 0.05), (0.2, 1e-6)])
    ro = {}
    for t in (loose, tight):
        mo, Lo, po, margin, stop_margin, minpiv = c10.oracle_float(Af, rank, t)
        if not (margin > 1e-7 and stop_margin > 1e-5 and minpiv > 1e-9):
            chk.count("hist_generic_not_robust")
            return
        ro[t] = mo
    chk.case(f"{cell}|rank={rank}|{loose}->{tight}|{A.flatten()[:12].tolist()}", nontrivial=n > 1)
    chk.count("hist_generic")
    if ro[loose] != ro[tight]:
        chk.count("hist_generic_decisive")
    payload = {"kind": "hist-generic", "name": it.name, "rank": rank, "loose": loose, "tight": tight}
    op = it.build()
    order = rng.choice([["L", "T", "L"], ["T", "L", "T"]])
    for step, which in enumerate(order):
        t = loose if which == "L" else tight
        where = f"call {step + 1} of history {order} (tolerance {t:g} from settings.preconditioner_tolerance) on ONE {it.name} object, rank={rank}"
        try:
            L, piv = _call(op, rank, t, "settings")
            Lr, pr = _call(it.build(), rank, t, "settings")
        except Exception as e:
            viol(cell, f"exception {type(e).__name__}: {str(e)[:200]} at {where}", payload)
            return
        if L.shape != Lr.shape or not torch.equal(L, Lr) or not torch.equal(piv, pr):
            viol(cell, f"{where}: r={L.shape[-1]}, a FRESH copy of the operator gives r={Lr.shape[-1]} (textbook algorithm: {ro[t]})", payload)
            return
        bad = c10.check_pc_properties(Af, c10.flat_batch(L, 2).double(), c10.flat_batch(piv, 1), rank, t, 1e-9)
        if bad:
            viol(cell, f"{where}: {bad[0][0]}: {bad[0][1]}", payload)
            return
        if L.shape[-1] != ro[t]:
            viol(cell, f"{where}: r={L.shape[-1]} but the textbook algorithm with this tolerance stops at r={ro[t]}", payload)
            return


# ------------------------------------------------------------------------------------------------ H2: shared kernel object
def precond_history_case(chk, cell, kind, dkind, vary, nb, n, lines, handlers, viol):
    """Two or three AddedDiagLinearOperators over ONE kernel operator object, preconditioners built under different settings."""
    from linear_operator import settings
    c10 = _c10()
    rng = chk.rng
    lname, tl, tname, tt = rng.choice(TOL_PAIRS)
    default_tol = Fraction(str(settings.preconditioner_tolerance.value()))
    tt_eff = default_tol if tt is None else tt
    g = gen_decisive(rng, nb, n, n, tl, tt_eff)
    if g is None:
        chk.count("hist_generation_failed")
        return
    As, (m_l, _), (m_t, _) = g
    # the configurations: (max_preconditioner_size, tolerance or None for "no context")
    if vary == "tol":
        cfgs = [(n, tl), (n, tt)]
    elif vary == "size":
        small = rng.randint(1, max(1, m_t - 1))
        cfgs = [(small, tt), (n, tt)]
    else:
        cfgs = [(rng.randint(1, max(1, m_l)), tl), (n, tt)]
    if rng.random() < 0.5:
        cfgs.reverse()
    cfgs.append(cfgs[0])
    r = lambda: float(rng.choice([0.5, 1.0, 2.0, 0.25, 4.0]))
    noises = []
    for _ in cfgs:
        if dkind == "const":
            noises.append([r()])
        else:
            dv = [r() for _ in range(n)]
            if n > 1:
                dv[0] = dv[1] + 1.0
            noises.append(dv)
    first_direct = rng.random() < 0.3
    precond_history_run(chk, cell, kind, dkind, As, cfgs, noises, first_direct, lines, handlers, viol)


def precond_history_run(chk, cell, kind, dkind, As, cfgs, noises, first_direct, lines, handlers, viol):
    from linear_operator import settings
    from linear_operator.operators import AddedDiagLinearOperator, ConstantDiagLinearOperator, DiagLinearOperator
    c10 = _c10()
    n, nb = len(As[0]), len(As)
    default_tol = Fraction(str(settings.preconditioner_tolerance.value()))
    bshape = (nb,) if nb > 1 else ()
    mk = make_builder(kind, As, bshape, torch.float64)
    if mk is None:
        chk.count("hist_builder_not_exact")
        return
    K = mk()
    chk.case(f"{cell}|n={n}|cfgs={[(a, None if b is None else str(b)) for a, b in cfgs]}|direct={first_direct}|{c10.mat_line(As[0])}", nontrivial=True)
    chk.count("hist_precond")
    payload = {"kind": "hist-precond", "A": [[[str(v) for v in row] for row in A] for A in As], "opkind": kind, "dkind": dkind,
               "cfgs": [(a, None if b is None else str(b)) for a, b in cfgs], "noises": noises, "first_direct": first_direct}
    T = torch.tensor([[[float(v) for v in row] for row in A] for A in As], dtype=torch.float64)
    if first_direct:
        # a direct call on the kernel object before any preconditioner is built
        with settings.preconditioner_tolerance(float(cfgs[1][1] if cfgs[1][1] is not None else default_tol)):
            K.pivoted_cholesky(cfgs[1][0])
    for step, (mx, tolv) in enumerate(cfgs):
        tol_eff = default_tol if tolv is None else tolv
        dv = torch.tensor(noises[step], dtype=torch.float64)
        if dkind == "const":
            D, dvals = ConstantDiagLinearOperator(dv, diag_shape=n), dv.expand(*bshape, n)
        else:
            D, dvals = DiagLinearOperator(dv), dv.expand(*bshape, n)
        where = f"AddedDiagLinearOperator #{step + 1} of {len(cfgs)} sharing ONE {kind} kernel object, built under max_preconditioner_size={mx}, " \
                f"preconditioner_tolerance={'default' if tolv is None else float(tolv)} (history {payload['cfgs']})"
        m_spec, mem, ok = c10.oracle_exact(As, mx, tol_eff)
        if not ok:
            chk.count("hist_precond_inexact")
            return
        with ExitStack() as st:
            st.enter_context(settings.max_preconditioner_size(mx))
            st.enter_context(settings.min_preconditioning_size(0))
            if tolv is not None:
                st.enter_context(settings.preconditioner_tolerance(float(tolv)))
            op = AddedDiagLinearOperator(K, D)
            try:
                closure, lt, logdet = op._preconditioner()
            except Exception as e:
                viol(cell, f"exception {type(e).__name__}: {str(e)[:200]} at {where}", payload)
                return
        if closure is None:
            viol(cell, f"{where}: no preconditioner returned", payload)
            return
        Lp = op._piv_chol_self
        Lpf = c10.flat_batch(Lp, 2)
        want_perm, want_L = _expected(mem, m_spec, n)
        if Lpf.shape[-1] != m_spec or Lpf.tolist() != want_L:
            viol(cell, f"{where}: the factor has {Lpf.shape[-1]} columns, pivoted_cholesky(K, rank={mx}, tol={float(tol_eff):g}) has {m_spec} "
                       f"(A={[[[int(v) for v in row] for row in A] for A in As]})", payload)
            return
        bad = c10.check_pc_properties(T, Lpf, torch.tensor(want_perm), mx, float(tol_eff), 1e-9)
        if bad:
            viol(cell, f"{where}: {bad[0][0]}: {bad[0][1]}", payload)
            return
        Lw = torch.tensor(want_L, dtype=torch.float64).reshape(*bshape, n, m_spec)
        Pm = Lw @ Lw.mT + torch.diag_embed(dvals)
        eye = torch.eye(n, dtype=torch.float64).expand(*bshape, n, n)
        got = closure(eye.clone())
        Pinv = torch.linalg.inv(Pm)
        if got.shape != Pinv.shape or float((got - Pinv).abs().max()) > 1e-9 * max(1.0, float(Pinv.abs().max())):
            viol(cell, f"{where}: closure(I) differs from (L L^T + D)^-1 for the factor of the settings in force", payload)
            return
        want_ld = torch.logdet(Pm)
        if not torch.is_tensor(logdet) or tuple(logdet.shape) != tuple(bshape) or float((logdet - want_ld).abs().max()) > 1e-9 * max(1.0, float(want_ld.abs().max())):
            viol(cell, f"{where}: logdet {logdet.tolist() if torch.is_tensor(logdet) else logdet} vs log|L L^T + D| = {want_ld.tolist()}", payload)
            return
        if lt is None or float((lt.to_dense() - Pm).abs().max()) > 1e-12 * float(Pm.abs().max()):
            viol(cell, f"{where}: _precond_lt does not densify to L L^T + D for the factor of the settings in force", payload)
            return
        lines.append(f"pc rat {mx} {fmt_rat(tol_eff)} " + "|".join(c10.mat_line(A) for A in As))

        def h(o, m_spec=m_spec, Lpf=Lpf, where=where):
            try:
                head, *ms = o.split(" # ")
                hm = dict(x.split("=") for x in head.split())
                L_m = []
                for s in ms:
                    d = dict(x.split("=", 1) for x in s.split())
                    rows = c10.parse_fmat(d["rows"], lambda x: float(Fraction(x)))
                    L_m.append([[rows[t][i] for t in range(len(rows))] for i in range(n)])
                same = int(hm["m"]) == m_spec and L_m == Lpf.tolist()
            except Exception as e:
                same, o = False, f"unparsable driver output {o[:200]} ({e})"
            if same:
                chk.traces_validated += 1
            else:
                chk.corr_break(cell, f"{where}: Lean model of the factor disagrees: {o[:300]}", payload)
        handlers.append(h)


# ------------------------------------------------------------------------------------------------ entry
def history_cases(chk, only, lines, handlers, viol, quick):
    rng = chk.rng
    orders = list(ORDERS)
    # H1: exact histories
    for kind in OPKINDS:
        for order in orders:
            for nb in ((1, 2) if kind != "BatchRepeat" else (2,)):
                cell = f"C10/hist/pc/{kind}/order={order}/b={nb}"
                if only and only != cell:
                    continue
                if quick and not only and kind not in ("Dense",) and rng.random() < 0.5:
                    continue
                for rep in range(1 if quick else 3):
                    n = rng.choice([3, 4, 5]) if nb == 1 else rng.choice([3, 4])
                    pc_history_case(chk, cell, kind, order, nb, n, lines, handlers, viol)
    # H1': catalogue classes
    for batch in ([(), (2,)] if quick else [(), (2,), (2, 3)]):
        insts = catalogue.instances(rng, torch.float64, batch, 3, psd=True, depth=1 if quick else 2)
        if not quick:
            insts += catalogue.instances(rng, torch.float64, batch, 4, psd=True, depth=1)
        for it in insts:
            if it.name.startswith("Interpolated"):
                continue    # open finding (approximate diagonal): defining properties fail for this class on any call
            cell = f"C10/hist/pc-op/{it.name}[b={batch}]"
            if only and only != cell:
                continue
            pc_history_generic(chk, cell, it, viol)
    # H2: shared kernel object
    for kind in ["Dense", "ConstantMul", "Sum", "Root"]:
        for dkind in ("const", "diag"):
            for vary in ("tol", "size", "both"):
                for nb in (1, 2):
                    cell = f"C10/hist/precond/{kind}/D={dkind}/vary={vary}/b={nb}"
                    if only and only != cell:
                        continue
                    if quick and not only and kind != "Dense" and rng.random() < 0.5:
                        continue
                    for rep in range(1 if quick else 2):
                        n = rng.choice([3, 4, 5]) if nb == 1 else rng.choice([3, 4])
                        precond_history_case(chk, cell, kind, dkind, vary, nb, n, lines, handlers, viol)
