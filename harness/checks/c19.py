"""C19 catalogue: one representative instance of every operator class (unbatched + batched), the
second-operand shape kinds, and the implementation / torch verdict functions.  Purely discrete:
a verdict is `("ok", shape_tuple)` or `("raise", exception_class_name)`."""
import fnmatch
import json
import os
import sys

import torch

from ..extract import c19_guards, c19_ext as c19_ext_extract
from . import c19_pairs, c19_ext

F64 = torch.float64


# --------------------------------------------------------------------------------------------------
# instances
# --------------------------------------------------------------------------------------------------
def _ival(rng, shape, lo=-3, hi=3):
    n = 1
    for s in shape:
        n *= s
    return torch.tensor([float(rng.randint(lo, hi)) for _ in range(n)], dtype=F64).reshape(shape)


def _psd(rng, batch, n):
    """integer symmetric strictly diagonally dominant (PSD, well conditioned)"""
    a = _ival(rng, batch + (n, n), -1, 1)
    a = a + a.transpose(-1, -2)
    return a + torch.eye(n, dtype=F64) * (2 * n + 3)


def _lower(rng, batch, n):
    a = _ival(rng, batch + (n, n), -1, 1).tril(-1)
    return a + torch.eye(n, dtype=F64) * 2


def _posdiag(rng, shape):
    return _ival(rng, shape, 1, 4)


def instances(rng, batch=(), n=3, extended=False):
    """-> list of (class_key, op) ; every op is built from exact integer data.  `batch` is () or a tuple."""
    import linear_operator.operators as O
    from linear_operator.operators import kernel_linear_operator as KLO

    b = tuple(batch)
    out = []

    def add(key, f):
        try:
            out.append((key, f()))
        except Exception as e:  # construction failure of the catalogue itself is reported by the caller
            out.append((key, e))

    dense = lambda m=n, k=n: O.DenseLinearOperator(_ival(rng, b + (m, k)))
    psd = lambda m=n: O.DenseLinearOperator(_psd(rng, b, m))
    add("Dense", lambda: psd())
    add("DenseRect", lambda: dense(n, n + 1))
    add("Diag", lambda: O.DiagLinearOperator(_posdiag(rng, b + (n,))))
    add("ConstantDiag", lambda: O.ConstantDiagLinearOperator(_posdiag(rng, b + (1,)), diag_shape=n))
    add("Identity", lambda: O.IdentityLinearOperator(n, batch_shape=torch.Size(b), dtype=F64))
    add("Zero", lambda: O.ZeroLinearOperator(*b, n, n, dtype=F64))
    add("ZeroRect", lambda: O.ZeroLinearOperator(*b, n, n + 1, dtype=F64))
    add("Toeplitz", lambda: O.ToeplitzLinearOperator(torch.cat([_posdiag(rng, b + (1,)) + 2 * n, _ival(rng, b + (n - 1,), -1, 1)], -1)))
    add("Triangular", lambda: O.TriangularLinearOperator(_lower(rng, b, n)))
    add("Chol", lambda: O.CholLinearOperator(O.TriangularLinearOperator(_lower(rng, b, n))))
    add("Root", lambda: O.RootLinearOperator(_ival(rng, b + (n, 2))))
    add("LowRankRoot", lambda: O.LowRankRootLinearOperator(_ival(rng, b + (n, 2))))
    add("Kronecker", lambda: O.KroneckerProductLinearOperator(O.DenseLinearOperator(_psd(rng, b, 2)), O.DenseLinearOperator(_psd(rng, b, 2))))
    add("KroneckerRect", lambda: O.KroneckerProductLinearOperator(O.DenseLinearOperator(_ival(rng, b + (2, 1))), O.DenseLinearOperator(_ival(rng, b + (2, 3)))))
    add("KroneckerTriangular", lambda: O.KroneckerProductTriangularLinearOperator(
        O.TriangularLinearOperator(_lower(rng, b, 2)), O.TriangularLinearOperator(_lower(rng, b, 2))))
    add("KroneckerDiag", lambda: O.KroneckerProductDiagLinearOperator(
        O.DiagLinearOperator(_posdiag(rng, b + (2,))), O.DiagLinearOperator(_posdiag(rng, b + (2,)))))
    add("AddedDiag", lambda: O.AddedDiagLinearOperator(psd(), O.DiagLinearOperator(_posdiag(rng, b + (n,)))))
    add("KroneckerAddedDiag", lambda: O.KroneckerProductAddedDiagLinearOperator(
        O.KroneckerProductLinearOperator(O.DenseLinearOperator(_psd(rng, b, 2)), O.DenseLinearOperator(_psd(rng, b, 2))),
        O.DiagLinearOperator(_posdiag(rng, b + (4,)))))
    add("LowRankRootAddedDiag", lambda: O.LowRankRootAddedDiagLinearOperator(
        O.LowRankRootLinearOperator(_ival(rng, b + (n, 2))), O.DiagLinearOperator(_posdiag(rng, b + (n,)))))
    add("Sum", lambda: O.SumLinearOperator(psd(), O.ToeplitzLinearOperator(torch.cat([_posdiag(rng, b + (1,)) + 2 * n, _ival(rng, b + (n - 1,), -1, 1)], -1))))
    add("PsdSum", lambda: O.PsdSumLinearOperator(psd(), O.RootLinearOperator(_ival(rng, b + (n, 2)))))
    add("SumKronecker", lambda: O.SumKroneckerLinearOperator(
        O.KroneckerProductLinearOperator(O.DenseLinearOperator(_psd(rng, b, 2)), O.DenseLinearOperator(_psd(rng, b, 2))),
        O.KroneckerProductLinearOperator(O.DenseLinearOperator(_psd(rng, b, 2)), O.DenseLinearOperator(_psd(rng, b, 2)))))
    add("Matmul", lambda: O.MatmulLinearOperator(O.DenseLinearOperator(_lower(rng, b, n)), O.DenseLinearOperator(_lower(rng, b, n).transpose(-1, -2))))
    add("MatmulRect", lambda: O.MatmulLinearOperator(dense(n, 2), dense(2, n + 1)))
    add("Mul", lambda: O.MulLinearOperator(O.RootLinearOperator(_ival(rng, b + (n, 2), 1, 2)), O.RootLinearOperator(_ival(rng, b + (n, 2), 1, 2))))
    add("ConstantMul", lambda: O.ConstantMulLinearOperator(psd(), torch.tensor(2.0, dtype=F64).expand(b) if b else torch.tensor(2.0, dtype=F64)))
    add("BlockDiag", lambda: O.BlockDiagLinearOperator(O.DenseLinearOperator(_psd(rng, b + (2,), 2))))
    add("BlockInterleaved", lambda: O.BlockInterleavedLinearOperator(O.DenseLinearOperator(_psd(rng, b + (2,), 2))))
    add("SumBatch", lambda: O.SumBatchLinearOperator(O.DenseLinearOperator(_psd(rng, b + (2,), n))))
    add("BatchRepeat", lambda: O.BatchRepeatLinearOperator(O.DenseLinearOperator(_psd(rng, tuple(1 for _ in b), n)), batch_repeat=torch.Size(b if b else (1,)))
        if b else O.BatchRepeatLinearOperator(O.DenseLinearOperator(_psd(rng, (), n)), batch_repeat=torch.Size((2,))))
    add("CatRows", lambda: O.CatLinearOperator(O.DenseLinearOperator(_ival(rng, b + (1, n))), O.DiagLinearOperator(_posdiag(rng, b + (n,))), dim=-2))
    add("CatCols", lambda: O.CatLinearOperator(O.DiagLinearOperator(_posdiag(rng, b + (n,))), O.DenseLinearOperator(_ival(rng, b + (n, 1))), dim=-1))
    if b:
        add("CatBatch", lambda: O.CatLinearOperator(O.DiagLinearOperator(_posdiag(rng, (1,) + b[1:] + (n,)) + 5),
                                                    O.DenseLinearOperator(_psd(rng, (b[0] - 1,) + b[1:], n)), dim=0))

    def interp():
        base = O.DenseLinearOperator(_psd(rng, b, n + 1))
        idx = torch.tensor([[i, i + 1] for i in range(n)], dtype=torch.long).expand(b + (n, 2)).contiguous()
        val = torch.tensor([[1.0, 1.0]] * n, dtype=F64).expand(b + (n, 2)).contiguous()
        return O.InterpolatedLinearOperator(base, idx, val, idx.clone(), val.clone())
    add("Interpolated", interp)
    add("Masked", lambda: O.MaskedLinearOperator(O.DenseLinearOperator(_psd(rng, b, n + 1)),
                                                 torch.tensor([True] * n + [False]), torch.tensor([True] * n + [False])))
    add("MaskedRect", lambda: O.MaskedLinearOperator(O.DenseLinearOperator(_ival(rng, b + (n + 1, n + 1))),
                                                     torch.tensor([True] * n + [False]), torch.tensor([True] * (n + 1))))

    def perm():
        p = torch.stack([torch.tensor(rng.sample(range(n), n)) for _ in range(max(1, _prod(b)))]).reshape(b + (n,))
        return O.PermutationLinearOperator(p)
    add("Permutation", perm)
    add("TransposePermutation", lambda: O.TransposePermutationLinearOperator(2))

    def kernel():
        x1 = _ival(rng, b + (n, 2))
        return KLO.KernelLinearOperator(x1, x1, lambda a, c, **kw: a @ c.transpose(-1, -2))
    add("Kernel", kernel)
    return out


def nested_instances(rng, batch=()):
    """n = 6 = 3 x 2 operators whose public solve-type methods delegate to hooks (`_cholesky_solve`, `_solve`,
    `_inv_matmul`) of OTHER classes: Chol over every triangular class, cholesky()/root_decomposition()-derived operators,
    Block/BatchRepeat/SumBatch over these."""
    import linear_operator.operators as O
    b = tuple(batch)
    out = []

    def low(bb, n):
        return _ival(rng, bb + (n, n), 0, 1).tril(-1) * 0.5 + torch.eye(n, dtype=F64) * 2

    def psd(bb, n):
        L = low(bb, n)
        return L @ L.transpose(-1, -2)

    def tri(n, bb=None):
        return O.TriangularLinearOperator(low(b if bb is None else bb, n))

    def kron():
        return O.KroneckerProductLinearOperator(O.DenseLinearOperator(psd(b, 3)), O.DenseLinearOperator(psd(b, 2)))

    def add(key, f):
        try:
            out.append((key, f()))
        except Exception as e:
            out.append((key, e))
    add("Chol(KronTri)", lambda: O.CholLinearOperator(O.KroneckerProductTriangularLinearOperator(tri(3), tri(2))))
    add("Chol(Kron.cholesky)", lambda: O.CholLinearOperator(kron().cholesky()))
    add("Kron.root_decomposition", lambda: kron().root_decomposition())
    add("Kron.cholesky", lambda: kron().cholesky())
    add("Kronecker", kron)
    add("KroneckerTriangular", lambda: O.KroneckerProductTriangularLinearOperator(tri(3), tri(2)))
    add("KroneckerAddedDiag", lambda: O.KroneckerProductAddedDiagLinearOperator(
        kron(), O.ConstantDiagLinearOperator(torch.full(b + (1,), 2.0, dtype=F64), diag_shape=6)))
    add("SumKronecker", lambda: O.SumKroneckerLinearOperator(kron(), kron()))
    add("Dense.root_decomposition", lambda: O.DenseLinearOperator(psd(b, 6)).root_decomposition())
    add("Chol(Dense.cholesky)", lambda: O.CholLinearOperator(O.DenseLinearOperator(psd(b, 6)).cholesky()))
    add("Chol(Tri(BlockDiag))", lambda: O.CholLinearOperator(O.TriangularLinearOperator(
        O.BlockDiagLinearOperator(O.DenseLinearOperator(low(b + (2,), 3))))))
    add("Tri(BlockDiag)", lambda: O.TriangularLinearOperator(O.BlockDiagLinearOperator(O.DenseLinearOperator(low(b + (2,), 3)))))
    add("Chol(Diag)", lambda: O.CholLinearOperator(O.DiagLinearOperator(_posdiag(rng, b + (6,)))))
    add("Chol(Diag.cholesky)", lambda: O.CholLinearOperator(O.DiagLinearOperator(_posdiag(rng, b + (6,))).cholesky()))
    add("BatchRepeat(Chol(KronTri))", lambda: O.BatchRepeatLinearOperator(
        O.CholLinearOperator(O.KroneckerProductTriangularLinearOperator(tri(3), tri(2))), batch_repeat=torch.Size((2,))))
    add("BlockDiag(Chol)", lambda: O.BlockDiagLinearOperator(O.CholLinearOperator(tri(3, b + (2,)))))
    add("BlockInterleaved(Chol)", lambda: O.BlockInterleavedLinearOperator(O.CholLinearOperator(tri(3, b + (2,)))))
    add("SumBatch(Chol)", lambda: O.SumBatchLinearOperator(O.CholLinearOperator(tri(6, b + (2,)))))
    add("BlockDiag(Kron.chol)", lambda: O.BlockDiagLinearOperator(O.CholLinearOperator(O.KroneckerProductTriangularLinearOperator(
        tri(3, b + (2,)), O.TriangularLinearOperator(low(b + (2,), 1))))))
    add("Diag", lambda: O.DiagLinearOperator(_posdiag(rng, b + (6,))))
    add("ConstantDiag", lambda: O.ConstantDiagLinearOperator(_posdiag(rng, b + (1,)), diag_shape=6))
    add("Identity", lambda: O.IdentityLinearOperator(6, batch_shape=torch.Size(b), dtype=F64))
    add("KroneckerDiag", lambda: O.KroneckerProductDiagLinearOperator(
        O.DiagLinearOperator(_posdiag(rng, b + (3,))), O.DiagLinearOperator(_posdiag(rng, b + (2,)))))
    add("AddedDiag(Chol)", lambda: O.AddedDiagLinearOperator(O.CholLinearOperator(tri(6)), O.DiagLinearOperator(_posdiag(rng, b + (6,)))))
    return out


def _prod(t):
    r = 1
    for x in t:
        r *= x
    return r


# --------------------------------------------------------------------------------------------------
# second-operand shape kinds (relative to the operator shape  *B, m, n)
# --------------------------------------------------------------------------------------------------
def matmul_kinds(shape, side="right"):
    """shapes of T for op @ T (side=right; inner dim = n, T is (.., n, p)) or T @ op (side=left; inner
    dim = m, T is (.., p, m)).  -> list of (kind, shape).  Kind families: ok-* (torch accepts),
    inner1-* (size-1 inner dim), innerX-* (wrong inner dim), rank0, batchX-* (non-broadcastable batch)."""
    *B, m, n = shape
    B = tuple(B)
    k = n if side == "right" else m
    oth = m if side == "right" else n
    p = 2

    def mat(batch, inner, cols=p):
        return tuple(batch) + ((inner, cols) if side == "right" else (cols, inner))
    res = [
        ("ok-mat", mat((), k)),
        ("ok-vec", (k,)),
        ("ok-matp1", mat((), k, 1)),
        ("ok-batch-same", mat(B, k)) if B else None,
        ("ok-batch-extra", mat((2,) + B, k)),
        ("ok-batch-one", mat((1,) * (len(B) + 1), k)),
        ("innerX-plus", mat((), k + 1)),
        ("innerX-minus", mat((), k - 1)) if k > 2 else None,
        ("inner1-mat", mat((), 1)) if k != 1 else None,
        ("inner1-matp1", mat((), 1, 1)) if k != 1 else None,
        ("innerX-vecplus", (k + 1,)),
        ("inner1-vec", (1,)) if k != 1 else None,
        ("rank0", ()),
        ("innerX-transposed", mat((), p, k)) if k != p else None,
        ("innerX-batch", mat((2,) + B, k + 1)),
        ("innerX-other", mat((), oth)) if oth != k else None,
        ("innerX-vecother", (oth,)) if oth != k else None,
        ("innerX-double", mat((), 2 * k)),
        ("innerX-triple", mat((), 3 * k)),
        ("innerX-half", mat((), k // 2)) if k % 2 == 0 and k > 2 else None,
        ("innerX-vecdouble", (2 * k,)),
        ("innerX-vechalf", (k // 2,)) if k % 2 == 0 and k > 2 else None,
        ("innerX-batchdouble", mat(B, 2 * k)) if B else None,
        ("innerX-zero", mat((), 0)),
    ]
    if B:
        res += [
            ("batchX-mismatch", mat((B[0] + 1,) + B[1:], k)),
            ("inner1-batchX", mat((B[0] + 1,) + B[1:], 1)) if k != 1 else None,
            ("ok-batch-bcast", mat((1,) + B[1:], k)),
            ("innerX-vecbatch", (B[0],)) if B[0] != k else None,
        ]
    return [r for r in res if r is not None]


def ew_kinds(shape):
    """elementwise second operands for + - * : (kind, shape)"""
    *B, m, n = shape
    B = tuple(B)
    res = [
        ("same", B + (m, n)),
        ("mat", (m, n)),
        ("batch-extra", (2,) + B + (m, n)),
        ("bad-rows-plus", B + (m + 1, n)),
        ("bad-cols-plus", B + (m, n + 1)),
        ("bad-both-plus", (m + 1, n + 1)),
        ("bad-transposed", B + (n, m)) if m != n else None,
        ("bcast-row1", (1, n)) if m != 1 else None,
        ("bcast-col1", (m, 1)) if n != 1 else None,
        ("bcast-vec", (n,)),
        ("bad-vec-plus", (n + 1,)),
        ("one-one", (1, 1)),
        ("scalar0d", ()),
    ]
    if B:
        res += [("bad-batch-mismatch", (B[0] + 1,) + B[1:] + (m, n)),
                ("batch-one", (1,) + B[1:] + (m, n))]
    return [r for r in res if r is not None]


def diag_kinds(shape):
    *B, m, n = shape
    B = tuple(B)
    res = [("full", B + (n,)), ("vec", (n,)), ("one", (1,)), ("scalar0d", ()), ("batch-one", B + (1,)),
           ("bad-plus", (n + 1,)), ("bad-minus", (n - 1,)) if n > 2 else None, ("extra-batch", (2,) + B + (n,)),
           ("extra-batch-one", (2,) + B + (1,)), ("matrix-as-batch", (n, n)) if not B else None]
    if B:
        res += [("bad-batch-mismatch", (B[0] + 1,) + B[1:] + (n,)), ("bad-batch-mismatch-one", (B[0] + 1,) + B[1:] + (1,))]
    return [r for r in res if r is not None]


def expand_kinds(shape):
    *B, m, n = shape
    B = tuple(B)
    res = [("same", B + (m, n)), ("extra", (2,) + B + (m, n)), ("minus1", B + (-1, -1)), ("extra-minus1", (2,) + B + (-1, -1)),
           ("bad-matrix", B + (m + 1, n)), ("bad-matrix-cols", B + (m, n + 2)), ("bad-short", (n,)), ("bad-missing-batch", (m, n)) if B else None,
           ("mixed-minus1", B + (-1, n)), ("bad-new-minus1", (-1,) + B + (m, n))]
    if B:
        res += [("bad-batch-shrink", (B[0] + 1,) + B[1:] + (m, n)), ("bad-batch-to-one", (1,) + B[1:] + (m, n)),
                ("batch-minus1", (-1,) + B[1:] + (m, n))]
    return [r for r in res if r is not None]


# --------------------------------------------------------------------------------------------------
# verdicts
# --------------------------------------------------------------------------------------------------
def verdict(f, densify=True):
    """("ok", shape) / ("raise", ExcName).  Operator results are evaluated (`to_dense`) because shapes
    and sums are lazy: an invalid operator that only fails when first used counts as a raise."""
    try:
        r = f()
        if isinstance(r, tuple) and not isinstance(r, torch.Size):
            r = r[0]
        shp = tuple(r.shape)
        if densify and not torch.is_tensor(r):
            d = r.to_dense()
            if tuple(d.shape) != shp:
                return ("ok", ("inconsistent", shp, tuple(d.shape)))
    except Exception as e:  # noqa
        return ("raise", type(e).__name__)
    return ("ok", shp)


def ones(shape, rng=None):
    if rng is None:
        return torch.ones(tuple(shape), dtype=F64)
    return _ival(rng, tuple(shape), 1, 3)


# --------------------------------------------------------------------------------------------------
# operator-typed second operands
# --------------------------------------------------------------------------------------------------
OPERAND_CLASSES = ["Diag", "ConstantDiag", "Identity", "Dense", "Zero", "Triangular", "Toeplitz", "Root", "Kronecker", "KroneckerDiag"]


def operand_operator(rc, batch, k, side):
    """an operator of class `rc` whose inner dimension is k: shape (*batch, k, k) for the square classes,
    (*batch, k, 2) [side=right] / (*batch, 2, k) [side=left] for Dense / Zero."""
    import linear_operator.operators as O
    b = tuple(batch)
    rect = (k, 2) if side == "right" else (2, k)
    if rc == "Diag":
        return O.DiagLinearOperator(torch.full(b + (k,), 2.0, dtype=F64))
    if rc == "ConstantDiag":
        return O.ConstantDiagLinearOperator(torch.full(b + (1,), 2.0, dtype=F64), diag_shape=k)
    if rc == "Identity":
        return O.IdentityLinearOperator(k, batch_shape=torch.Size(b), dtype=F64)
    if rc == "Dense":
        return O.DenseLinearOperator(torch.ones(b + rect, dtype=F64))
    if rc == "Zero":
        return O.ZeroLinearOperator(*b, *rect, dtype=F64)
    if rc == "Triangular":
        return O.TriangularLinearOperator(torch.ones(b + (k, k), dtype=F64).tril())
    if rc == "Toeplitz":
        return O.ToeplitzLinearOperator(torch.ones(b + (k,), dtype=F64))
    if rc == "Root":
        return O.RootLinearOperator(torch.ones(b + (k, 1), dtype=F64))
    a = 2 if (k % 2 == 0 and k > 2) else 1
    if rc == "Kronecker":
        return O.KroneckerProductLinearOperator(O.DenseLinearOperator(torch.ones(b + (a, a), dtype=F64)),
                                                O.DenseLinearOperator(torch.ones(b + (k // a, k // a), dtype=F64)))
    if rc == "KroneckerDiag":
        return O.KroneckerProductDiagLinearOperator(O.DiagLinearOperator(torch.full(b + (a,), 2.0, dtype=F64)),
                                                    O.DiagLinearOperator(torch.full(b + (k // a,), 2.0, dtype=F64)))
    raise KeyError(rc)


def operand_kinds(shape, side):
    """(kind, batch, k) of operator operands for `op @ R` (side=right, k vs n) / `R @ op` (side=left, k vs m)."""
    *B, m, n = shape
    B = tuple(B)
    k = n if side == "right" else m
    res = [("ok", B, k), ("ok-nobatch", (), k), ("innerX-plus", B, k + 1)]
    if k != 1:
        res += [("inner1", B, 1), ("inner1-nobatch", (), 1)]
    if B:
        res += [("batchX-mismatch", (B[0] + 1,) + B[1:], k)]
        if k != 1:
            res += [("inner1-batchX", (B[0] + 1,) + B[1:], 1)]
    return res


# --------------------------------------------------------------------------------------------------
# index cases
# --------------------------------------------------------------------------------------------------
def index_cases(shape):
    """-> (kind, index-tuple-as-json-able list).  ints: every position × {size, size+1, -size-1} (invalid)
    and {0, size-1} (+ -size, -1 in batch positions) (valid); tensors: a 2-element index whose second
    entry is out of range / in range, alone (`_getitem` path) and with tensors in every other position
    (`_get_indices` path)."""
    nd = len(shape)
    res = []
    # index tuples LONGER than the number of dimensions (716435a) and their valid neighbours; all entries in range
    T0 = {"t": [0, 0], "dt": "int64"}
    res += [("count/toomany-ints", [0] * (nd + 1)), ("count/toomany-slices", [":"] * (nd + 1)), ("count/toomany-tensors", [T0] * (nd + 1)),
            ("count/toomany-slices-int", [":"] * nd + [0]), ("count/toomany-int-slices", [0] + [":"] * nd), ("count/toomany-two-extra", [0] * (nd + 2)),
            ("count/toomany-mixed", [0, ":"] * ((nd + 2) // 2) if len([0, ":"] * ((nd + 2) // 2)) > nd else [0, ":"] * ((nd + 2) // 2) + [0]),
            ("count/toomany-ellipsis-front", ["..."] + [0] * (nd + 1)), ("count/toomany-ellipsis-mid", [0, "..."] + [":"] * nd),
            ("count/toomany-ellipsis-back", [":"] * (nd + 1) + ["..."]), ("count/toomany-tensor-last", [":"] * nd + [T0]),
            ("count/ok-ints", [0] * nd), ("count/ok-ellipsis-full", ["..."] + [0] * nd), ("count/ok-ellipsis-empty-mid", [0] * (nd - 1) + ["...", 0]),
            ("count/ok-ellipsis-only", ["..."]), ("count/ok-ellipsis-int", ["...", 0])]
    for pos in range(nd):
        size = shape[pos]
        pname = ["row", "col"][pos - (nd - 2)] if pos >= nd - 2 else f"batch{pos}"
        ints = [("eq-size", size), ("gt-size", size + 1), ("lt-neg", -size - 1), ("ok-zero", 0), ("ok-last", size - 1)]
        if pos < nd - 2:
            ints += [("ok-negsize", -size), ("ok-neg1", -1)]
        for vname, v in ints:
            idx = [":"] * nd
            idx[pos] = v
            res.append((f"int/{pname}/{vname}", idx))
        for vname, v in [("ok-negsize", -size), ("ok-neg1", -1)]:
            idx = [":"] * nd
            idx[pos] = {"t": [v, 0], "dt": "int64"}
            res.append((f"tensor1/{pname}/{vname}", idx))
            idx = [":"] * nd
            idx[pos] = {"t": v, "dt": "int64"}
            res.append((f"tensor0d/{pname}/{vname}", idx))
        for dt in ("int64", "int32", "int16", "int8"):
            for vname, v in [("eq-size", size), ("lt-neg", -size - 1), ("ok-last", size - 1)]:
                if dt in ("int16", "int8") and vname.startswith("ok"):
                    continue   # torch refuses int16/int8 index tensors altogether; only "must raise" cases are used
                tag = "" if dt == "int64" else "@" + dt
                idx = [":"] * nd
                idx[pos] = {"t": [0, v], "dt": dt}
                res.append((f"tensor1{tag}/{pname}/{vname}", idx))
                idx = [{"t": [0, 0], "dt": dt} for _ in range(nd)]
                idx[pos] = {"t": [0, v], "dt": dt}
                res.append((f"tensorall{tag}/{pname}/{vname}", idx))
                # a 0-d integer tensor in one position (torch: behaves like the int)
                idx = [":"] * nd
                idx[pos] = {"t": v, "dt": dt}
                res.append((f"tensor0d{tag}/{pname}/{vname}", idx))
                if nd > 2 and pos >= nd - 2:
                    # row and column tensors only (batch sliced): the plain `_get_indices` path
                    idx = [":"] * (nd - 2) + [{"t": [0, 0], "dt": dt}, {"t": [0, 0], "dt": dt}]
                    idx[pos] = {"t": [0, v], "dt": dt}
                    res.append((f"tensorrc{tag}/{pname}/{vname}", idx))
    return res


def mk_index(idx):
    def one(i):
        if i == ":":
            return slice(None)
        if i == "...":
            return Ellipsis
        if isinstance(i, dict):
            return torch.tensor(i["t"], dtype=getattr(torch, i["dt"]))
        if isinstance(i, list):
            return torch.tensor(i)
        return i
    return tuple(one(i) for i in idx)


# --------------------------------------------------------------------------------------------------
# one case = (class key, batch, op, kind, operand description) -> impl verdict, torch verdict, model line
# --------------------------------------------------------------------------------------------------
MM_OPS = ["matmul", "rmatmul", "solve", "solve-left", "fsolve", "fsolve-left", "inv_quad", "iql", "sqrt_inv_matmul", "sqrt_inv_matmul-left", "matmul-Op"]
NESTED_OPS = ["matmul", "solve", "solve-left", "fsolve", "fsolve-left", "inv_quad", "iql", "sqrt_inv_matmul", "sqrt_inv_matmul-left"]
EW_OPS = ["add-T", "sub-T", "mul-T", "add-Op", "mul-Op", "radd-T"]
NONPSD = {"Permutation", "TransposePermutation", "Kernel", "Triangular", "KroneckerTriangular", "Matmul", "Zero", "Root", "LowRankRoot", "Mul"}


def shp(t):
    return ",".join(str(int(x)) for x in t) if len(t) else "-"


class Runner:
    def __init__(self, definers_matmul, mro_definer):
        self.mm_def = definers_matmul      # class name -> definer of matmul (from the translator)
        self.mro_definer = mro_definer     # (cls, method) -> defining class name at run time

    def run_case(self, op, D, opname, T_shape, debug, idx=None, others=None):
        """returns impl verdict, spec verdict"""
        import linear_operator
        from linear_operator import settings
        from linear_operator.operators import DenseLinearOperator
        shape = tuple(op.shape)
        sq = shape[-1] == shape[-2]
        T = ones(T_shape) if T_shape is not None and opname not in ("expand",) and not opname.endswith("-by-op") else None

        def quad(R):
            if T.dim() > 1:
                return (T * R).sum(-2).sum(-1)
            return (T * R).sum(-1)

        def need_sq():
            if not sq:
                raise RuntimeError("non-square")
        if opname == "matmul":
            f, g = (lambda: op @ T), (lambda: D @ T)
        elif opname == "matmul-Op":
            f, g = (lambda: op @ DenseLinearOperator(T)), (lambda: D @ T)
        elif opname in ("matmul-by-op", "tmatmul-by-op", "rmatmul-by-op"):
            rc, rb, rk = others
            R = operand_operator(rc, rb, rk, "left" if opname == "rmatmul-by-op" else "right")
            RD = R.to_dense().to(F64)
            if opname == "matmul-by-op":
                f, g = (lambda: op @ R), (lambda: D @ RD)
            elif opname == "tmatmul-by-op":
                f, g = (lambda: torch.matmul(op, R)), (lambda: torch.matmul(D, RD))
            else:
                f, g = (lambda: R @ op), (lambda: RD @ D)
        elif opname == "rmatmul":
            f, g = (lambda: T @ op), (lambda: T @ D)
        elif opname == "solve":
            f, g = (lambda: op.solve(T)), (lambda: (need_sq(), D @ T)[1])
        elif opname in ("solve-left", "fsolve", "fsolve-left", "sqrt_inv_matmul", "sqrt_inv_matmul-left"):
            # a left tensor that FITS the right-hand side (2 x rows-of-T), so that only the operator can object
            L = ones(tuple(T_shape[:-2]) + (2, T_shape[-2])) if len(T_shape) >= 2 else (ones((2, T_shape[0])) if len(T_shape) == 1 else ones((2, 1)))
            left = opname.endswith("-left")
            g = (lambda: (need_sq(), L @ (D @ T))[1]) if left else (lambda: (need_sq(), D @ T)[1])
            if opname.startswith("solve"):
                f = lambda: op.solve(T, L)
            elif opname.startswith("fsolve"):
                f = (lambda: linear_operator.solve(op, T, L)) if left else (lambda: linear_operator.solve(op, T))
            else:
                f = (lambda: op.sqrt_inv_matmul(T, L)) if left else (lambda: op.sqrt_inv_matmul(T))
        elif opname == "inv_quad":
            f, g = (lambda: op.inv_quad(T)), (lambda: (need_sq(), quad(D @ T))[1])
        elif opname == "iql":
            f, g = (lambda: op.inv_quad_logdet(T, logdet=True)[0]), (lambda: (need_sq(), quad(D @ T))[1])
        elif opname == "iql-cg":
            def f():
                with settings.max_cholesky_size(0), settings.num_trace_samples(2), \
                        settings.max_preconditioner_size(0):
                    return op.inv_quad_logdet(T, logdet=True)[0]
            g = lambda: (need_sq(), quad(D @ T))[1]
        elif opname == "add-T":
            f, g = (lambda: op + T), (lambda: D + T)
        elif opname == "radd-T":
            f, g = (lambda: T + op), (lambda: T + D)
        elif opname == "sub-T":
            f, g = (lambda: op - T), (lambda: D - T)
        elif opname == "mul-T":
            f, g = (lambda: op * T), (lambda: D * T)
        elif opname == "add-Op":
            f, g = (lambda: op + DenseLinearOperator(T)), (lambda: D + T)
        elif opname == "mul-Op":
            f, g = (lambda: op * DenseLinearOperator(T)), (lambda: D * T)
        elif opname == "add_diagonal":
            def g():
                need_sq()
                n = shape[-1]
                if T.dim() == 0:
                    return D + T * torch.eye(n, dtype=F64)
                if T.shape[-1] not in (1, n):
                    raise RuntimeError("diag length")
                return D + torch.diag_embed(T.expand(*T.shape[:-1], n))
            f = lambda: op.add_diagonal(T)
        elif opname == "expand":
            f, g = (lambda: op.expand(*T_shape)), (lambda: D.expand(*T_shape))
        elif opname == "expand-size":
            f, g = (lambda: op.expand(torch.Size(T_shape))), (lambda: D.expand(torch.Size(T_shape)))
        elif opname == "getitem":
            ix = mk_index(idx)
            f, g = (lambda: op[ix]), (lambda: D[ix])
        elif opname == "cat":
            dim, oshapes = others
            ops2 = [DenseLinearOperator(ones(s_)) for s_ in oshapes]
            from linear_operator.operators.cat_linear_operator import cat as lo_cat
            f = lambda: lo_cat([op] + ops2, dim=dim)
            g = lambda: torch.cat([D] + [ones(s_) for s_ in oshapes], dim=dim)
        else:
            raise KeyError(opname)
        with settings.debug(debug):
            iv = verdict(f)
        tv = verdict(g)
        return iv, tv


def model_line(cls_name, definers, opname, shape, T_shape, mro_def):
    """Lean driver line predicting the guard's verdict, plus how to compare:
    'full' (ok-shape / err must match the impl), 'okerr' (only ok vs raise), 'guard' (err ⇒ impl raises)."""
    a = shp(shape)
    if opname == "matmul":
        return f"mmdef {definers[cls_name]} {a} {shp(T_shape)}", "full"
    if opname == "matmul-Op":
        return f"mmdef {definers[cls_name]} {a} {shp(T_shape)}", "full"
    if opname in ("matmul-by-op", "tmatmul-by-op"):
        return f"mm base {a} {shp(T_shape)}", "guard"
    if opname == "rmatmul-by-op":
        return f"mm base {shp(T_shape)} {a}", "guard"
    if opname == "solve":
        d = mro_def(cls_name, "solve")
        if d in ("LinearOperator", "LowRankRootAddedDiagLinearOperator", "KroneckerProductTriangularLinearOperator"):
            return f"solve {a} {shp(T_shape)}", "full"
        if d == "DiagLinearOperator":
            return f"mm diagEw {a} {shp(T_shape)}", "full"
        if d == "IdentityLinearOperator":
            return f"mm identity {a} {shp(T_shape)}", "full"
    if opname in ("solve-left", "fsolve-left") and len(T_shape) >= 1:
        d = mro_def(cls_name, "solve")
        L = tuple(T_shape[:-2]) + (2, T_shape[-2]) if len(T_shape) >= 2 else (2, T_shape[0])
        if d in ("LinearOperator", "LowRankRootAddedDiagLinearOperator", "KroneckerProductTriangularLinearOperator",
                 "DiagLinearOperator", "IdentityLinearOperator"):
            return f"solveleft {a} {shp(T_shape)} {shp(L)}", "full"
    if opname == "fsolve" and mro_def(cls_name, "solve") in ("LinearOperator", "LowRankRootAddedDiagLinearOperator", "KroneckerProductTriangularLinearOperator"):
        return f"solve {a} {shp(T_shape)}", "full"
    if opname == "inv_quad" and mro_def(cls_name, "inv_quad") == "LinearOperator":
        return f"invquad {a} {shp(T_shape)}", "okerr"
    if opname == "iql-cg" and mro_def(cls_name, "inv_quad_logdet") == "LinearOperator":
        return f"iql {a} {shp(T_shape)}", "guard"
    if opname == "mul-T" and mro_def(cls_name, "mul") == "LinearOperator" and mro_def(cls_name, "__mul__") == "LinearOperator":
        return f"mul {a} {shp(T_shape)}", "guard"
    if opname == "add-T" and mro_def(cls_name, "__add__") == "LinearOperator":
        return f"addT {a} {shp(T_shape)}", "full"
    if opname == "add_diagonal" and mro_def(cls_name, "add_diagonal") == "LinearOperator":
        return f"adddiag {a} {shp(T_shape)}", "full"
    if opname == "add_diagonal":
        # per-class overrides (LinOp/C19/ExtModel.lean); the result SHAPE is compared too (classify)
        return f"adddiagdef {mro_def(cls_name, 'add_diagonal')} {a} {shp(T_shape)}", "full"
    if opname == "rmatmul" and mro_def(cls_name, "rmatmul") == "LinearOperator":
        return f"rmm {a} {shp(T_shape)}", "full"
    if opname == "expand":
        if cls_name == "DenseLinearOperator":
            return f"denseexpand {a} {shp(T_shape)}", "full"
        return f"expandguard {a} {shp(T_shape)}", "guard"
    return None, None


def spec_line(opname, shape, T_shape):
    """Lean Spec.* line that must reproduce torch's verdict on the dense tensor."""
    a = shp(shape)
    if opname in ("matmul",):
        return f"torchmm {a} {shp(T_shape)}"
    if opname == "rmatmul":
        return f"torchmm {shp(T_shape)} {a}"
    if opname == "solve":
        return f"solvespec {a} {shp(T_shape)}"
    if opname in ("add-T", "mul-T", "sub-T"):
        return f"bc {a} {shp(T_shape)}"
    if opname == "add_diagonal":
        return f"adddiagspec {a} {shp(T_shape)}"
    if opname == "expand":
        return f"torchexpand {a} {shp(T_shape)}"
    return None


def fmt_verdict(v):
    return f"ok {shp(v[1])}" if v[0] == "ok" and not (v[1] and v[1][0] == "inconsistent") else ("ok ?" if v[0] == "ok" else "err")


BASELINE = os.path.join(os.path.dirname(os.path.dirname(os.path.dirname(os.path.abspath(__file__)))), "notes", "C19_strict_baseline.txt")


def load_baseline():
    if not os.path.exists(BASELINE):
        return set()
    return {_coarse(ln.strip()) for ln in open(BASELINE) if ln.strip() and not ln.startswith("#")}


def _coarse(cell):
    """class / op / kind without batch, size and debug tags: raises of the class's own code on non-PSD
    instances depend on the seed-random values, so the baseline is matched at this granularity."""
    return "/".join(cell.split("/")[:-2])


def class_name(op):
    return type(op).__name__


def gen_cases(chk, tier, collect=None):
    """Runs every catalogue cell.  Returns list of records."""
    import linear_operator.operators as O
    ops_t, definers_l, overrides, base_guards = c19_guards.generate()
    definers = dict(definers_l)

    def mro_def(cls_name, meth):
        cls = getattr(O, cls_name, None)
        if cls is None:
            from linear_operator.operators import kernel_linear_operator, permutation_linear_operator
            cls = getattr(kernel_linear_operator, cls_name, None) or getattr(permutation_linear_operator, cls_name, None)
        for k in cls.__mro__:
            if meth in k.__dict__:
                return k.__name__
        return "?"
    # dynamic cross-check of the translator against the run-time classes
    for cname, d in definers_l:
        cls = getattr(O, cname, None)
        if cls is None:
            continue
        rt = next((k.__name__ for k in cls.__mro__ if "matmul" in k.__dict__), "?")
        if rt != d:
            chk.proof_break("translator(C19Guards)", f"matmul definer of {cname}: table {d}, run time {rt}")
    for cname, m, _ in overrides:
        cls = getattr(O, cname, None)
        if cls is not None and m.split(":")[0] not in cls.__dict__:
            chk.proof_break("translator(C19Guards)", f"{cname}.{m} in table but not defined at run time")
    for cname, m, _ in c19_guards.extract.delegations:
        cls = getattr(O, cname, None)
        if cls is not None and m not in cls.__dict__:
            chk.proof_break("translator(C19Guards)", f"delegation table has {cname}.{m}, not defined at run time")
    for cname in ops_t:
        cls = getattr(O, cname, None)
        if cls is None:
            continue
        for m in c19_guards.DELEG_METHODS:
            if m in cls.__dict__ and not any(c == cname and mm == m for c, mm, _ in c19_guards.extract.delegations):
                chk.proof_break("translator(C19Guards)", f"{cname}.{m} defined at run time but missing from the delegation table")
        for m in c19_guards.METHODS:
            if m in cls.__dict__ and not any(c == cname and mm == m for c, mm, _ in overrides):
                chk.proof_break("translator(C19Guards)", f"{cname}.{m} defined at run time but missing from the table")
    add_diag, rmm_t, cat_t, ad_definers = c19_ext_extract.generate()
    for cname, d in ad_definers:
        cls = getattr(O, cname, None)
        if cls is None:
            continue
        rt = next((k.__name__ for k in cls.__mro__ if "add_diagonal" in k.__dict__), "?")
        if rt != d:
            chk.proof_break("translator(C19Ext)", f"add_diagonal definer of {cname}: table {d}, run time {rt}")
    for cname in ops_t:
        cls = getattr(O, cname, None)
        if cls is None:
            continue
        for m, tab in (("add_diagonal", add_diag), ("rmatmul", rmm_t)):
            if (m in cls.__dict__) != any(c == cname for c, _ in tab):
                chk.proof_break("translator(C19Ext)", f"{cname}.{m}: run-time definition and generated table disagree")
    runner = Runner(definers, mro_def)
    recs = []
    batches = [(), (2,)] if tier == "quick" else [(), (2,), (3,), (2, 1)]
    sizes = [3] if tier == "quick" else [3, 4]
    todo = []
    for n in sizes:
        for b in batches:
            if n == 4 and b not in ((), (2,)):
                continue
            todo += [(key, op, b, n, False) for key, op in instances(chk.rng, b, n=n)]
    for b in ([(), (2,)] if tier == "quick" else [(), (2,), (3,), (2, 1)]):
        todo += [(key, op, b, 6, True) for key, op in nested_instances(chk.rng, b)]
    if True:
        if True:
            for key, op, b, n, nested in todo:
                if isinstance(op, Exception):
                    chk.proof_break("catalogue", f"cannot construct {key} b={b}: {op!r}")
                    continue
                try:
                    D = op.to_dense().to(F64)
                except Exception as e:   # the densification itself is C01's business; the instance is unusable here
                    chk.count(f"catalogue-skip:{key}:b={shp(b)}:{type(e).__name__}")
                    continue
                shape = tuple(op.shape)
                cname = class_name(op)
                tagb = f"b={shp(b)}" + ("" if n == 3 else f"|n={n}")
                plan = []
                for opname in (NESTED_OPS if nested else MM_OPS):
                    side = "left" if opname == "rmatmul" else "right"
                    if opname.startswith("sqrt_inv_matmul") and mro_def(cname, "sqrt_inv_matmul") == "LinearOperator":
                        continue   # base sqrt_inv_matmul = contour-integral quadrature (iterative); only the overrides are swept
                    for kind, ts in matmul_kinds(shape, side):
                        if opname == "matmul-Op" and len(ts) < 2:
                            continue
                        if opname.endswith("-left") and (len(ts) == 0 or (len(ts) == 1 and len(shape) > 2)):
                            continue   # left tensor × batch of vectors: torch has no single reading of L @ (A^-1 r)
                        dbgs = (True, False) if opname in ("matmul", "matmul-Op", "solve") else (True,)
                        for dbg in dbgs:
                            plan.append((opname, kind, ts, dbg, None, None))
                for opname in (() if nested else ("matmul-by-op", "tmatmul-by-op", "rmatmul-by-op")):
                    side = "left" if opname == "rmatmul-by-op" else "right"
                    for kind, rb, rk in operand_kinds(shape, side):
                        for rc in OPERAND_CLASSES:
                            if opname == "tmatmul-by-op" and not kind.startswith(("inner1", "ok")):
                                continue
                            rshape = tuple(rb) + ((rk, rk) if rc not in ("Dense", "Zero") else ((rk, 2) if side == "right" else (2, rk)))
                            plan.append((opname, f"{rc}:{kind}", rshape, True, None, (rc, list(rb), rk)))
                for opname in (() if nested else EW_OPS):
                    for kind, ts in ew_kinds(shape):
                        if opname.endswith("-Op") and len(ts) < 2:
                            continue
                        for dbg in ((True, False) if opname in ("add-T", "add-Op", "mul-Op") else (True,)):
                            plan.append((opname, kind, ts, dbg, None, None))
                for kind, ts in ([] if nested else diag_kinds(shape)):
                    plan.append(("add_diagonal", kind, ts, True, None, None))
                for kind, ts in ([] if nested else expand_kinds(shape)):
                    plan.append(("expand", kind, ts, True, None, None))
                    if all(x >= 0 for x in ts):
                        plan.append(("expand-size", kind, ts, True, None, None))
                # cat along every dim with a Dense partner of matching / mismatching shape
                for dim in ([] if nested else range(-len(shape), 0)):
                    good = list(shape); good[dim] = 2
                    bad1 = list(good); bad1[(dim + 1) % len(shape) - len(shape) if len(shape) > 1 else dim] += 1
                    dn = {-1: "col", -2: "row"}.get(dim, f"batch{len(shape) + dim}")
                    for dbg in (True, False):
                        plan.append(("cat", f"{dn}/ok", None, dbg, None, (dim, [tuple(good)])))
                        plan.append(("cat", f"{dn}/other-dim-plus", None, dbg, None, (dim, [tuple(bad1)])))
                        plan.append(("cat", f"{dn}/rank-plus", None, dbg, None, (dim, [(2,) + tuple(good)])))
                for kind, idx in ([] if nested else index_cases(shape)):
                    for dbg in (True, False):
                        plan.append(("getitem", kind, None, dbg, idx, None))
                for opname, kind, ts, dbg, idx, others in plan:
                    cell = f"C19/{key}/{opname}/{kind}/{tagb}/debug={'on' if dbg else 'off'}"
                    try:
                        iv, tv = runner.run_case(op, D, opname, ts, dbg, idx=idx, others=others)
                    except Exception as e:  # harness error
                        chk.proof_break("harness", f"{cell}: {e!r}")
                        continue
                    ml, mode = (None, None)
                    sl = None
                    if ts is not None:
                        ml, mode = model_line(cname, definers, opname, shape, ts, mro_def)
                        if opname == "add-T" and not dbg:
                            ml, mode = None, None   # the >= 2-D requirement is Dense._check_args, which only runs under debug
                        sl = spec_line(opname, shape, ts) if dbg else None
                    elif opname == "getitem" and kind.startswith("int/"):
                        pos = next(i for i, x in enumerate(idx) if x != ":")
                        sl = f"indexvalid {shape[pos]} {idx[pos]}"
                        ml, mode = f"range {shape[pos]} {idx[pos]}", "okerr"
                    elif opname == "getitem" and kind.startswith("count/"):
                        ks = ",".join("e" if x == "..." else ("s" if x == ":" else ("t" if isinstance(x, dict) else "i")) for x in idx)
                        sl = f"idxcountspec {len(shape)} {ks}"
                        ml, mode = f"idxcount {len(shape)} {ks}", "okerr"
                    elif opname == "getitem" and kind.startswith("tensor"):
                        pname = kind.split("/")[1]
                        pos = len(shape) - 2 + ["row", "col"].index(pname) if pname in ("row", "col") else int(pname[5:])
                        if "@int16" not in kind and "@int8" not in kind:
                            tl = idx[pos]["t"] if isinstance(idx[pos]["t"], list) else [idx[pos]["t"]]
                            ml, mode = f"rangelist {shape[pos]} " + ",".join(str(x) for x in tl), "okerr"
                    elif opname == "cat":
                        dim, osh = others
                        pd = dim + len(shape)
                        sl = f"cat spec {pd} {shp(shape)} " + " ".join(shp(x) for x in osh)
                        if dbg and cname != "DenseLinearOperator":
                            ml, mode = f"catctor 1 {pd} {shp(shape)} " + " ".join(shp(x) for x in osh), "full"
                    recs.append({"cell": cell, "key": key, "cls": cname, "b": list(b), "n": n, "op": opname, "kind": kind, "shape": list(shape),
                                 "operand": list(ts) if ts is not None else None, "idx": idx, "others": others, "debug": dbg,
                                 "impl": iv, "torch": tv, "model_line": ml, "mode": mode, "spec_line": sl})
    recs += gen_square_cases(chk, tier, todo)
    # extension cells: cat_rows / add_low_rank on FRESH instances (no cached decompositions)
    ext_spec = [((), 3), ((2,), 3)] if tier == "quick" else [((), 3), ((2,), 3), ((3,), 3), ((2, 1), 3), ((), 4), ((2,), 4)]
    recs += c19_ext.gen_ext_cases(chk, tier, ext_spec, instances, mro_def)
    recs += gen_pair_cases(chk, tier)
    return recs



# --------------------------------------------------------------------------------------------------
# operator ⋆ operator pairs with differing structural parameters (harness/checks/c19_pairs.py)
# --------------------------------------------------------------------------------------------------
def _pair_base(tag):
    """`base=2x3x3` -> [2, 3, 3] (plain dense base, default block dimension) else None"""
    if tag.startswith("base=") and ";" not in tag and ":" not in tag:
        return [int(x) for x in tag[5:].split("x")]
    return None


def pair_model_line(fa, ta, fb, tb, a, b, op):
    """Lean model of the operator-operator shortcut, where one is modelled; else the base guard (one-directional)."""
    sa, sb = shp(tuple(a.shape)), shp(tuple(b.shape))
    if op in ("matmul", "tmatmul"):
        if fa == fb == "BlockDiag" and _pair_base(ta) and _pair_base(tb):
            return f"bdpair {shp(_pair_base(ta))} {shp(_pair_base(tb))}", "full"
        if fa == fb == "Diag":
            return f"diagpair {shp(tuple(a.shape)[:-1])} {shp(tuple(b.shape)[:-1])}", "full"
        return f"mm base {sa} {sb}", "guard"
    if op in ("add", "sub") and fa in ("ConstantDiag", "Identity") and fb in ("ConstantDiag", "Identity"):
        return f"cdadd {shp(tuple(a.shape)[:-1])} {shp(tuple(b.shape)[:-1])}", "full"
    return None, None


def gen_pair_cases(chk, tier, only=None):
    """ordered pairs of structured operators (same family: all structural parameters; different families: small pools)."""
    pl = c19_pairs.pool(chk.rng, tier)
    dense = {}
    for i, (fam, tag, a, _) in enumerate(pl):
        if isinstance(a, Exception):
            chk.proof_break("catalogue", f"cannot construct pair operand {fam}:{tag}: {a!r}")
            continue
        try:
            dense[i] = a.to_dense().to(F64)
            if tuple(dense[i].shape) != tuple(a.shape):
                raise RuntimeError(f"to_dense shape {tuple(dense[i].shape)} != shape {tuple(a.shape)}")
        except Exception as e:
            chk.count(f"catalogue-skip:pair:{fam}:{tag}:{type(e).__name__}")
    recs = []
    for i, j, ops in c19_pairs.plan(pl, tier):
        if i not in dense or j not in dense:
            continue
        fa, ta, a, _ = pl[i]
        fb, tb, b, _ = pl[j]
        for op, dbg in ops:
            rel = c19_pairs.relation(op, tuple(a.shape), tuple(b.shape))
            cell = f"C19/pair/{fa}:{ta}/{op}/{fb}:{tb}/{rel}/debug={'on' if dbg else 'off'}"
            if only is not None and cell != only:
                continue
            if rel.startswith("ew1"):
                # torch broadcasts a size-1 MATRIX dimension of one operator against the other: valid for torch, not an
                # "incompatible shape"; the library's elementwise shortcuts are not required to reproduce it (not swept)
                chk.count("pair-skipped:matrix-dim-broadcast")
                continue
            try:
                iv, tv, veq = c19_pairs.run_pair(a, b, dense[i], dense[j], op, dbg)
            except Exception as e:
                chk.proof_break("harness", f"{cell}: {e!r}")
                continue
            ml, mode = pair_model_line(fa, ta, fb, tb, a, b, op) if dbg else (None, None)
            sl = None
            if dbg:
                sl = (f"torchmm {shp(tuple(a.shape))} {shp(tuple(b.shape))}" if op in ("matmul", "tmatmul")
                      else f"bc {shp(tuple(a.shape))} {shp(tuple(b.shape))}")
            recs.append({"cell": cell, "key": fa, "cls": class_name(a), "b": [], "n": 0, "op": "pair-" + op, "kind": rel,
                         "shape": list(a.shape), "operand": list(b.shape), "idx": None, "others": [fa, ta, fb, tb, op], "debug": dbg,
                         "impl": iv, "torch": tv, "model_line": ml, "mode": mode, "spec_line": sl, "pair": True,
                         "valeq": veq if op != "mul" else None})
    return recs


# --------------------------------------------------------------------------------------------------
# square-only operations on rectangular operators
# --------------------------------------------------------------------------------------------------
SQUARE_OPS = ["logdet", "cholesky", "eigh", "eigvalsh", "diagonalization", "root_decomposition", "root_inv_decomposition",
              "inverse", "diagonal", "add_jitter", "solve", "inv_quad", "inv_quad_logdet", "add_diagonal"]
# methods for which torch has no dense counterpart that refuses a rectangular matrix (`diagonal` of a 3x4 tensor is defined,
# `D + jitter * eye(m, n)` is defined): only the model (guard table) is compared, not the property
SQUARE_NO_SPEC = {"diagonal", "add_jitter"}


def gen_square_cases(chk, tier, todo):
    import linear_operator.operators as O
    recs = []
    for key, op, b, n, nested in todo:
        if nested or isinstance(op, Exception):
            continue
        shape = tuple(op.shape)
        if shape[-1] == shape[-2]:
            continue
        cname = class_name(op)
        tagb = f"b={shp(b)}" + ("" if n == 3 else f"|n={n}")
        for meth in SQUARE_OPS:
            if not hasattr(op, meth):
                continue
            args = {"solve": (ones(shape[:-2] + (shape[-1], 2)),), "inv_quad": (ones(shape[:-2] + (shape[-1], 2)),),
                    "inv_quad_logdet": (ones(shape[:-2] + (shape[-1], 2)),), "add_diagonal": (ones((shape[-1],)),)}.get(meth, ())

            def f(meth=meth, args=args):
                r = getattr(op, meth)(*args)
                if isinstance(r, tuple):
                    r = r[0]
                if r is not None and not torch.is_tensor(r) and hasattr(r, "to_dense"):
                    r.to_dense()
                return r
            try:
                r = f()
                iv = ("ok", tuple(r.shape) if hasattr(r, "shape") else ())
            except Exception as e:  # noqa
                iv = ("raise", type(e).__name__)
            tv = ("ok", iv[1] if iv[0] == "ok" else ()) if meth in SQUARE_NO_SPEC else ("raise", "RuntimeError")
            cell = f"C19/{key}/square-{meth}/rect/{tagb}/debug=on"
            ml = f"squareof {cname} {meth} {shp(shape)}" if cname in dict(c19_guards.extract.mros) else None
            recs.append({"cell": cell, "key": key, "cls": cname, "b": list(b), "n": n, "op": "square-" + meth, "kind": "rect",
                         "shape": list(shape), "operand": None, "idx": None, "others": None, "debug": True,
                         "impl": iv, "torch": tv, "model_line": ml, "mode": "guard" if ml else None, "spec_line": None, "pair": True,
                         "valeq": None})
    return recs


def classify(chk, recs, outs, baseline, collect=None):
    """Compare impl / torch / model for every record."""
    li = 0
    for r in recs:
        mo = so = None
        if r["model_line"]:
            mo = outs[li]; li += 1
        if r["spec_line"]:
            so = outs[li]; li += 1
        iv, tv = r["impl"], r["torch"]
        cell = r["cell"]
        desc = f"{cell} shape={r['shape']} operand={r['operand']} idx={r['idx']} others={r['others']}"
        valid = tv[0] == "ok"
        chk.case(desc, nontrivial=True)
        chk.count("op:" + r["op"]); chk.count("class:" + r["key"]); chk.count("torch-accepts" if valid else "torch-rejects")
        chk.count("impl-raises:" + iv[1] if iv[0] == "raise" else "impl-returns")
        payload = {k: r[k] for k in ("key", "b", "n", "op", "kind", "operand", "idx", "others", "debug", "cell")}
        # (0) Lean Spec.* reproduces torch (validates the spec of torch semantics)
        if so is not None:
            want = fmt_verdict(tv) if r["op"] not in ("getitem", "cat") else ("ok" if valid else "err")
            got = so if not so.startswith("err") else "err"
            if r["op"] in ("getitem",):
                got = "ok" if so.startswith("ok") else "err"
            if r["op"] == "cat":
                got = "ok" if so.startswith("ok") else "err"
                if valid and so != f"ok {shp(tv[1])}":
                    got = so
                    want = f"ok {shp(tv[1])}"
            if got != want:
                chk.proof_break("spec(" + r["spec_line"].split()[0] + ")", f"Lean spec says `{so}` but torch on the dense tensor says `{want}` for `{r['spec_line']}`")
        # (1) the property: impl vs torch
        viol = None
        if not valid and iv[0] == "ok":
            viol = f"accepted although torch rejects: returned shape {iv[1]}; torch raises {tv[1]}"
        elif valid and iv[0] == "ok" and tuple(iv[1]) != tuple(tv[1]):
            viol = f"returned shape {iv[1]} but torch produces {tv[1]}"
        if not viol and r.get("valeq") is False:
            viol = "accepted with torch's shape but DIFFERENT VALUES from the dense computation"
            cell = cell + "/value"
        if viol:
            if collect is not None:
                collect.setdefault("viol", []).append(cell)
            chk.violation(cell, f"{r['cls']} {r['op']} operator shape {tuple(r['shape'])} operand {r['operand'] if r['operand'] is not None else (r['idx'] or r['others'])} "
                          f"debug={'on' if r['debug'] else 'off'}: {viol}", payload)
            continue
        # (2) correspondence with the Lean model of the guards
        agree = True
        if mo is not None:
            m_ok = mo.startswith("ok")
            if r["mode"] == "full":
                if m_ok != (iv[0] == "ok") or (m_ok and iv[0] == "ok" and (r["op"] not in ("add_diagonal",) or r["model_line"].startswith("adddiagdef")) and mo != fmt_verdict(iv)):
                    agree = False
            elif r["mode"] == "okerr":
                if m_ok != (iv[0] == "ok"):
                    agree = False
            elif r["mode"] == "guard":
                if not m_ok and iv[0] == "ok":
                    agree = False
            if not agree and iv[0] == "raise" and m_ok and _coarse(cell) in baseline:
                agree = True   # the guard passed, the class's own code rejected (recorded at design time)
            if not agree:
                chk.corr_break(cell, f"Lean model `{r['model_line']}` → `{mo}` but the implementation: {iv}", payload)
            else:
                chk.traces_validated += 1
        # (3) a torch-valid operand that is rejected: only allowed where the model's guard rejects it
        #     or the unchanged library is known to (strict baseline)
        if valid and iv[0] == "raise" and not r.get("pair"):
            if collect is not None:
                collect.setdefault("strict", []).append(cell)
            explained = (mo is not None and not mo.startswith("ok")) or _coarse(cell) in baseline
            if not explained:
                chk.corr_break(cell, f"torch accepts (shape {tv[1]}) and the modelled guard accepts, but the implementation raises {iv[1]} "
                               f"(a guard became stricter, or an inner step fails)", payload)


def run(chk, collect=None):
    chk.rule = ("fixed catalogue: one instance of every operator class (n=3, unbatched and batch (2,); thorough adds n=4, batch (3,), (2,1)) × "
                "{matmul, rmatmul, solve, inv_quad, inv_quad_logdet (Cholesky and CG path), matmul by operator, + − * with tensor and operator, "
                "add_diagonal, expand, cat, int/tensor indexing at every position} × shape kinds (valid; size-1 inner; wrong inner; 0-d; "
                "non-broadcastable batch; extra/missing dims; index = size, size+1, −size−1) × settings.debug on/off; values are seed-random "
                "integers, the verdict (raise / result shape) is compared with torch on the dense tensor and with the Lean guard model; "
                "distinct = distinct cell × operand shape.  PLUS (harness/checks/c19_pairs.py) ordered pairs of structured operators whose structural "
                "parameters differ (block count / block size, Kronecker factor sizes, diagonal length 1/3/4/6, batch (), (2,), (1,), (3,), (2,1), root rank; "
                "37 families): same family = full cross product, different families = small pools (+/- for every ordered pair of families, @ and * between "
                "the families that dispatch on each other; thorough: all) under @, torch.matmul, +, -, *; verdict, shape and (for accepted pairs, not *) values "
                "vs torch on the dense matrices; pairs that differ only by a torch-broadcastable size-1 matrix dimension are not judged.  PLUS square-only "
                "methods (logdet, cholesky, eigh, eigvalsh, diagonalization, root decompositions, inverse, solve, inv_quad(_logdet), add_diagonal) on every "
                "rectangular instance must raise; compared with the generated is_square guard table through the Lean model")
    chk.assumptions += ["torch's verdict on the densified operator (cast to float64) is the specification",
                        "an operator result that raises when first evaluated (lazy shape / to_dense) counts as a raise",
                        "solve-type operations on non-PSD catalogue instances may raise for numerical reasons (NotPSDError); such raises are accepted"]
    recs = gen_cases(chk, chk.tier, collect)
    chk.prove("LinOp.Properties.C19", ["LinOp/C19", "LinOp/Generated/C19Guards.lean", "LinOp/Generated/C19Ext.lean", "LinOp/Core/Parse.lean"])
    lines = []
    for r in recs:
        if r["model_line"]:
            lines.append(r["model_line"])
        if r["spec_line"]:
            lines.append(r["spec_line"])
    outs = chk.run_driver("C19", lines)
    if outs is None:
        outs = ["bad-op"] * len(lines)
    for ln, o in zip(lines, outs):
        if o in ("bad-op", "unknown-definer"):
            chk.proof_break("driver(C19)", f"`{ln}` → {o}")
            break
    classify(chk, recs, outs, load_baseline(), collect)


def replay(chk, payload):
    import random
    pl = payload.get("payload") or {}
    if "key" not in pl:
        print("replay names broken obligations only:", json.dumps(pl)[:2000])
        return run(chk)
    from linear_operator import settings
    ops_t, definers_l, overrides, base_guards = c19_guards.generate()
    rng = random.Random(0)
    if str(pl.get("op", "")).startswith("pair-"):
        chk.rng = rng
        base = pl["cell"][:-len("/value")] if pl["cell"].endswith("/value") else pl["cell"]
        recs = gen_pair_cases(chk, "thorough", only=base)
        for r in recs:
            iv, tv = r["impl"], r["torch"]
            chk.case(json.dumps(pl))
            print(f"replay {r['cell']}: impl {iv}  torch {tv}  values-equal {r['valeq']}")
            if (tv[0] == "raise" and iv[0] == "ok") or (tv[0] == "ok" and iv[0] == "ok" and tuple(iv[1]) != tuple(tv[1])):
                chk.violation(r["cell"], f"impl {iv} torch {tv}", pl)
            elif r["valeq"] is False:
                chk.violation(r["cell"] + "/value", f"impl {iv} torch {tv}: values differ", pl)
        return
    if str(pl.get("op", "")).startswith("ext-"):
        chk.rng = rng
        import linear_operator.operators as O

        def mro_def(cls_name, meth):
            cls = getattr(O, cls_name, None)
            return next((k.__name__ for k in cls.__mro__ if meth in k.__dict__), "?") if cls else "?"
        base = pl["cell"][:-len("/value")] if pl["cell"].endswith("/value") else pl["cell"]
        for r in c19_ext.gen_ext_cases(chk, "thorough", [(tuple(pl["b"]), pl.get("n", 3))], instances, mro_def, only=base):
            iv, tv = r["impl"], r["torch"]
            chk.case(json.dumps(pl))
            print(f"replay {r['cell']}: impl {iv}  torch {tv}  values-equal {r['valeq']}")
            if (tv[0] == "raise" and iv[0] == "ok") or (tv[0] == "ok" and iv[0] == "ok" and tuple(iv[1]) != tuple(tv[1])):
                chk.violation(r["cell"], f"impl {iv} torch {tv}", pl)
            elif r["valeq"] is False:
                chk.violation(r["cell"] + "/value", f"impl {iv} torch {tv}: values differ", pl)
        return
    if str(pl.get("op", "")).startswith("square-"):
        chk.rng = rng
        todo = [(k, o, tuple(pl["b"]), pl.get("n", 3), False) for k, o in instances(rng, tuple(pl["b"]), n=pl.get("n", 3)) if k == pl["key"]]
        for r in gen_square_cases(chk, "thorough", todo):
            if r["cell"] == pl["cell"]:
                chk.case(json.dumps(pl))
                print(f"replay {r['cell']}: impl {r['impl']}  required {r['torch']}")
                if r["torch"][0] == "raise" and r["impl"][0] == "ok":
                    chk.violation(r["cell"], f"impl {r['impl']} on a rectangular operator", pl)
        return
    if pl.get("n", 3) == 6:
        op = dict(nested_instances(rng, tuple(pl["b"])))[pl["key"]]
    else:
        op = dict(instances(rng, tuple(pl["b"]), n=pl.get("n", 3)))[pl["key"]]
    D = op.to_dense().to(F64)
    runner = Runner(dict(definers_l), None)
    others = pl.get("others")
    if others:
        others = (others[0], [tuple(x) for x in others[1]])
    iv, tv = runner.run_case(op, D, pl["op"], tuple(pl["operand"]) if pl.get("operand") is not None else None, pl["debug"],
                             idx=pl.get("idx"), others=others)
    chk.case(json.dumps(pl))
    print(f"replay {pl['cell']}: impl {iv}  torch {tv}")
    if (tv[0] == "raise" and iv[0] == "ok") or (tv[0] == "ok" and iv[0] == "ok" and tuple(iv[1]) != tuple(tv[1])):
        chk.violation(pl["cell"], f"impl {iv} torch {tv}", pl)


if __name__ == "__main__":
    # development helper: python -m harness.checks.c19 --baseline  (writes notes/C19_strict_baseline.txt, prints violating cells)
    from ..common import Check
    allv, alls = set(), set()
    for seed in range(int(sys.argv[2]) if len(sys.argv) > 2 else 3):
        for tier in ("quick", "thorough"):
            chk = Check("C19", tier, seed)
            chk.findings = []
            col = {}
            run(chk, col)
            allv |= set(col.get("viol", [])); alls |= set(col.get("strict", []))
            print(seed, tier, len(col.get("viol", [])), len(col.get("strict", [])), chk.proof_breaks[:3], file=sys.stderr)
    if "--baseline" in sys.argv:
        with open(BASELINE, "w") as fh:
            fh.write("# C19: cells where the UNCHANGED library raises although torch accepts the operand and the modelled guard passes\n"
                     "# (unsupported operation, non-PSD catalogue instance, documented stricter contract, inner torch check).  Not a C19\n"
                     "# violation; recorded at design time so that a guard that becomes stricter later is noticed.  Never written at run time.\n")
            for c in sorted(alls):
                fh.write(c + "\n")
    with open("/tmp/c19x/violcells.txt", "w") as fh:
        for c in sorted(allv):
            fh.write(c + "\n")
