"""C19 catalogue: one representative instance of every operator class (unbatched + batched), the
second-operand shape kinds, and the implementation / torch verdict functions.  Purely discrete:
a verdict is `("ok", shape_tuple)` or `("raise", exception_class_name)`."""
import itertools

import torch

F64 = torch.float64


# --------------------------------------------------------------------------------------------------
# instances
# --------------------------------------------------------------------------------------------------
def _ival(rng, shape, lo=-3, hi=3):
    n = 1
    for s in shape:
        n *= s
    return torch.tensor([float(rng.randint(lo, hi)) for _ in range(n)], dtype=F64).reshape(shape)


def _psd(rng, batch, n):
    """integer symmetric strictly diagonally dominant (PSD, well conditioned)"""
    a = _ival(rng, batch + (n, n), -1, 1)
    a = a + a.transpose(-1, -2)
    return a + torch.eye(n, dtype=F64) * (2 * n + 3)


def _lower(rng, batch, n):
    a = _ival(rng, batch + (n, n), -1, 1).tril(-1)
    return a + torch.eye(n, dtype=F64) * 2


def _posdiag(rng, shape):
    return _ival(rng, shape, 1, 4)


def instances(rng, batch=(), n=3, extended=False):
    """-> list of (class_key, op) ; every op is built from exact integer data.  `batch` is () or a tuple."""
    import linear_operator.operators as O
    from linear_operator.operators import kernel_linear_operator as KLO

    b = tuple(batch)
    out = []

    def add(key, f):
        try:
            out.append((key, f()))
        except Exception as e:  # construction failure of the catalogue itself is reported by the caller
            out.append((key, e))

    dense = lambda m=n, k=n: O.DenseLinearOperator(_ival(rng, b + (m, k)))
    psd = lambda m=n: O.DenseLinearOperator(_psd(rng, b, m))
    add("Dense", lambda: psd())
    add("DenseRect", lambda: dense(n, n + 1))
    add("Diag", lambda: O.DiagLinearOperator(_posdiag(rng, b + (n,))))
    add("ConstantDiag", lambda: O.ConstantDiagLinearOperator(_posdiag(rng, b + (1,)), diag_shape=n))
    add("Identity", lambda: O.IdentityLinearOperator(n, batch_shape=torch.Size(b), dtype=F64))
    add("Zero", lambda: O.ZeroLinearOperator(*b, n, n, dtype=F64))
    add("ZeroRect", lambda: O.ZeroLinearOperator(*b, n, n + 1, dtype=F64))
    add("Toeplitz", lambda: O.ToeplitzLinearOperator(torch.cat([_posdiag(rng, b + (1,)) + 2 * n, _ival(rng, b + (n - 1,), -1, 1)], -1)))
    add("Triangular", lambda: O.TriangularLinearOperator(_lower(rng, b, n)))
    add("Chol", lambda: O.CholLinearOperator(O.TriangularLinearOperator(_lower(rng, b, n))))
    add("Root", lambda: O.RootLinearOperator(_ival(rng, b + (n, 2))))
    add("LowRankRoot", lambda: O.LowRankRootLinearOperator(_ival(rng, b + (n, 2))))
    add("Kronecker", lambda: O.KroneckerProductLinearOperator(O.DenseLinearOperator(_psd(rng, b, 2)), O.DenseLinearOperator(_psd(rng, b, 2))))
    add("KroneckerRect", lambda: O.KroneckerProductLinearOperator(O.DenseLinearOperator(_ival(rng, b + (2, 1))), O.DenseLinearOperator(_ival(rng, b + (2, 3)))))
    add("KroneckerTriangular", lambda: O.KroneckerProductTriangularLinearOperator(
        O.TriangularLinearOperator(_lower(rng, b, 2)), O.TriangularLinearOperator(_lower(rng, b, 2))))
    add("KroneckerDiag", lambda: O.KroneckerProductDiagLinearOperator(
        O.DiagLinearOperator(_posdiag(rng, b + (2,))), O.DiagLinearOperator(_posdiag(rng, b + (2,)))))
    add("AddedDiag", lambda: O.AddedDiagLinearOperator(psd(), O.DiagLinearOperator(_posdiag(rng, b + (n,)))))
    add("KroneckerAddedDiag", lambda: O.KroneckerProductAddedDiagLinearOperator(
        O.KroneckerProductLinearOperator(O.DenseLinearOperator(_psd(rng, b, 2)), O.DenseLinearOperator(_psd(rng, b, 2))),
        O.DiagLinearOperator(_posdiag(rng, b + (4,)))))
    add("LowRankRootAddedDiag", lambda: O.LowRankRootAddedDiagLinearOperator(
        O.LowRankRootLinearOperator(_ival(rng, b + (n, 2))), O.DiagLinearOperator(_posdiag(rng, b + (n,)))))
    add("Sum", lambda: O.SumLinearOperator(psd(), O.ToeplitzLinearOperator(torch.cat([_posdiag(rng, b + (1,)) + 2 * n, _ival(rng, b + (n - 1,), -1, 1)], -1))))
    add("PsdSum", lambda: O.PsdSumLinearOperator(psd(), O.RootLinearOperator(_ival(rng, b + (n, 2)))))
    add("SumKronecker", lambda: O.SumKroneckerLinearOperator(
        O.KroneckerProductLinearOperator(O.DenseLinearOperator(_psd(rng, b, 2)), O.DenseLinearOperator(_psd(rng, b, 2))),
        O.KroneckerProductLinearOperator(O.DenseLinearOperator(_psd(rng, b, 2)), O.DenseLinearOperator(_psd(rng, b, 2)))))
    add("Matmul", lambda: O.MatmulLinearOperator(O.DenseLinearOperator(_lower(rng, b, n)), O.DenseLinearOperator(_lower(rng, b, n).transpose(-1, -2))))
    add("MatmulRect", lambda: O.MatmulLinearOperator(dense(n, 2), dense(2, n + 1)))
    add("Mul", lambda: O.MulLinearOperator(O.RootLinearOperator(_ival(rng, b + (n, 2), 1, 2)), O.RootLinearOperator(_ival(rng, b + (n, 2), 1, 2))))
    add("ConstantMul", lambda: O.ConstantMulLinearOperator(psd(), torch.tensor(2.0, dtype=F64).expand(b) if b else torch.tensor(2.0, dtype=F64)))
    add("BlockDiag", lambda: O.BlockDiagLinearOperator(O.DenseLinearOperator(_psd(rng, b + (2,), 2))))
    add("BlockInterleaved", lambda: O.BlockInterleavedLinearOperator(O.DenseLinearOperator(_psd(rng, b + (2,), 2))))
    add("SumBatch", lambda: O.SumBatchLinearOperator(O.DenseLinearOperator(_psd(rng, b + (2,), n))))
    add("BatchRepeat", lambda: O.BatchRepeatLinearOperator(O.DenseLinearOperator(_psd(rng, tuple(1 for _ in b), n)), batch_repeat=torch.Size(b if b else (1,)))
        if b else O.BatchRepeatLinearOperator(O.DenseLinearOperator(_psd(rng, (), n)), batch_repeat=torch.Size((2,))))
    add("CatRows", lambda: O.CatLinearOperator(O.DenseLinearOperator(_ival(rng, b + (1, n))), O.DiagLinearOperator(_posdiag(rng, b + (n,))), dim=-2))
    add("CatCols", lambda: O.CatLinearOperator(O.DiagLinearOperator(_posdiag(rng, b + (n,))), O.DenseLinearOperator(_ival(rng, b + (n, 1))), dim=-1))
    if b:
        add("CatBatch", lambda: O.CatLinearOperator(O.DiagLinearOperator(_posdiag(rng, (1,) + b[1:] + (n,)) + 5),
                                                    O.DenseLinearOperator(_psd(rng, (b[0] - 1,) + b[1:], n)), dim=0))

    def interp():
        base = O.DenseLinearOperator(_psd(rng, b, n + 1))
        idx = torch.tensor([[0, 1], [1, 2], [2, 3]][:n], dtype=torch.long).expand(b + (n, 2)).contiguous()
        val = torch.tensor([[1.0, 1.0]] * n, dtype=F64).expand(b + (n, 2)).contiguous()
        return O.InterpolatedLinearOperator(base, idx, val, idx.clone(), val.clone())
    add("Interpolated", interp)
    add("Masked", lambda: O.MaskedLinearOperator(O.DenseLinearOperator(_psd(rng, b, n + 1)),
                                                 torch.tensor([True] * n + [False]), torch.tensor([True] * n + [False])))
    add("MaskedRect", lambda: O.MaskedLinearOperator(O.DenseLinearOperator(_ival(rng, b + (n + 1, n + 1))),
                                                     torch.tensor([True] * n + [False]), torch.tensor([True] * (n + 1))))

    def perm():
        p = torch.stack([torch.tensor(rng.sample(range(n), n)) for _ in range(max(1, _prod(b)))]).reshape(b + (n,))
        return O.PermutationLinearOperator(p)
    add("Permutation", perm)
    add("TransposePermutation", lambda: O.TransposePermutationLinearOperator(2))

    def kernel():
        x1 = _ival(rng, b + (n, 2))
        return KLO.KernelLinearOperator(x1, x1, lambda a, c, **kw: a @ c.transpose(-1, -2) + torch.eye(n, dtype=F64) * 40)
    add("Kernel", kernel)
    return out


def _prod(t):
    r = 1
    for x in t:
        r *= x
    return r


# --------------------------------------------------------------------------------------------------
# second-operand shape kinds (relative to the operator shape  *B, m, n)
# --------------------------------------------------------------------------------------------------
def matmul_kinds(shape, side="right"):
    """shapes of T for op @ T (side=right; inner dim = n, T is (.., n, p)) or T @ op (side=left; inner
    dim = m, T is (.., p, m)).  -> list of (kind, shape)"""
    *B, m, n = shape
    B = tuple(B)
    k = n if side == "right" else m
    oth = m if side == "right" else n
    p = 2

    def mat(batch, inner, cols=p):
        return tuple(batch) + ((inner, cols) if side == "right" else (cols, inner))
    res = [
        ("mat", mat((), k)),
        ("vec", (k,)),
        ("mat-p1", mat((), k, 1)),
        ("mat-batch-same", mat(B, k)),
        ("mat-batch-extra", mat((2,) + B, k)),
        ("mat-batch-one", mat((1,) * (len(B) + 1), k)),
        ("bad-inner-plus", mat((), k + 1)),
        ("bad-inner-minus", mat((), k - 1)) if k > 1 else None,
        ("bad-inner-one", mat((), 1)) if k != 1 else None,
        ("bad-inner-one-p1", mat((), 1, 1)) if k != 1 else None,
        ("bad-vec-plus", (k + 1,)),
        ("bad-vec-one", (1,)) if k != 1 else None,
        ("bad-scalar", ()),
        ("bad-transposed", mat((), p, k)) if k != p else None,
        ("bad-batch-inner", mat((2,) + B, k + 1)),
        ("bad-inner-other", mat((), oth)) if oth != k else None,
        ("bad-vec-other", (oth,)) if oth != k else None,
        ("bad-inner-double", mat((), 2 * k)),
        ("bad-inner-zero", mat((), 0)),
    ]
    if B:
        res += [
            ("bad-batch-mismatch", mat((B[0] + 1,) + B[1:], k)),
            ("bad-batch-mismatch-inner-one", mat((B[0] + 1,) + B[1:], 1)),
            ("mat-batch-bcast", mat((1,) + B[1:], k)),
            ("bad-vec-batchsize", (B[0],)) if B[0] != k else None,
        ]
    return [r for r in res if r is not None]


def ew_kinds(shape):
    """elementwise second operands for + - * : (kind, shape)"""
    *B, m, n = shape
    B = tuple(B)
    res = [
        ("same", B + (m, n)),
        ("mat", (m, n)),
        ("batch-extra", (2,) + B + (m, n)),
        ("bad-rows-plus", B + (m + 1, n)),
        ("bad-cols-plus", B + (m, n + 1)),
        ("bad-both-plus", (m + 1, n + 1)),
        ("bad-transposed", B + (n, m)) if m != n else None,
        ("bcast-row1", (1, n)) if m != 1 else None,
        ("bcast-col1", (m, 1)) if n != 1 else None,
        ("bcast-vec", (n,)),
        ("bad-vec-plus", (n + 1,)),
        ("one-one", (1, 1)),
        ("scalar0d", ()),
    ]
    if B:
        res += [("bad-batch-mismatch", (B[0] + 1,) + B[1:] + (m, n)),
                ("batch-one", (1,) + B[1:] + (m, n))]
    return [r for r in res if r is not None]


def diag_kinds(shape):
    *B, m, n = shape
    B = tuple(B)
    res = [("full", B + (n,)), ("vec", (n,)), ("one", (1,)), ("scalar0d", ()), ("batch-one", B + (1,)),
           ("bad-plus", (n + 1,)), ("bad-minus", (n - 1,)) if n > 2 else None, ("bad-extra-batch", (2,) + B + (n,)),
           ("bad-extra-batch-one", (2,) + B + (1,)), ("bad-matrix", (n, n)) if not B else None]
    if B:
        res += [("bad-batch-mismatch", (B[0] + 1,) + B[1:] + (n,)), ("bad-batch-mismatch-one", (B[0] + 1,) + B[1:] + (1,))]
    return [r for r in res if r is not None]


def expand_kinds(shape):
    *B, m, n = shape
    B = tuple(B)
    res = [("same", B + (m, n)), ("extra", (2,) + B + (m, n)), ("minus1", B + (-1, -1)), ("extra-minus1", (2,) + B + (-1, -1)),
           ("bad-matrix", B + (m + 1, n)), ("bad-matrix-cols", B + (m, n + 2)), ("bad-short", (n,)), ("bad-missing-batch", (m, n)) if B else None,
           ("bad-mixed-minus1", B + (-1, n)), ("bad-new-minus1", (-1,) + B + (m, n))]
    if B:
        res += [("bad-batch-shrink", (B[0] + 1,) + B[1:] + (m, n)), ("bad-batch-to-one", (1,) + B[1:] + (m, n)),
                ("batch-minus1", (-1,) + B[1:] + (m, n))]
    return [r for r in res if r is not None]


# --------------------------------------------------------------------------------------------------
# verdicts
# --------------------------------------------------------------------------------------------------
def verdict(f):
    try:
        r = f()
    except Exception as e:  # noqa
        return ("raise", type(e).__name__)
    if isinstance(r, tuple) and r and not isinstance(r, torch.Size):
        r = r[0]
    shp = tuple(r.shape)
    return ("ok", shp)


def ones(shape, rng=None):
    if rng is None:
        return torch.ones(tuple(shape), dtype=F64)
    return _ival(rng, tuple(shape), 1, 3)
