"""C01 — every operator acts exactly as the dense matrix it represents.

Part I  (implementation vs. specification): every catalogue instance (all classes, depth-2 nestings, generic
         depth+1 / depth+2 wrappers) x operator batch shapes x sizes x dtypes x right-hand-side kinds x observations,
         against torch on the INDEPENDENT dense definition (value and shape, torch.matmul broadcasting).
Part II (implementation vs. Lean model): the mirrored index-heavy code paths (Kronecker loop incl. per-factor
         intermediate states, block add/remove batch dim, batch-repeat column folding, cat, masked expand,
         permutations, interpolation gather/scatter/sparse, Toeplitz embedding, Mul over roots, added diag, root,
         chol, constant mul, base to_dense / rmatmul on a minimal user subclass) on exact integer data.
"""
import json
import random
import warnings
from fractions import Fraction

import torch

from .. import catalogue as cat
from ..common import fmt_mat

BATCHES = [(), (2,), (2, 3), (1,)]
PID = "C01"


# ----------------------------------------------------------------------------------------------- helpers
def _tol(dtype, scale):
    return (2e-4 if dtype == torch.float32 else 1e-9) * max(1.0, scale)


def _same(got, want, exact):
    """value AND shape"""
    if not torch.is_tensor(got) and hasattr(got, "to_dense") and hasattr(got, "_matmul"):
        got = got.to_dense()  # lazily represented result (e.g. ZeroLinearOperator @ tensor): compare what it denotes
    if not torch.is_tensor(got):
        return False, f"not a tensor: {type(got).__name__}"
    if tuple(got.shape) != tuple(want.shape):
        return False, f"shape {tuple(got.shape)} != {tuple(want.shape)}"
    w = want.to(got.dtype)
    if exact:
        ok = torch.equal(got, w)
    else:
        ok = torch.allclose(got, w, rtol=0, atol=_tol(got.dtype, float(w.abs().max()) if w.numel() else 1.0))
    if not ok:
        d = (got - w).abs().max().item() if got.numel() else 0.0
        return False, f"value differs (max abs diff {d:g})"
    return True, ""


def rhs_kinds(batch, rows):
    """(kind, shape) of right-hand sides for an operator with batch shape `batch` and `rows` columns."""
    b = tuple(batch)
    ks = [("vec", (rows,)), ("mat", (rows, 2)), ("col1", (rows, 1))]
    if b:
        ks.append(("same", (*b, rows, 2)))
        ks.append(("ones", (*([1] * len(b)), rows, 2)))
    ks.append(("extra", (4, *b, rows, 3)))
    if len(b) == 2:
        ks.append(("missing", (b[-1], rows, 2)))
        ks.append(("mixed", (b[0], 1, rows, 2)))
    if b and all(s == 1 for s in b):
        ks.append(("op1-rhs3", (*([3] * len(b)), rows, 2)))
    return ks


def lhs_kinds(batch, rows):
    """left operands for `x @ op` (rows = op.shape[-2])."""
    b = tuple(batch)
    ks = [("lvec", (rows,)), ("lmat", (2, rows))]
    if b:
        ks.append(("lsame", (*b, 2, rows)))
    ks.append(("lextra", (4, *b, 1, rows)))
    if b and all(s == 1 for s in b):
        ks.append(("op1-lhs3", (*([3] * len(b)), 2, rows)))
    return ks


def _rand(rng, shape, dtype):
    return cat.ri(rng, shape, -3, 3, dtype)


def _desc_batch(b):
    return "(" + ",".join(map(str, b)) + ")"


class Runner:
    def __init__(self, chk):
        self.chk = chk
        self.nfail = 0

    def cell(self, it, batch, n, dtype, obs, kind):
        dt = "f32" if dtype == torch.float32 else "f64"
        return f"C01/{it.name}[b={_desc_batch(batch)}|n={n}|{dt}]/{obs}/{kind}"

    def observe(self, cell, fn, want, exact, payload, nontrivial=True):
        chk = self.chk
        chk.case(cell + "#" + str(payload.get("vals", "")), nontrivial=nontrivial, sample=True)
        try:
            with warnings.catch_warnings():
                warnings.simplefilter("ignore")
                got = fn()
        except Exception as e:  # the property demands a value
            self.nfail += 1
            chk.violation(cell, f"raised {type(e).__name__}: {str(e)[:160]}", payload)
            return False
        if isinstance(want, torch.Tensor):
            ok, why = _same(got, want, exact)
        else:
            ok, why = (got == want), f"{got!r} != {want!r}"
        if not ok:
            self.nfail += 1
            chk.violation(cell, why, payload)
        return ok

    def run_instance(self, it, batch, n, dtype, rng, seedinfo, full=True):
        """All observations of one instance.  `seedinfo` is stored in replay payloads."""
        chk = self.chk
        D = it.dense
        if "f32only" in it.tags:
            D = D.to(torch.float32)
        xdt = D.dtype
        opb = tuple(D.shape[:-2])
        M, N = D.shape[-2:]
        exact = it.exact
        pay = dict(seedinfo, inst=it.name, batch=list(batch), n=n, dtype=str(dtype))
        nontriv = D.numel() > 1 and bool((D != 0).any())
        chk.count("class:" + it.name.split("[")[0].split("(")[0])
        chk.count("instances")

        def P(**kw):
            d = dict(pay)
            d.update(kw)
            return d

        def mk():
            with warnings.catch_warnings():
                warnings.simplefilter("ignore")
                return it.build()

        try:
            op = mk()
        except Exception as e:
            chk.case(self.cell(it, batch, n, dtype, "construct", "-"))
            chk.violation(self.cell(it, batch, n, dtype, "construct", "-"), f"constructor raised {type(e).__name__}: {e}"[:200], P())
            return
        # ---- shape observations
        c = lambda obs, kind="-": self.cell(it, batch, n, dtype, obs, kind)
        self.observe(c("shape"), lambda: tuple(op.shape), tuple(D.shape), True, P(), nontriv)
        self.observe(c("size()"), lambda: tuple(op.size()), tuple(D.shape), True, P(), nontriv)
        self.observe(c("size(-1)"), lambda: (op.size(-1), op.size(-2)), (N, M), True, P(), nontriv)
        self.observe(c("dim"), lambda: (op.dim(), op.ndimension()), (D.dim(), D.dim()), True, P(), nontriv)
        self.observe(c("batch_shape"), lambda: tuple(op.batch_shape), opb, True, P(), nontriv)
        self.observe(c("matrix_shape"), lambda: tuple(op.matrix_shape), (M, N), True, P(), nontriv)
        self.observe(c("numel"), lambda: op.numel(), D.numel(), True, P(), nontriv)
        # ---- densification
        self.observe(c("to_dense"), lambda: mk().to_dense(), D, exact, P(), nontriv)
        self.observe(c("mT.to_dense"), lambda: mk().mT.to_dense(), D.mT, exact, P(), nontriv)
        self.observe(c("mT.shape"), lambda: tuple(mk().mT.shape), tuple(D.mT.shape), True, P(), nontriv)
        from linear_operator.operators import LinearOperator
        if not it.name.startswith("Zero"):  # (ZeroLinearOperator.matmul returns a lazy zero operator; its own to_dense is checked above)
            self.observe(c("base.to_dense"), lambda: LinearOperator.to_dense(mk()), D, exact, P(), nontriv)
        if full:
            self.observe(c("transpose(-2,-1).to_dense"), lambda: mk().transpose(-2, -1).to_dense(), D.mT, exact, P(), nontriv)
            self.observe(c("mT.mT.to_dense"), lambda: mk().mT.mT.to_dense(), D, exact, P(), nontriv)
        # ---- right multiplication
        def mark(kind, shape, want, vec):
            """`^` marks right-hand sides whose own batch shape is smaller than the broadcast output batch shape"""
            ob = tuple(want.shape[:-1]) if vec else tuple(want.shape[:-2])
            xb = () if vec else tuple(shape[:-2])
            return kind + ("^" if ob != xb else "")

        for kind, shape in rhs_kinds(opb, N):
            x = _rand(rng, shape, xdt)
            want = torch.matmul(D, x)
            kind = mark(kind, shape, want, len(shape) == 1)
            p = P(kind=kind, vals=x.flatten().tolist(), xshape=list(shape))
            self.observe(c("op@x", kind), lambda: mk() @ x.clone(), want, exact, p, nontriv)
            if full or kind.rstrip("^") in ("vec", "same", "extra"):
                self.observe(c("matmul", kind), lambda: mk().matmul(x.clone()), want, exact, p, nontriv)
            if kind == "same" or (kind in ("mat", "col1") and not opb):
                self.observe(c("_matmul", kind), lambda: mk()._matmul(x.clone()), want, exact, p, nontriv)
            chk.count("rhs:" + kind)
        # ---- transpose multiplication
        for kind, shape in rhs_kinds(opb, M):
            if not full and kind not in ("vec", "mat", "same", "extra", "op1-rhs3"):
                continue
            y = _rand(rng, shape, xdt)
            want = torch.matmul(D.mT, y)
            kind0, kind = kind, mark(kind, shape, torch.matmul(D.mT, y), len(shape) == 1)
            p = P(kind=kind, vals=y.flatten().tolist(), xshape=list(shape))
            self.observe(c("mT@y", kind), lambda: mk().mT @ y.clone(), want, exact, p, nontriv)
            if kind0 == "same" or (kind0 == "mat" and not opb):
                self.observe(c("_t_matmul", kind), lambda: mk()._t_matmul(y.clone()), want, exact, p, nontriv)
        # ---- left multiplication (rmatmul)
        for kind, shape in lhs_kinds(opb, M):
            z = _rand(rng, shape, xdt)
            want = torch.matmul(z, D)
            kind = mark(kind, shape, want, len(shape) == 1)
            p = P(kind=kind, vals=z.flatten().tolist(), xshape=list(shape))
            self.observe(c("x@op", kind), lambda: z.clone() @ mk(), want, exact, p, nontriv)
            if full:
                self.observe(c("rmatmul", kind), lambda: mk().rmatmul(z.clone()), want, exact, p, nontriv)
            chk.count("lhs:" + kind)


# ----------------------------------------------------------------------------------------------- Part I
def instance_sets(rng, tier):
    """(dtype, batch, n) combinations; every class is visited in each."""
    combos = []
    if tier == "quick":
        for batch in BATCHES:
            combos.append((torch.float64, batch, 3))
        combos += [(torch.float64, (), 1), (torch.float64, (2,), 2), (torch.float64, (2, 3), 1), (torch.float64, (1,), 2),
                   (torch.float32, (), 2), (torch.float32, (2,), 3), (torch.float32, (2, 3), 2), (torch.float32, (1,), 1)]
    else:
        for dtype in (torch.float64, torch.float32):
            for batch in BATCHES + [(1, 2), (3, 1), (2, 2)]:
                for n in (1, 2, 3):
                    combos.append((dtype, batch, n))
    return combos


def all_instances(rng, dtype, batch, n):
    with warnings.catch_warnings():
        warnings.simplefilter("ignore")
        return cat.instances(rng, dtype, batch, n, depth=2, extra=True)


def part1(chk, run):
    tier = chk.tier
    for si, (dtype, batch, n) in enumerate(instance_sets(chk.rng, tier)):
        sub = random.Random(chk.rng.randrange(2 ** 31))
        seedinfo = {"set": si, "seed": chk.seed, "tier": tier}
        try:
            insts = all_instances(sub, dtype, batch, n)
        except Exception as e:
            chk.violation(f"C01/catalogue[b={_desc_batch(batch)}|n={n}]/construct", f"catalogue construction raised {type(e).__name__}: {e}"[:300], seedinfo)
            continue
        for it in insts:
            if "nobatch" in it.tags and batch:
                continue
            run.run_instance(it, batch, n, dtype, sub, seedinfo, full=True)
        # generic wrappers (depth + 1, and depth + 2 in thorough) on seed-chosen / all bases
        bases = [it for it in insts if not ("nobatch" in it.tags and batch) and "f32only" not in it.tags]
        if tier == "quick":
            picks = []
            for it in bases:
                kinds = WRAP_KINDS_ALL if it.name in ("Dense", "Dense[rect]") else sub.sample(WRAP_KINDS_ALL, 2 if n == 3 else 1)
                picks.append((it, kinds))
        else:
            picks = [(it, WRAP_KINDS_ALL if (n == 3 and dtype == torch.float64 and len(batch) <= 1) or it.name.startswith("Dense")
                      else sub.sample(WRAP_KINDS_ALL, 3)) for it in bases]
        for it, kinds in picks:
            with warnings.catch_warnings():
                warnings.simplefilter("ignore")
                ws = cat.wrap(sub, it, dtype, kinds=set(kinds))
            for w in ws:
                if isinstance(w, tuple):
                    ctor_error(chk, w, batch, n, seedinfo)
                    continue
                chk.count("wrapper:" + w.name.split("(")[0])
                run.run_instance(w, batch, n, dtype, sub, seedinfo, full=False)
                if tier == "thorough" and n == 3 and dtype == torch.float64 and sub.random() < 0.15:
                    with warnings.catch_warnings():
                        warnings.simplefilter("ignore")
                        ws2 = cat.wrap(sub, w, dtype, kinds=set(sub.sample(WRAP_KINDS_ALL, 2)))
                    for w2 in ws2:
                        if isinstance(w2, tuple):
                            ctor_error(chk, w2, batch, n, seedinfo)
                            continue
                        chk.count("depth3")
                        run.run_instance(w2, batch, n, dtype, sub, seedinfo, full=False)
    # D02: Triangular(Diag) cannot be constructed
    cell = "C01/Triangular(Diag)[b=()|n=3]/construct/-"
    chk.case(cell)
    try:
        from linear_operator.operators import DiagLinearOperator, TriangularLinearOperator
        d = torch.tensor([1.0, 2.0, 3.0])
        t = TriangularLinearOperator(DiagLinearOperator(d))
        ok, why = _same(t.to_dense(), torch.diag_embed(d), True)
        if not ok:
            chk.violation(cell, why, {})
    except Exception as e:
        chk.violation(cell, f"constructor raised {type(e).__name__}: {e}"[:200], {})


REFUSALS = ("Trying to lazily add two DiagLinearOperators", "BatchRepeatLinearOperator received the following args")


def ctor_error(chk, w, batch, n, seedinfo):
    """A wrapper constructor raised: documented refusals are counted, anything else is a violation."""
    if any(r in w[2] for r in REFUSALS):
        chk.count("ctor-refused:" + w[1].split("(")[0])
        return
    cell = f"C01/{w[1]}[b={_desc_batch(batch)}|n={n}]/construct/-"
    chk.case(cell)
    chk.violation(cell, "constructor raised " + w[2], dict(seedinfo, inst=w[1]))


WRAP_KINDS_ALL = ["ConstantMul", "Sum", "SumRev", "MatmulL", "MatmulR", "Masked", "BatchRepeat", "Interpolated", "CatRows", "CatCols",
                  "AddedDiag", "KroneckerL", "KroneckerR", "Root", "Transpose", "BlockDiag", "BlockInterleaved", "SumBatch"]


def run(chk):
    torch.set_num_threads(2)
    chk.rule = ("catalogue cells = operator instance (every class, depth-2 nestings, generic depth+1/+2 wrappers) x operator batch "
                "{(),(2,),(2,3),(1,),...} x size {1,2,3,+rect} x dtype {f32,f64} x rhs kind {1-D, (n,c), (n,1), same batch, size-1 batch, "
                "extra batch, missing batch, op batch 1 vs rhs 3} x observation {@, matmul, _matmul, x@op, rmatmul, mT@, _t_matmul, "
                "to_dense, base to_dense, mT.to_dense, shape/size/dim/batch_shape/matrix_shape/numel}; Part IV: every instance with 3 batch dims of "
                "pairwise different sizes + Cat along every batch position + multi-dim BatchRepeat, x batch transformation {permute (all, incl. cyclic), "
                "transpose, unsqueeze, expand, batch index, sum, repeat, Block*/SumBatch with every block_dim, 18 wrappers, 2-step compositions}; "
                "values seed-random small integers "
                "(exact), Toeplitz-containing instances toleranced; distinct = distinct (cell, values); non-trivial = dense not 1x1 / all-zero")
    chk.assumptions += ["FFT implements circular convolution (Toeplitz)", "torch.matmul / sparse dsmm on integer-valued floats are exact",
                        "covar_func of kernel operators is a pure function"]
    chk.prove("LinOp.Properties.C01", ["LinOp/C01", "LinOp/Core/Basic.lean", "LinOp/Core/Parse.lean", "LinOp/Core/Bridge.lean"])
    run_ = Runner(chk)
    part1(chk, run_)
    from . import c01_batch
    c01_batch.part4(chk, run_)
    from . import c01_corr
    c01_corr.part2(chk)
    c01_corr.part3(chk)


def replay(chk, payload):
    """Re-run the instance set the failing cell came from and report the cell again if it still fails."""
    pl = payload.get("payload") or {}
    cell = payload.get("cell", "")
    if cell.startswith("C01/corr/"):
        from . import c01_corr
        chk.tier = pl.get("tier", chk.tier) if isinstance(pl, dict) else chk.tier
        c01_corr.part2(chk)
        c01_corr.part3(chk)
        return
    chk.tier = pl.get("tier", chk.tier)
    chk.seed = pl.get("seed", chk.seed)
    chk.rng = random.Random(f"{PID}:{chk.seed}")
    run_ = Runner(chk)
    if pl.get("part") == "batch":  # Part IV draws from its own generator (seed, tier)
        from . import c01_batch
        c01_batch.part4(chk, run_)
    else:
        part1(chk, run_)
    chk.violations = [v for v in chk.violations if v[0] == cell]
