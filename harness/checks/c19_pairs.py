"""C19 operator-operator pairs: both operands are structured LinearOperators whose STRUCTURAL parameters
(block count, block size, factor sizes, diagonal length, batch shape, root rank) differ.  Every class with an
operator-operator shortcut (BlockDiag @ BlockDiag, Diag @ Diag, Diag @ Triangular, Diag @ BlockDiag, ConstantDiag @ ConstantDiag,
Kronecker + KroneckerDiag / Kronecker, Triangular + Triangular, Dense + Dense, Sum + Sum, Zero / Identity with anything, ...)
works on the INTERNAL tensors of the two operands; torch broadcasting of those internals accepts size-1 dimensions that
the dense product / sum refuses.  The sweep enumerates ordered pairs of the same family over a pool of structural
parameters (including every size-1 case) and pairs across the families that dispatch on each other, and compares
`A @ B`, `torch.matmul(A, B)`, `A + B`, `A - B`, `A * B` with torch on the dense matrices (verdict AND, when both accept,
values: the data are small integers, the operations ring expressions, hence exact)."""
import torch

F64 = torch.float64


def _ival(rng, shape, lo=1, hi=3):
    n = 1
    for s in shape:
        n *= s
    return torch.tensor([float(rng.randint(lo, hi)) for _ in range(n)], dtype=F64).reshape(shape)


def _t(shape):
    return "x".join(str(int(s)) for s in shape) if len(shape) else "-"


# (batch, n) pools: unbatched sizes 1, 3, 4; batch (2,), (1,), (3,) of size 3; a batch of 1x1; two batch dims
BN = [((), 1), ((), 3), ((), 4), ((2,), 3), ((1,), 3), ((3,), 3), ((2,), 1), ((2, 1), 3), ((1, 2), 3)]
BN_SMALL = [((), 1), ((), 3), ((), 4), ((2,), 3), ((3,), 3), ((2,), 1)]
BN_TINY = [((), 1), ((), 3), ((), 4), ((2,), 3)]
RECT = [((), 3, 3), ((), 3, 2), ((), 2, 3), ((), 1, 1), ((), 1, 3), ((), 3, 1), ((2,), 3, 3), ((1,), 3, 3), ((3,), 3, 3), ((2,), 1, 1)]
RECT_SMALL = [((), 3, 3), ((), 3, 2), ((), 1, 1), ((), 1, 3), ((2,), 3, 3), ((3,), 3, 3)]
# BlockDiag / BlockInterleaved base shapes (*batch, blocks, k, k'):
BLOCK_BASES = [(1, 3, 3), (2, 3, 3), (3, 3, 3), (2, 2, 2), (3, 2, 2), (1, 6, 6), (6, 1, 1), (1, 1, 1),
               (2, 1, 3, 3), (2, 2, 3, 3), (1, 2, 3, 3), (1, 1, 3, 3), (3, 2, 3, 3), (3, 1, 3, 3)]
BLOCK_BASES_SMALL = [(1, 3, 3), (2, 3, 3), (3, 2, 2), (2, 1, 3, 3), (2, 2, 3, 3), (1, 1, 1)]
# Kronecker factor sizes (batch, [square factor sizes])
KRON = [((), (2, 2)), ((), (2, 3)), ((), (3, 2)), ((), (4, 1)), ((), (1, 4)), ((), (1, 1)), ((), (2, 2, 1)), ((), (1, 3)), ((), (3, 1)),
        ((), (2, 1)), ((2,), (2, 2)), ((1,), (2, 2)), ((3,), (2, 2)), ((2,), (1, 1)), ((2,), (4, 1))]
KRON_SMALL = [((), (2, 2)), ((), (4, 1)), ((), (1, 1)), ((), (2, 3)), ((2,), (2, 2)), ((3,), (2, 2))]


def pool(rng, tier="quick"):
    """-> list of (family, params-tag, operator, small?)  `small` entries also take part in the cross-family pairs."""
    import linear_operator.operators as O
    out = []

    def add(fam, tag, f, small):
        try:
            out.append((fam, tag, f(), small))
        except Exception as e:
            out.append((fam, tag, e, small))

    def psd(b, n):
        a = _ival(rng, b + (n, n), 0, 1)
        return a + a.transpose(-1, -2) + torch.eye(n, dtype=F64) * (2 * n + 3)

    def low(b, n):
        return _ival(rng, b + (n, n), 1, 2).tril()

    def toep(b, n):
        return O.ToeplitzLinearOperator(torch.cat([_ival(rng, b + (1,)) + 2 * n, _ival(rng, b + (n - 1,), 0, 1)], -1))

    for b, n in BN:
        sm = (b, n) in BN_SMALL
        tg = f"b={_t(b)};n={n}"
        add("Diag", tg, lambda: O.DiagLinearOperator(_ival(rng, b + (n,))), sm)
        add("ConstantDiag", tg, lambda: O.ConstantDiagLinearOperator(_ival(rng, b + (1,)), diag_shape=n), sm)
        add("Identity", tg, lambda: O.IdentityLinearOperator(n, batch_shape=torch.Size(b), dtype=F64), sm)
        add("Triangular", tg, lambda: O.TriangularLinearOperator(low(b, n)), sm)
        add("Toeplitz", tg, lambda: toep(b, n), sm)
        add("AddedDiag", tg, lambda: O.AddedDiagLinearOperator(O.DenseLinearOperator(psd(b, n)), O.DiagLinearOperator(_ival(rng, b + (n,)))), sm)
        add("Sum", tg, lambda: O.SumLinearOperator(O.DenseLinearOperator(psd(b, n)), toep(b, n)), sm)
        tiny = (b, n) in BN_TINY
        add("Chol", tg, lambda: O.CholLinearOperator(O.TriangularLinearOperator(low(b, n))), tiny)
        add("ConstantMul", tg, lambda: O.ConstantMulLinearOperator(O.DenseLinearOperator(psd(b, n)), torch.full(b, 2.0, dtype=F64)), tiny)
        add("PsdSum", tg, lambda: O.PsdSumLinearOperator(O.DenseLinearOperator(psd(b, n)), O.RootLinearOperator(_ival(rng, b + (n, 2)))), tiny)
        add("LowRankRootAddedDiag", tg, lambda: O.LowRankRootAddedDiagLinearOperator(
            O.LowRankRootLinearOperator(_ival(rng, b + (n, 2))), O.DiagLinearOperator(_ival(rng, b + (n,)))), sm)
    add("Triangular", "b=-;n=3;upper", lambda: O.TriangularLinearOperator(low((), 3).transpose(-1, -2), upper=True), True)
    add("Triangular", "b=2;n=3;upper", lambda: O.TriangularLinearOperator(low((2,), 3).transpose(-1, -2), upper=True), False)
    for b, m, n in RECT:
        sm = (b, m, n) in RECT_SMALL
        tg = f"b={_t(b)};m={m};n={n}"
        add("Dense", tg, lambda: O.DenseLinearOperator(_ival(rng, b + (m, n))), sm)
        add("Zero", tg, lambda: O.ZeroLinearOperator(*b, m, n, dtype=F64), sm)
        add("Matmul", tg, lambda: O.MatmulLinearOperator(O.DenseLinearOperator(_ival(rng, b + (m, 2))), O.DenseLinearOperator(_ival(rng, b + (2, n)))), sm)
    for b, n, r in [((), 3, 2), ((), 3, 1), ((), 4, 2), ((), 1, 1), ((), 1, 2), ((2,), 3, 2), ((1,), 3, 2), ((3,), 3, 2), ((2,), 1, 1)]:
        tg = f"b={_t(b)};n={n};r={r}"
        sm = (b, n, r) in [((), 3, 2), ((), 4, 2), ((), 1, 1), ((2,), 3, 2), ((3,), 3, 2)]
        add("Root", tg, lambda: O.RootLinearOperator(_ival(rng, b + (n, r))), sm)
        add("LowRankRoot", tg, lambda: O.LowRankRootLinearOperator(_ival(rng, b + (n, r))), sm)
    for base in BLOCK_BASES:
        sm = base in BLOCK_BASES_SMALL
        tg = "base=" + _t(base)
        add("BlockDiag", tg, lambda: O.BlockDiagLinearOperator(O.DenseLinearOperator(_ival(rng, base))), sm)
        if base[-1] == base[-2]:
            add("BlockInterleaved", tg, lambda: O.BlockInterleavedLinearOperator(O.DenseLinearOperator(_ival(rng, base))),
                base in [(1, 3, 3), (2, 3, 3), (2, 1, 3, 3), (1, 1, 1)])
    # block operators over structured bases, and a non-default block dimension
    # (BlockDiag over a DiagLinearOperator base IS a DiagLinearOperator: the 6x6 diagonal partner of the 2-block 3x3 operators)
    add("Diag", "b=-;n=6", lambda: O.DiagLinearOperator(_ival(rng, (6,))), True)
    add("ConstantDiag", "b=-;n=6", lambda: O.ConstantDiagLinearOperator(_ival(rng, (1,)), diag_shape=6), True)
    add("BlockDiag", "base=Tri:2x3x3", lambda: O.BlockDiagLinearOperator(O.TriangularLinearOperator(low((2,), 3))), False)
    add("BlockDiag", "base=Tri:1x3x3", lambda: O.BlockDiagLinearOperator(O.TriangularLinearOperator(low((1,), 3))), False)
    add("BlockDiag", "base=2x3x3;block_dim=0of4:1x2x3x3", lambda: O.BlockDiagLinearOperator(O.DenseLinearOperator(_ival(rng, (1, 2, 3, 3))), block_dim=0), False)
    add("BlockDiag", "base=2x3x3;block_dim=0of4:2x1x3x3", lambda: O.BlockDiagLinearOperator(O.DenseLinearOperator(_ival(rng, (2, 1, 3, 3))), block_dim=0), False)
    for b, fs in KRON:
        sm = (b, fs) in KRON_SMALL
        tg = f"b={_t(b)};f={_t(fs)}"
        add("Kronecker", tg, lambda: O.KroneckerProductLinearOperator(*[O.DenseLinearOperator(psd(b, f)) for f in fs]), sm)
        add("KroneckerDiag", tg, lambda: O.KroneckerProductDiagLinearOperator(*[O.DiagLinearOperator(_ival(rng, b + (f,))) for f in fs]), sm)
        tiny = (b, fs) in [((), (2, 2)), ((), (4, 1)), ((), (1, 1)), ((2,), (2, 2))]
        add("KroneckerTriangular", tg, lambda: O.KroneckerProductTriangularLinearOperator(*[O.TriangularLinearOperator(low(b, f)) for f in fs]), tiny)
        if len(fs) == 2:
            add("KroneckerAddedDiag", tg, lambda: O.KroneckerProductAddedDiagLinearOperator(
                O.KroneckerProductLinearOperator(*[O.DenseLinearOperator(psd(b, f)) for f in fs]),
                O.ConstantDiagLinearOperator(_ival(rng, b + (1,)), diag_shape=fs[0] * fs[1])), sm and fs != (2, 3))
            add("SumKronecker", tg, lambda: O.SumKroneckerLinearOperator(
                O.KroneckerProductLinearOperator(*[O.DenseLinearOperator(psd(b, f)) for f in fs]),
                O.KroneckerProductLinearOperator(*[O.DenseLinearOperator(psd(b, f)) for f in fs])), tiny)
    add("Kronecker", "b=-;rect=2x1,2x3", lambda: O.KroneckerProductLinearOperator(O.DenseLinearOperator(_ival(rng, (2, 1))), O.DenseLinearOperator(_ival(rng, (2, 3)))), True)
    add("Kronecker", "b=-;rect=1x2,3x2", lambda: O.KroneckerProductLinearOperator(O.DenseLinearOperator(_ival(rng, (1, 2))), O.DenseLinearOperator(_ival(rng, (3, 2)))), True)
    for b, n in [((), 3), ((), 4), ((2,), 3), ((3,), 3)]:
        tg = f"b={_t(b)};n={n}"

        def interp(b=b, n=n):
            base = O.DenseLinearOperator(psd(b, n + 1))
            idx = torch.tensor([[i, i + 1] for i in range(n)], dtype=torch.long).expand(b + (n, 2)).contiguous()
            val = torch.ones(b + (n, 2), dtype=F64)
            return O.InterpolatedLinearOperator(base, idx, val, idx.clone(), val.clone())
        t3 = (b, n) != ((3,), 3)
        add("Interpolated", tg, interp, True)
        add("Mul", tg, lambda: O.MulLinearOperator(O.RootLinearOperator(_ival(rng, b + (n, 2), 1, 2)), O.RootLinearOperator(_ival(rng, b + (n, 2), 1, 2))), t3)
        add("SumBatch", tg, lambda: O.SumBatchLinearOperator(O.DenseLinearOperator(psd(b + (2,), n))), t3)
        add("BatchRepeat", tg, lambda: O.BatchRepeatLinearOperator(O.DenseLinearOperator(psd(tuple(1 for _ in b), n)), batch_repeat=torch.Size(b if b else (1,))), t3)
        add("CatRows", tg, lambda: O.CatLinearOperator(O.DenseLinearOperator(_ival(rng, b + (1, n))), O.DenseLinearOperator(_ival(rng, b + (n - 1, n))), dim=-2), t3)
        add("Masked", tg, lambda: O.MaskedLinearOperator(O.DenseLinearOperator(psd(b, n + 1)), torch.tensor([True] * n + [False]), torch.tensor([True] * n + [False])), t3)
    return out


OPS = ["matmul", "tmatmul", "add", "sub", "mul"]
# families whose methods dispatch on the class of the other operand (cross-family pairs are swept between these)
CROSS = ["Diag", "ConstantDiag", "Identity", "Zero", "Dense", "Triangular", "BlockDiag", "Kronecker", "KroneckerDiag", "AddedDiag",
         "Sum", "Root", "LowRankRoot", "LowRankRootAddedDiag", "KroneckerAddedDiag", "Interpolated", "Matmul", "Toeplitz"]


def relation(op, sa, sb):
    """input kind of the pair, from the two dense shapes only (seed independent): what torch says and why"""
    A, (m, n) = tuple(sa[:-2]), tuple(sa[-2:])
    B, (k, p) = tuple(sb[:-2]), tuple(sb[-2:])
    try:
        bb = tuple(torch.broadcast_shapes(A, B))
        batch = "same" if A == B else ("bcast1" if 1 in (A + B) and len(A) == len(B) else "bcast")
    except RuntimeError:
        bb = None
        batch = "batchX"
    if op in ("matmul", "tmatmul"):
        inner = "ok" if n == k else ("inner1" if 1 in (n, k) else "innerX")
    else:
        if (m, n) == (k, p):
            inner = "ok"
        elif all(x == y or 1 in (x, y) for x, y in ((m, k), (n, p))):
            inner = "ew1"     # torch broadcasts a size-1 matrix dimension: valid for torch, the result has the larger shape
        else:
            inner = "ewX"
    return f"{inner}-{batch}"


def plan(pl, tier):
    """-> list of (i, j, [(op, debug), ...]).  Same family: full cross product of the pool, every op (debug on; off for
    matmul and add).  Different families: the `small` members; add / sub for EVERY ordered pair of families (mismatched matrix
    sizes in both orders, size 1 included), matmul / torch.matmul / mul between the families that dispatch on each other
    (thorough: between all)."""
    same = [(op, True) for op in OPS] + [("matmul", False), ("add", False)]
    cross_all = [(op, True) for op in OPS]
    cross_addsub = [("add", True), ("sub", True)]
    out = []
    for i, (fa, ta, a, sa) in enumerate(pl):
        for j, (fb, tb, b, sb) in enumerate(pl):
            if isinstance(a, Exception) or isinstance(b, Exception):
                continue
            if fa == fb:
                out.append((i, j, same))
            elif sa and sb:
                out.append((i, j, cross_all if (tier != "quick" or (fa in CROSS and fb in CROSS)) else cross_addsub))
    return out


def verdict(f):
    try:
        r = f()
        shp = tuple(r.shape)
        d = r if torch.is_tensor(r) else r.to_dense()
        if tuple(d.shape) != shp:
            return ("ok", ("inconsistent", shp, tuple(d.shape))), None
        return ("ok", shp), d
    except Exception as e:  # noqa
        return ("raise", type(e).__name__), None


def run_pair(a, b, DA, DB, op, debug=True):
    from linear_operator import settings
    if op == "matmul":
        f, g = (lambda: a @ b), (lambda: DA @ DB)
    elif op == "tmatmul":
        f, g = (lambda: torch.matmul(a, b)), (lambda: torch.matmul(DA, DB))
    elif op == "add":
        f, g = (lambda: a + b), (lambda: DA + DB)
    elif op == "sub":
        f, g = (lambda: a - b), (lambda: DA - DB)
    elif op == "mul":
        f, g = (lambda: a * b), (lambda: DA * DB)
    else:
        raise KeyError(op)
    with settings.debug(debug):
        iv, ival = verdict(f)
    tv, tval = verdict(g)
    veq = None
    if iv[0] == "ok" and tv[0] == "ok" and tuple(iv[1]) == tuple(tv[1]):
        veq = bool(torch.allclose(ival.to(F64), tval.to(F64), rtol=1e-8, atol=1e-6))
    return iv, tv, veq
