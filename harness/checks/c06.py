"""C06 — every factorization returned really factorizes the operator.

Implementation side: every PSD catalogue instance (+ own instances reaching the class-specific overrides) ×
batch × {cholesky lower/upper, root_decomposition(method), root_inv_decomposition(method), eigh, eigvalsh,
diagonalization(method), svd, torch.linalg.*} × settings grid: reconstruct and compare with the independent
dense matrix (resp. its inverse).  Model side (Lean driver): which primitives run (verbose_linalg log) and the
class of the result for base-class and Kronecker operators, `_choose_root_method` over all cache/setting
combinations, exact Kronecker-triangular factors, base `_svd` on exact data, the D13 spectra.
"""
import json
import logging
import math
import os
import random
import warnings
from fractions import Fraction

import torch

from .. import catalogue as C
from ..common import fmt_list, fmt_mat, fmt_rat
from ..extract import c06_factor

ROOT_METHODS = [None, "cholesky", "symeig", "svd", "lanczos", "pivoted_cholesky", "diagonalization"]
RINV_METHODS = [None, "cholesky", "symeig", "svd", "lanczos", "pinverse", "diagonalization"]
DIAG_METHODS = [None, "symeig", "lanczos"]
DEFAULT_MCS = 800


# ------------------------------------------------------------------------------------------- logging
class _Grab(logging.Handler):
    def __init__(self):
        super().__init__()
        self.msgs = []

    def emit(self, r):
        self.msgs.append(r.getMessage())


_GRAB = _Grab()


def _tok(msg):
    import re
    m = re.match(r"Running Cholesky on a matrix of size torch.Size\(\[(.*)\]\)", msg)
    if m:
        return "chol:" + m.group(1).split(",")[-1].strip()
    m = re.match(r"Running symeig on a matrix of size torch.Size\(\[(.*)\]\)", msg)
    if m:
        return "symeig:" + m.group(1).split(",")[-1].strip()
    m = re.match(r"Running Lanczos on a torch.Size\(\[(.*?)\]\) matrix with a .* RHS for (\d+) iterations", msg)
    if m:
        return "lanczos:" + m.group(1).split(",")[-1].strip() + ":" + m.group(2)
    m = re.match(r"Running Pivoted Cholesky on a torch.Size\(\[(.*?)\]\) RHS for (\d+) iterations", msg)
    if m:
        return "pivchol:" + m.group(1).split(",")[-1].strip() + ":" + m.group(2)
    return "other:" + msg[:40].replace(" ", "_")


class Env:
    """Settings context for one evaluation; collects the verbose_linalg log."""

    def __init__(self, mcs, mrds, fast, seed):
        self.mcs, self.mrds, self.fast, self.seed = mcs, mrds, fast, seed

    def __enter__(self):
        from linear_operator import settings
        self.ctx = [settings.max_cholesky_size(self.mcs), settings.max_root_decomposition_size(self.mrds),
                    settings.fast_computations(covar_root_decomposition=self.fast), settings.verbose_linalg(True)]
        lg = settings.verbose_linalg.logger
        self.lg, self.old_level, self.old_prop, self.old_handlers = lg, lg.level, lg.propagate, list(lg.handlers)
        for h in list(lg.handlers):
            lg.removeHandler(h)
        lg.addHandler(_GRAB)
        lg.setLevel(logging.DEBUG)
        lg.propagate = False
        _GRAB.msgs = []
        for c in self.ctx:
            c.__enter__()
        torch.manual_seed(self.seed)
        self.w = warnings.catch_warnings()
        self.w.__enter__()
        warnings.simplefilter("ignore")
        return self

    def __exit__(self, *a):
        self.w.__exit__(*a)
        for c in reversed(self.ctx):
            c.__exit__(None, None, None)
        self.lg.removeHandler(_GRAB)
        for h in self.old_handlers:
            self.lg.addHandler(h)
        self.lg.setLevel(self.old_level)
        self.lg.propagate = self.old_prop
        self.log = [_tok(m) for m in _GRAB.msgs]
        return False


# ------------------------------------------------------------------------------------------- instances
def _gap_ok(mat, thr=0.012, pd=True):
    """Every batch member symmetric with relatively separated eigenvalues (and PD with bounded condition)."""
    if mat.shape[-1] != mat.shape[-2] or mat.shape[-1] == 1:
        return True
    m = mat.double()
    if not torch.allclose(m, m.mT):
        return True  # not a symmetric factor (e.g. a root): no Lanczos is run on it
    ev = torch.linalg.eigvalsh(m)
    top = ev.abs().max(-1)[0].clamp_min(1e-300)
    gap = ((ev[..., 1:] - ev[..., :-1]).min(-1)[0] / top).min()
    if float(gap) < thr:
        return False
    if pd and float((ev[..., 0] / top).min()) < 0.01:
        return False
    return True


def _sub_ops(op, acc=None, depth=0):
    from linear_operator.operators import LinearOperator
    acc = [] if acc is None else acc
    acc.append(op)
    if depth < 4:
        for a in list(op._args) + list(getattr(op, "_kwargs", {}).values()):
            if isinstance(a, LinearOperator):
                _sub_ops(a, acc, depth + 1)
    return acc


NOLANCZOS = {"ConstantDiag", "Identity", "KroneckerDiag", "Diag"}


def robust(it):
    """The instance and every symmetric square sub-operator a Lanczos run could be started on have separated spectra."""
    from linear_operator.operators import DiagLinearOperator, IdentityLinearOperator, TriangularLinearOperator
    singular = "psd-singular" in it.tags
    if "pivonly" in it.tags:
        return True
    if it.name in NOLANCZOS:
        it.tags.add("nolanczos")     # diagonal operators: repeated eigenvalues allowed, Lanczos-on-the-whole ops are skipped
        return True
    if not _gap_ok(it.dense, pd=not singular):
        return False
    if singular:
        ev = torch.linalg.eigvalsh(it.dense.double())
        # exactly one structural zero allowed, the rest well away from zero
        if float((ev[..., 1] / ev[..., -1]).min()) < 0.02:
            return False
    try:
        for s in _sub_ops(it.build())[1:]:
            if isinstance(s, (DiagLinearOperator, IdentityLinearOperator, TriangularLinearOperator)):
                continue
            if s.shape[-1] != s.shape[-2] or s.shape[-1] == 1:
                continue
            if not _gap_ok(s.to_dense(), pd=False):
                return False
    except Exception:
        return True
    return True


def _retry_pd(gen, tries=60):
    """Call gen() until the dense matrix it returns (first component) has a separated, well-conditioned spectrum."""
    last = None
    for _ in range(tries):
        last = gen()
        if _gap_ok(last[0], thr=0.02):
            return last
    return last


def approx_diag_instances(rng, dtype, batch, n):
    """PD operators whose `_approx_diagonal()` differs from the exact diagonal: InterpolatedLinearOperator with two
    non-zero weights per row (W bidiagonal in a permuted column order, so W has full row rank and W B Wᵀ is PD) over
    a base with non-zero off-diagonal entries, and ConstantMul / Sum / AddedDiag wrappers of it.  Tag `approxdiag`."""
    from linear_operator.operators import (
        AddedDiagLinearOperator, ConstantMulLinearOperator, DenseLinearOperator, DiagLinearOperator,
        InterpolatedLinearOperator, SumLinearOperator, ToeplitzLinearOperator,
    )
    batch = tuple(batch)
    nb = n + 1
    out = []

    def gen(base_kind):
        perm = rng.sample(range(nb), nb)
        idx = torch.tensor([[perm[i], perm[i + 1]] for i in range(n)]).expand(*batch, n, 2).contiguous()
        val = C.ri(rng, (*batch, n, 2), 1, 2, dtype)
        if base_kind == "Dense":
            raw = C.psd_int(rng, batch, nb, dtype)
            B = raw
        else:
            raw = C.toeplitz_col(rng, (*batch, nb), dtype)
            raw[..., 1] = raw[..., 1].clamp_min(1.0)       # non-zero first off-diagonal
            B = C.toeplitz_dense(raw)
        W = C.interp_matrix(idx, val, nb)
        A = W @ B @ W.mT
        # the approximate diagonal (W √diag B)² must differ from the exact one in every batch member
        apx = (W @ torch.diagonal(B, dim1=-1, dim2=-2).sqrt().unsqueeze(-1)).squeeze(-1) ** 2
        ex = torch.diagonal(A, dim1=-1, dim2=-2)
        differs = bool((((apx - ex).abs() / ex).max(-1)[0] > 0.05).all())
        ok_mat = A if differs else torch.eye(n, dtype=dtype)   # identity fails the gap test => regenerate
        return ok_mat, A, raw, idx, val

    for base_kind in ("Dense", "Toeplitz"):
        _, A, raw, idx, val = _retry_pd(lambda bk=base_kind: gen(bk))
        sfx = "" if base_kind == "Dense" else "(Toeplitz)"

        def mk_i(c, raw=raw, idx=idx, val=val, A=A, base_kind=base_kind):
            s, t = c(raw), c(val)
            b = DenseLinearOperator(s) if base_kind == "Dense" else ToeplitzLinearOperator(s)
            return InterpolatedLinearOperator(b, idx.clone(), t, idx.clone(), t.clone()), A, [s, t]
        kc = C.ri(rng, batch, 2, 3, dtype)
        E = C.psd_int(rng, batch, n, dtype)
        dd = C.ri(rng, (*batch, n), 1, 3, dtype)

        def mk_cm(c, mk_i=mk_i, kc=kc):
            o, a, ts = mk_i(c)
            k = c(kc)
            return ConstantMulLinearOperator(o, k), a * kc.unsqueeze(-1).unsqueeze(-1), ts + [k]

        def mk_sum(c, mk_i=mk_i, E=E):
            o, a, ts = mk_i(c)
            e = c(E)
            return SumLinearOperator(o, DenseLinearOperator(e)), a + E, ts + [e]

        def mk_sumrev(c, mk_i=mk_i, E=E):
            o, a, ts = mk_i(c)
            e = c(E)
            return SumLinearOperator(DenseLinearOperator(e), o), a + E, ts + [e]

        def mk_cmsum(c, mk_sum=mk_sum, kc=kc):
            o, a, ts = mk_sum(c)
            k = c(kc)
            return ConstantMulLinearOperator(o, k), a * kc.unsqueeze(-1).unsqueeze(-1), ts + [k]

        def mk_sumcm(c, mk_cm=mk_cm, E=E):
            o, a, ts = mk_cm(c)
            e = c(E)
            return SumLinearOperator(o, DenseLinearOperator(e)), a + E, ts + [e]

        def mk_ad(c, mk_i=mk_i, dd=dd):
            o, a, ts = mk_i(c)
            d = c(dd)
            return AddedDiagLinearOperator(o, DiagLinearOperator(d)), a + torch.diag_embed(dd), ts + [d]
        makers = [(f"Interpolated[pd]{sfx}", mk_i), (f"ConstantMul(Interpolated[pd]{sfx})", mk_cm),
                  (f"Sum(Interpolated[pd]{sfx},Dense)", mk_sum)]
        if base_kind == "Dense":
            makers += [("Sum(Dense,Interpolated[pd])", mk_sumrev), ("ConstantMul(Sum(Interpolated[pd],Dense))", mk_cmsum),
                       ("Sum(ConstantMul(Interpolated[pd]),Dense)", mk_sumcm), ("AddedDiag(Interpolated[pd],Diag)", mk_ad)]
        for nm, mk in makers:
            it = C.Inst(nm, mk, psd=True)
            it.tags.add("approxdiag")
            out.append(it)
    return out


def pd_variants(rng, dtype, batch, n):
    """Positive definite instances of the classes the shared catalogue only has as singular PSD (where only the direct
    methods can be asked): every explicitly selectable `method=` is exercised on them too."""
    from linear_operator.operators import (
        DenseLinearOperator, KernelLinearOperator, LowRankRootLinearOperator, MaskedLinearOperator, MatmulLinearOperator,
        MulLinearOperator, PsdSumLinearOperator, RootLinearOperator, ToeplitzLinearOperator,
    )
    batch = tuple(batch)
    out = []

    def full_root():
        R = torch.tril(C.ri(rng, (*batch, n, n), -2, 2, dtype), -1) + torch.diag_embed(C.ri(rng, (*batch, n), 1, 3, dtype))
        P = torch.eye(n, dtype=dtype)[rng.sample(range(n), n)]
        R = R @ P                                   # non-singular, not triangular
        return R @ R.mT, R
    _, R1 = _retry_pd(full_root)
    out.append(C.Inst("Root[full]", lambda c, R=R1: (lambda t: (RootLinearOperator(t), R @ R.mT, [t]))(c(R)), psd=True))
    out.append(C.Inst("LowRankRoot[full]", lambda c, R=R1: (lambda t: (LowRankRootLinearOperator(t), R @ R.mT, [t]))(c(R)), psd=True))
    out.append(C.Inst("Kernel[pd]", lambda c, x=R1: (lambda t: (KernelLinearOperator(t, t, C.poly_kernel), x @ x.mT, [t]))(c(x)), psd=True))
    out.append(C.Inst("Matmul[pd]", lambda c, R=R1: (lambda s, t: (MatmulLinearOperator(DenseLinearOperator(s), DenseLinearOperator(t)), R @ R.mT, [s, t]))(c(R), c(R.mT.contiguous())), psd=True))

    def had():
        a, b = C.psd_int(rng, batch, n, dtype), C.psd_int(rng, batch, n, dtype)
        return a * b, a, b
    _, Ha, Hb = _retry_pd(had)
    it = C.Inst("Mul[pd]", lambda c, a=Ha, b=Hb: (lambda s, t: (MulLinearOperator(DenseLinearOperator(s), DenseLinearOperator(t)), a * b, [s, t]))(c(a), c(b)), psd=True)
    # a MulLinearOperator *is* the product of its factors' root decompositions: it equals the dense Hadamard product only
    # when those roots are exact (factors on the Cholesky path) - same treatment as the cat_rows / add_low_rank operators
    it.tags |= {"derived", "derived-cache"}
    out.append(it)

    def masked():
        G = C.psd_int(rng, batch, n + 2, dtype)
        keep = sorted(rng.sample(range(n + 2), n))
        m = torch.zeros(n + 2, dtype=torch.bool)
        m[keep] = True
        return G[..., m, :][..., :, m], G, m
    _, G, msk = _retry_pd(masked)
    out.append(C.Inst("Masked[pd]", lambda c, G=G, m=msk: (lambda s: (MaskedLinearOperator(DenseLinearOperator(s), m.clone(), m.clone()), G[..., m, :][..., :, m], [s]))(c(G)), psd=True))
    return out


def own_instances(rng, dtype, batch, n):
    """Instances beyond the shared catalogue that reach class-specific factorization overrides."""
    from linear_operator.operators import (
        ConstantDiagLinearOperator, DenseLinearOperator, DiagLinearOperator, KroneckerProductAddedDiagLinearOperator,
        KroneckerProductDiagLinearOperator, KroneckerProductLinearOperator, BlockDiagLinearOperator,
    )
    out = []
    batch = tuple(batch)
    eye = lambda k: torch.eye(k, dtype=dtype)
    K1, K2 = C.psd_int(rng, batch, 2, dtype), C.psd_int(rng, batch, n, dtype)
    a1, a2 = C.ri(rng, (*batch, 1), 1, 3, dtype), C.ri(rng, (*batch, 1), 2, 3, dtype)

    def mk_kc(c, a=K1, b=K2, e=a1, f=a2):
        s, t, u, v = c(a), c(b), c(e), c(f)
        op = KroneckerProductAddedDiagLinearOperator(
            KroneckerProductLinearOperator(s, t),
            KroneckerProductDiagLinearOperator(ConstantDiagLinearOperator(u, diag_shape=2), ConstantDiagLinearOperator(v, diag_shape=n)))
        return op, C.kron(a, b) + (e * f).unsqueeze(-1) * eye(2 * n), [s, t, u, v]
    it = C.Inst("KroneckerAddedDiag[kronconst]", mk_kc, psd=True)
    it.extra = {"K": C.kron(K1, K2), "d": (a1 * a2).squeeze(-1)}
    out.append(it)
    d1, d2 = C.ri(rng, (*batch, 2), 1, 3, dtype), C.ri(rng, (*batch, n), 1, 4, dtype)

    def mk_kd(c, a=K1, b=K2, e=d1, f=d2):
        s, t, u, v = c(a), c(b), c(e), c(f)
        op = KroneckerProductAddedDiagLinearOperator(
            KroneckerProductLinearOperator(s, t), KroneckerProductDiagLinearOperator(DiagLinearOperator(u), DiagLinearOperator(v)))
        return op, C.kron(a, b) + C.kron(torch.diag_embed(e), torch.diag_embed(f)), [s, t, u, v]
    it = C.Inst("KroneckerAddedDiag[krondiag]", mk_kd, psd=True)
    it.extra = {"K": C.kron(K1, K2), "D": C.kron(torch.diag_embed(d1), torch.diag_embed(d2))}
    out.append(it)
    K3 = C.psd_int(rng, batch, 2, dtype)
    out.append(C.Inst("Kronecker[3]", lambda c, a=K1, b=K3, e=K2: (lambda s, t, u: (KroneckerProductLinearOperator(s, t, u), C.kron(C.kron(a, b), e), [s, t, u]))(c(a), c(b), c(e)), psd=True))
    s1 = C.ri(rng, (*batch, 1, 1), 2, 5, dtype)
    out.append(C.Inst("Dense[1x1]", lambda c, a=s1: (lambda t: (DenseLinearOperator(t), a, [t]))(c(a)), psd=True))
    out.append(C.Inst("Kronecker[1x1,n]", lambda c, a=s1, b=K2: (lambda s, t: (KroneckerProductLinearOperator(s, t), C.kron(a, b), [s, t]))(c(a), c(b)), psd=True))
    # upper-orientation Cholesky operator: R upper triangular, meaning RᵀR
    from linear_operator.operators import CholLinearOperator, TriangularLinearOperator, ToeplitzLinearOperator
    Ru = torch.triu(C.ri(rng, (*batch, n, n), -2, 2, dtype), 1) + torch.diag_embed(C.ri(rng, (*batch, n), 1, 3, dtype))
    out.append(C.Inst("Chol[upper]", lambda c, U=Ru: (lambda t: (CholLinearOperator(TriangularLinearOperator(t, upper=True), upper=True), U.mT @ U, [t]))(c(Ru)), psd=True))
    # batch whose members reach the pivoted-Cholesky tolerance after different numbers of pivots:
    # member 0 is numerically rank one (tolerance reached after one pivot), the others are well conditioned
    if batch:
        v = C.ri(rng, (n, 1), 1, 3, dtype)
        P = C.psd_int(rng, batch, n, dtype).clone()
        P.reshape(-1, n, n)[0] = 100.0 * (v @ v.mT) + 1e-3 * eye(n)
        it = C.Inst("Dense[pivrank]", lambda c, a=P: (lambda t: (DenseLinearOperator(t), a, [t]))(c(a)), psd=True)
        it.tags.add("pivonly")
        out.append(it)
    # derived operators: cat_rows / add_low_rank (cache updated roots) and add_jitter
    O_ = 2
    for bname in ("Dense", "Kronecker", "Toeplitz"):
        if bname == "Dense":
            A0 = C.psd_int(rng, batch, n, dtype)
            mk0 = lambda c, a=A0: (DenseLinearOperator(c(a)), a)
        elif bname == "Kronecker":
            Ka, Kb = C.psd_int(rng, batch, 2, dtype), C.psd_int(rng, batch, n, dtype)
            mk0 = lambda c, a=Ka, b=Kb: (KroneckerProductLinearOperator(c(a), c(b)), C.kron(a, b))
        else:
            col = C.ri(rng, (*batch, n), 0, 2, dtype)
            col[..., 0] = col[..., 0] + 2 * n
            mk0 = lambda c, a=col: (ToeplitzLinearOperator(c(a)), C.toeplitz_dense(a))
        N0 = mk0(lambda t: t)[1].shape[-1]
        Bc = C.ri(rng, (*batch, O_, N0), -2, 2, dtype)
        Dn = Bc @ Bc.mT + 2 * eye(O_)
        Vl = C.ri(rng, (*batch, N0, 2), -2, 2, dtype)

        def mk_cat(c, mk0=mk0, Bc=Bc, Dn=Dn):
            op0, a = mk0(c)
            b, d = c(Bc), c(Dn)
            return op0.cat_rows(b, d), torch.cat([torch.cat([a, Bc.mT], -1), torch.cat([Bc, Dn], -1)], -2), [b, d]

        def mk_alr(c, mk0=mk0, Vl=Vl):
            op0, a = mk0(c)
            v = c(Vl)
            return op0.add_low_rank(v), a + Vl @ Vl.mT, [v]

        def mk_jit(c, mk0=mk0):
            op0, a = mk0(c)
            return op0.add_jitter(2.0), a + 2.0 * torch.eye(a.shape[-1], dtype=dtype), []
        for nm, mk, tg in ((f"CatRows({bname})", mk_cat, "derived-cache"), (f"AddLowRank({bname})", mk_alr, "derived-cache"),
                           (f"AddJitter({bname})", mk_jit, "derived")):
            if nm == "CatRows(Toeplitz)":
                continue
            with warnings.catch_warnings():
                warnings.simplefilter("ignore")
                try:
                    it = C.Inst(nm, mk, psd=True)
                except Exception:
                    continue
            it.tags.add(tg)
            it.tags.add("derived")
            out.append(it)
    out += approx_diag_instances(rng, dtype, batch, n)
    out += pd_variants(rng, dtype, batch, n)
    Bk = C.psd_int(rng, (*batch, 2), 2, dtype)
    Bk2 = C.psd_int(rng, (*batch, 2), 2, dtype)
    out.append(C.Inst("BlockDiag(Kronecker)", lambda c, a=Bk, b=Bk2: (lambda s, t: (BlockDiagLinearOperator(KroneckerProductLinearOperator(s, t)), C.block_diag_dense(C.kron(a, b)), [s, t]))(c(a), c(b)), psd=True))
    return out


EV_DIAG = {"Diag", "Identity", "KroneckerDiag", "Kronecker(Toeplitz,Diag)"}   # eigenvector operator is Diag-structured


def gather_instances(chk, irng, dtype, batch, n, names=None):
    """Catalogue PSD instances (depth 2) + psd-singular ones + own ones, each regenerated until `robust`."""
    res = []
    seen = set()
    for attempt in range(20):
        sub = random.Random(irng.randrange(2 ** 62))
        pool = C.instances(sub, dtype, batch, n, psd=True, depth=2)
        pool += [it for it in C.instances(sub, dtype, batch, n, psd=False, depth=1) if "psd-singular" in it.tags]
        pool += own_instances(sub, dtype, batch, n)
        for it in pool:
            if it.name in seen or (names is not None and it.name not in names):
                continue
            if "nobatch" in it.tags and batch:
                continue
            if robust(it):
                seen.add(it.name)
                res.append(it)
            else:
                chk.count("regenerated-for-spectral-separation")
    return res


def wrapped_instances(chk, irng, base, dtype):
    """PSD-preserving depth+1 nestings of an instance."""
    kinds = ["BatchRepeat", "AddedDiag", "BlockDiag", "BlockInterleaved", "SumBatch"]
    out = []
    for w in C.wrap(random.Random(irng.randrange(2 ** 62)), base, dtype, kinds=kinds):
        if isinstance(w, tuple):
            continue
        w.psd = True
        w.tags |= {t for t in base.tags if t == "psd-singular"}
        if robust(w):
            out.append(w)
    return out


# ------------------------------------------------------------------------------------------- evaluation
def dense_of(x):
    return x.to_dense() if hasattr(x, "to_dense") else x


def relerr(got, want):
    want = want.to(got.dtype)
    if got.shape != want.shape:
        return float("inf")
    if not torch.isfinite(got).all():
        return float("inf")
    return float((got - want).abs().max() / want.abs().max().clamp_min(1.0))


def tol_for(dtype, path, singular=False, inverse=False):
    if path in ("lanczos", "pinverse-lanczos"):
        t = 2e-4
    elif path == "pivoted_cholesky":
        t = 2e-3
    else:
        t = 1e-9
    if singular:
        t = max(t, 2e-5)
    if dtype == torch.float32:
        t = max(t * 1e4, 2e-3) if t < 1e-5 else max(t, 5e-3)
    return t


def chosen_path(N, mcs, fast):
    return "cholesky" if (N <= mcs or not fast) else "lanczos"


SELF_ROOT = ("Chol", "Root", "LowRankRoot")          # RootLinearOperator family: root_decomposition returns self


def eff_path(kind, method, N, mcs, fast, name):
    """Which numerical method finally produces the factor (for tolerances and cell ids)."""
    plain_kron = name.startswith("Kronecker") and "AddedDiag" not in name and "Diag" != name[9:13]
    if kind == "diag":
        m = method or ("symeig" if (N <= mcs or plain_kron) else "lanczos")
        return m
    if name.split("[")[0].split("(")[0] in SELF_ROOT and (kind == "root" or name.startswith("Chol")):
        return "direct"
    m = method
    if m is None:
        m = chosen_path(N, mcs, fast)
    if m == "diagonalization":
        return "symeig" if (N <= mcs or plain_kron) else "lanczos"
    if m == "pinverse":
        return "pinverse-" + chosen_path(N, mcs, fast)
    return m


def run_op(it, opname, method, env, op=None):
    """Returns dict(res=..., err=..., log=[...]).  `op`: run on this existing object (call histories)."""
    out = {"err": None, "res": None, "log": None}
    with env:
        try:
            op = it.build() if op is None else op
            if opname == "chol":
                out["res"] = op.cholesky(upper=method)
            elif opname == "tl.chol":
                out["res"] = torch.linalg.cholesky(op, upper=method) if method else torch.linalg.cholesky(op)
            elif opname == "root":
                # method=None is passed positionally-absent: derived operators (cat_rows, add_low_rank) cache their
                # updated roots under the argument-free key
                out["res"] = op.root_decomposition(method=method) if method is not None else op.root_decomposition()
            elif opname == "rootinv":
                out["res"] = op.root_inv_decomposition(method=method) if method is not None else op.root_inv_decomposition()
            elif opname == "pivchol":
                from types import SimpleNamespace
                from linear_operator import settings as _s
                out["res"] = SimpleNamespace(root=op.pivoted_cholesky(rank=_s.max_root_decomposition_size.value()))
            elif opname == "eigh":
                out["res"] = op.eigh()
            elif opname == "tl.eigh":
                out["res"] = torch.linalg.eigh(op)
            elif opname == "eigvalsh":
                out["res"] = op.eigvalsh()
            elif opname == "tl.eigvalsh":
                out["res"] = torch.linalg.eigvalsh(op)
            elif opname == "diag":
                out["res"] = op.diagonalization(method=method) if method is not None else op.diagonalization()
            elif opname == "svd":
                out["res"] = op.svd()
            elif opname == "tl.svd":
                U, S, Vh = torch.linalg.svd(op)
                out["res"] = (U, S, Vh.mT)
            out["op"] = op
        except Exception as e:  # noqa
            out["err"] = f"{type(e).__name__}: {str(e)[:160]}"
            out["errtype"] = type(e).__name__
    out["log"] = env.log
    return out


def check_result(it, opname, method, r, path, mrds):
    """Compare with the independent dense definition.  Returns list of failure strings (empty = property holds)."""
    A = it.dense
    N = A.shape[-1]
    dtype = A.dtype
    singular = "psd-singular" in it.tags
    fails = []
    eyeN = torch.eye(N, dtype=dtype)
    if r["err"] is not None:
        return [f"raised {r['err']}"]
    res = r["res"]
    if opname in ("chol", "tl.chol"):
        upper = bool(method)
        L = dense_of(res)
        if L.shape != A.shape:
            return [f"factor shape {tuple(L.shape)} != {tuple(A.shape)}"]
        wrong = torch.tril(L, -1) if upper else torch.triu(L, 1)
        if bool((wrong != 0).any()):
            fails.append(f"factor is not exactly {'upper' if upper else 'lower'} triangular (max off-pattern {float(wrong.abs().max()):.3g})")
        rec = L.mT @ L if upper else L @ L.mT
        e = relerr(rec, A)
        if e > tol_for(dtype, "cholesky", singular):
            fails.append(f"{'RᵀR' if upper else 'LLᵀ'} differs from A by {e:.3g} (rel)")
        if N > 1 and bool((torch.diagonal(L, dim1=-1, dim2=-2) <= 0).any()):
            fails.append("non-positive diagonal of the Cholesky factor")
        return fails
    if opname == "pivchol":
        opname = "root"
    if opname in ("root", "rootinv"):
        target = A if opname == "root" else torch.linalg.inv(A.double()).to(dtype)
        try:
            R = dense_of(res.root)
        except Exception as e:
            return [f"root.to_dense raised {type(e).__name__}: {e}"[:200]]
        if R.shape[:-1] != A.shape[:-1]:
            return [f"root shape {tuple(R.shape)} incompatible with {tuple(A.shape)}"]
        rec = R @ R.mT
        tol = tol_for(dtype, path, singular, opname == "rootinv")
        lz = [t.split(":") for t in (r["log"] or []) if t.startswith("lanczos:")]
        truncated = any(int(a[2]) < int(a[1]) for a in lz)
        full = not truncated
        if path == "pivoted_cholesky":
            full = mrds >= N
        if lz and tol < 2e-4 and dtype == torch.float64:
            tol = 2e-4      # a Lanczos run happened somewhere inside (documented jitter 1e-6 · min diag T)
        if path == "pivoted_cholesky":
            resid = A - rec
            ev = torch.linalg.eigvalsh(resid.double())
            scale = float(A.abs().max())
            if float(ev.min()) < -1e-6 * scale:
                fails.append(f"A − LLᵀ is not PSD (min eig {float(ev.min()):.3g})")
            tr = torch.diagonal(resid, dim1=-1, dim2=-2).sum(-1) / torch.diagonal(A, dim1=-1, dim2=-2).max(-1)[0]
            if r.get("kind") == "base":
                k = min(mrds, N)
                if R.shape[-1] > k:
                    fails.append(f"pivoted Cholesky factor has {R.shape[-1]} > rank {k} columns")
                zero_rows = (resid.abs().max(-1)[0] <= 1e-7 * scale).sum(-1).min()
                if int(zero_rows) < min(R.shape[-1], N):
                    fails.append(f"only {int(zero_rows)} rows of A are reproduced exactly by a rank-{R.shape[-1]} pivoted Cholesky")
                if R.shape[-1] < k and float(tr.max()) > 1e-3 * 1.001:
                    fails.append(f"stopped at rank {R.shape[-1]} < {k} with residual {float(tr.max()):.3g} > tolerance")
            if full and float(tr.abs().max()) > 2.5e-3:
                fails.append(f"full-rank pivoted Cholesky residual {float(tr.abs().max()):.3g}")
            if full and R.shape[-1] == N and "pivonly" not in it.tags:
                # all N pivots were taken (no early stop): the factorization is complete, R Rᵀ = A to working precision
                e = relerr(rec, A)
                tolx = 1e-9 if dtype == torch.float64 else 2e-3
                if e > tolx:
                    fails.append(f"R Rᵀ of the complete (rank bound ≥ N, {N} pivots) pivoted Cholesky differs from A by {e:.3g} (rel)")
            return fails
        if full:
            e = relerr(rec, target)
            if e > tol:
                fails.append(f"R Rᵀ differs from {'A' if opname == 'root' else 'A⁻¹'} by {e:.3g} (rel, tol {tol:.1g}, path {path})")
            if opname == "root" and hasattr(res, "to_dense") and hasattr(res, "root"):
                e2 = relerr(res.to_dense(), A)
                if e2 > tol:
                    fails.append(f"root_decomposition().to_dense() differs from A by {e2:.3g}")
        else:
            # truncated Krylov space: R Rᵀ is the orthogonal compression of A onto range(R) (resp. its pseudo-inverse)
            Rd, Ad = R.double(), A.double()
            U, S, _ = torch.linalg.svd(Rd, full_matrices=False)
            rank = (S > 1e-8 * S[..., :1]).sum(-1)
            whole = len(lz) == 1 and int(lz[0][1]) == N
            if whole and int(rank.max()) > int(lz[0][2]):
                fails.append(f"Lanczos root has rank {int(rank.max())} > {lz[0][2]} iterations")
            if not r.get("compressible"):
                pass
            elif int(rank.min()) == int(rank.max()):
                Qk = U[..., : int(rank.max())]
                T = Qk.mT @ Ad @ Qk
                comp = Qk @ (T if opname == "root" else torch.linalg.inv(T)) @ Qk.mT
                e = relerr(Rd @ Rd.mT, comp)
                if e > max(tol, 5e-4):
                    fails.append(f"R Rᵀ is not the orthogonal compression of A onto range(R): {e:.3g}")
        return fails
    if opname in ("eigvalsh", "tl.eigvalsh"):
        w = res
        if isinstance(w, tuple):
            return ["eigvalsh returned a tuple"]
        ref = torch.linalg.eigvalsh(A.double())
        e = relerr(torch.sort(w.double(), -1)[0], ref)
        if e > max(tol_for(dtype, "symeig", singular), 1e-8):
            fails.append(f"eigenvalues differ from those of A by {e:.3g}")
        return fails
    if opname in ("eigh", "tl.eigh", "diag"):
        w, Q = res
        if Q is None:
            return ["eigenvectors are None"]
        Q = dense_of(Q)
        p = path if opname == "diag" else "symeig"
        tol = tol_for(dtype, p, singular)
        lz = [t.split(":") for t in (r["log"] or []) if t.startswith("lanczos:")]
        if lz and tol < 2e-4 and dtype == torch.float64:
            tol = 2e-4
        if any(int(a[2]) < int(a[1]) for a in lz):
            # partial diagonalization: Q has orthonormal columns, Q diag(w) Qᵀ is the compression
            e = relerr(Q.mT @ Q, torch.eye(Q.shape[-1], dtype=dtype).expand(*Q.shape[:-2], -1, -1))
            if e > tol:
                fails.append(f"QᵀQ differs from I by {e:.3g} (partial Lanczos)")
            comp = Q @ (Q.mT @ A @ Q) @ Q.mT
            e = relerr(Q @ torch.diag_embed(w) @ Q.mT, comp)
            if e > max(tol, 5e-4):
                fails.append(f"Q diag(w) Qᵀ is not the compression of A: {e:.3g}")
            return fails
        if Q.shape != A.shape or w.shape != A.shape[:-1]:
            return [f"shapes w {tuple(w.shape)} Q {tuple(Q.shape)} for A {tuple(A.shape)}"]
        e = relerr(Q.mT @ Q, eyeN.expand_as(A))
        if e > tol:
            fails.append(f"QᵀQ differs from I by {e:.3g}")
        e = relerr(Q @ torch.diag_embed(w) @ Q.mT, A)
        if e > tol:
            fails.append(f"Q diag(w) Qᵀ differs from A by {e:.3g}")
        return fails
    if opname in ("svd", "tl.svd"):
        U, S, V = res
        U, V = dense_of(U), dense_of(V)
        tol = tol_for(dtype, "symeig", singular)
        if bool((S < 0).any()):
            fails.append("negative singular value")
        e = relerr(U @ torch.diag_embed(S) @ V.mT, A)
        if e > tol:
            fails.append(f"U diag(S) Vᵀ differs from A by {e:.3g}")
        e = relerr(V.mT @ V, eyeN.expand_as(A))
        if e > tol:
            fails.append(f"VᵀV differs from I by {e:.3g}")
        G = U.mT @ U
        if singular:
            keep = (S > 1e-6 * S.max(-1, keepdim=True)[0])
            mask = keep.unsqueeze(-1) & keep.unsqueeze(-2)
            e = float(((G - eyeN) * mask).abs().max())
        else:
            e = relerr(G, eyeN.expand_as(A))
        if e > tol:
            fails.append(f"UᵀU differs from I by {e:.3g}")
        return fails
    return ["unknown op"]


# ------------------------------------------------------------------------------------------- model lines
def hook_kind(op, table):
    """'base' if no class in the MRO (below LinearOperator) overrides a factorization hook, 'kron' for a
    KroneckerProductLinearOperator with such factors, else None."""
    from linear_operator.operators import KroneckerProductLinearOperator, LinearOperator
    names = {c for c, _ in table}

    def is_base(o):
        return not any(k.__name__ in names for k in type(o).__mro__ if k is not LinearOperator)
    if is_base(op):
        return "base", [op.shape[-1]]
    if type(op) is KroneckerProductLinearOperator and all(is_base(f) for f in op.linear_ops):
        return "kron", [f.shape[-1] for f in op.linear_ops]
    return None, None


def compressible(op, table):
    """Truncated Lanczos roots of these structures are orthogonal compressions of A onto range(R)."""
    if op is None:
        return False
    from linear_operator.operators import BatchRepeatLinearOperator, BlockDiagLinearOperator, BlockInterleavedLinearOperator
    k, _ = hook_kind(op, table)
    if k is not None:
        return True
    if type(op) in (BatchRepeatLinearOperator, BlockDiagLinearOperator, BlockInterleavedLinearOperator):
        return hook_kind(op.base_linear_op, table)[0] == "base"
    return False


def impl_outcome(opname, r):
    from linear_operator.operators import CholLinearOperator, RootLinearOperator
    if r["err"] is not None:
        et = r.get("errtype", "?")
        return "error " + et
    if opname == "diag":
        cls = "-"
    else:
        cls = "Chol" if isinstance(r["res"], CholLinearOperator) else ("Root" if isinstance(r["res"], RootLinearOperator) else type(r["res"]).__name__)
    return f"ok cls={cls} prims={','.join(r['log']) if r['log'] else '-'}"


def mstr(m):
    return "none" if m is None else m



# ------------------------------------------------------------------------------------------- call histories
def _mrds(N, lab):
    return {"lt": max(2, N - 2), "eq": N, "gt": N + 5}[lab]


def _mcs(N, lab):
    return {"0": 0, "N-1": max(N - 1, 0), "N": N, "def": DEFAULT_MCS}[lab]


CACHED_OPS = ("root", "rootinv", "diag")


def hist_templates(it, rng, quick):
    """(prime, calls): prime = None | (target, name); call = (opname, method, mcs_label, mrds_label)."""
    singular = "psd-singular" in it.tags
    if "pivonly" in it.tags:
        return []
    if singular:
        return [(None, [("root", "symeig", "def", "gt"), ("root", "svd", "def", "gt"), ("eigh", None, "def", "gt")]),
                (("self", "svd"), [("eigh", None, "def", "gt"), ("eigvalsh", None, "def", "gt"), ("svd", None, "def", "gt")]),
                (None, [("eigvalsh", None, "def", "gt"), ("eigh", None, "def", "gt"), ("root", "symeig", "def", "gt")])]
    T = [
        (None, [("root", "lanczos", "def", "lt"), ("root", "cholesky", "def", "gt")]),
        (None, [("root", "pivoted_cholesky", "def", "lt"), ("root", None, "def", "gt"), ("root", "symeig", "def", "gt")]),
        (("self", "logdet"), [("rootinv", "lanczos", "def", "gt"), ("rootinv", "cholesky", "def", "gt")]),
        (None, [("eigh", None, "def", "gt"), ("eigh", None, "def", "gt"), ("eigvalsh", None, "def", "gt")]),
        (("sub", "diagonalization"), [("rootinv", "lanczos", "def", "gt"), ("eigh", None, "def", "gt")]),
        (None, [("rootinv", "lanczos", "def", "lt"), ("rootinv", "cholesky", "def", "gt"), ("root", None, "def", "gt")]),
        (("self", "diagonalization"), [("eigvalsh", None, "def", "gt"), ("root", None, "def", "gt"), ("svd", None, "def", "gt")]),
        (("self", "logdet"), [("eigh", None, "def", "gt"), ("rootinv", "symeig", "def", "gt")]),
    ]
    if "derived-cache" not in it.tags:
        T.append((None, [("root", None, "0", "gt"), ("root", "cholesky", "def", "gt"), ("rootinv", None, "def", "gt")]))
        T.append((None, [("root", "lanczos", "0", "lt"), ("root", "symeig", "0", "gt"), ("root", None, "def", "gt")]))
    pool = [("root", m) for m in ROOT_METHODS] + [("rootinv", m) for m in RINV_METHODS] + [("diag", m) for m in DIAG_METHODS] + \
           [("eigh", None), ("eigvalsh", None), ("svd", None), ("chol", False), ("chol", True), ("tl.eigh", None), ("tl.eigvalsh", None)]
    primes = [None, ("self", "logdet"), ("self", "solve"), ("self", "diagonalization"), ("self", "eigh"), ("self", "svd"),
              ("self", "cholesky"), ("self", "rootinv"), ("sub", "diagonalization"), ("sub", "rootinv"), ("sub", "cholesky"), ("sub", "eigh")]
    for _ in range(2 if quick else 6):
        calls, keys = [], set()
        pattern = rng.choice(["same", "rank", "size"]) if "derived-cache" not in it.tags else rng.choice(["same", "rank"])
        for j in range(rng.choice([2, 3, 3])):
            for _try in range(20):
                o, m = rng.choice(pool)
                if o in CACHED_OPS and (o, m) in keys:
                    continue
                break
            keys.add((o, m))
            mcs = "def" if pattern != "size" else ("0" if j == 0 else "def")
            mr = "gt" if pattern != "rank" else ("lt" if j == 0 else "gt")
            calls.append((o, m, mcs, mr))
        T.append((rng.choice(primes), calls))
    return T


def run_prime(op, prime, seed):
    """Priming query under default settings (direct methods).  Returns a description or None if not applicable."""
    run_prime.last = None
    if prime is None:
        return "none"
    target, name = prime
    tgt = op
    if target == "sub":
        from linear_operator.operators import DiagLinearOperator, TriangularLinearOperator
        subs = [x for x in _sub_ops(op)[1:] if x.shape[-1] == x.shape[-2] and x.shape[-1] > 1
                and not isinstance(x, (DiagLinearOperator, TriangularLinearOperator))]
        subs = [x for x in subs if torch.allclose(x.to_dense(), x.to_dense().mT)]
        if not subs:
            return None
        tgt = subs[seed % len(subs)]
    N = tgt.shape[-1]
    with Env(DEFAULT_MCS, N + 5, True, seed):
        try:
            if name == "logdet":
                tgt.logdet()
            elif name == "solve":
                tgt.solve(torch.ones(*tgt.batch_shape, N, 2, dtype=tgt.dtype))
            elif name == "diagonalization":
                run_prime.last = tgt.diagonalization()
            elif name == "eigh":
                tgt.eigh()
            elif name == "svd":
                tgt.svd()
            elif name == "cholesky":
                tgt.cholesky()
            elif name == "rootinv":
                run_prime.last = tgt.root_inv_decomposition()
        except Exception as e:  # a failing primer is not this check's subject (C04/C05); the history continues
            return f"{target}:{name}!{type(e).__name__}"
    return f"{target}:{name}"


def call_str(it, c, N):
    o, m, ml, rl = c
    if o in ("root", "rootinv", "diag"):
        return f"{o}:{mstr(m)}>{eff_path(o, m, N, _mcs(N, ml), True, it.name)}@{ml},{rl}"
    if "chol" in o:
        return f"{o}:upper={int(bool(m))}@{ml},{rl}"
    return f"{o}@{ml},{rl}"


def _errmag(msg):
    import re
    m = re.search(r"by ([0-9.eE+-]+|inf|nan)", msg)
    try:
        return float(m.group(1)) if m else float("inf")
    except ValueError:
        return float("inf")


def run_histories(chk, it, batch, dtype, table, lines, pending, quick):
    N = it.dense.shape[-1]
    dt = "f64" if dtype == torch.float64 else "f32"
    ev = "|ev=diag" if it.name in EV_DIAG or any(it.name.endswith("(" + e + ")") for e in EV_DIAG) else ""
    for hi, (prime, calls) in enumerate(hist_templates(it, chk.rng, quick)):
        seed = chk.rng.randrange(2 ** 31)
        with warnings.catch_warnings():
            warnings.simplefilter("ignore")
            op = it.build()
            pdesc = run_prime(op, prime, seed)
        if pdesc is None:
            continue
        cstrs = [call_str(it, c, N) for c in calls]
        if "nolanczos" in it.tags and any((c[0] == "diag" or c[1] == "diagonalization") and ">lanczos" in cs for c, cs in zip(calls, cstrs)):
            continue
        base_cell = f"C06/hist/{it.name}[b={batch}|{dt}{ev}]/p={pdesc}/" + "/".join(cstrs)
        results, modelled, kind = [], [], hook_kind(op, table)[0]
        lanczos_seen = False
        if kind == "base" and prime is not None and prime[0] == "self" and prime[1] in ("diagonalization", "rootinv") and "!" not in pdesc:
            results.append(run_prime.last)
            modelled.append(("diag" if prime[1] == "diagonalization" else "rootinv", None, DEFAULT_MCS, N + 5, 0))
        payload = {"inst": it.name, "plan": it.plan, "prime": list(prime) if prime else None, "calls": [list(c) for c in calls], "seed": seed}
        for k, c in enumerate(calls):
            o, m, ml, rl = c
            mcs, mr = _mcs(N, ml), _mrds(N, rl)
            path = eff_path(o, m, N, mcs, True, it.name) if o in CACHED_OPS else "direct"
            r = run_op(it, o, m, Env(mcs, mr, True, seed + k + 1), op=op)
            r["compressible"] = compressible(op, table)
            r["kind"] = kind
            fails = check_result(it, o, m, r, path, mr)
            # xw=1: an earlier call of this history was a Lanczos-path root_inv_decomposition (it overwrites the cached root)
            xw = int(any(calls[j][0] == "rootinv" and ">lanczos@" in cstrs[j] for j in range(k)))
            # lz=1: an earlier call of this history ran a Lanczos primitive on this object or a sub-operator
            lz = int(lanczos_seen)
            err = "small" if fails and all(("by " in f and _errmag(f) <= 2e-4) for f in fails) else "large"
            cell = base_cell + f"/fail={k}:{cstrs[k]}/xw={xw}/lz={lz}/err={err}"
            lanczos_seen = lanczos_seen or any(t.startswith("lanczos:") for t in (r["log"] or []))
            chk.case(f"{base_cell}#{k} seed={seed} A={it.dense.flatten().tolist()[:30]}", nontrivial=N > 1)
            chk.count("hist:calls")
            chk.count(f"hist:op:{o}")
            if fails:
                chk.violation(cell, f"call {k} of the history on one object: " + "; ".join(fails)[:350] + f" | A[0]={it.dense.reshape(-1, N, N)[0].tolist()}", payload)
                chk.count("hist:failing-calls")
            results.append(r.get("res"))
            if o in CACHED_OPS:
                modelled.append((o, m, mcs, mr, len(results) - 1))
        chk.count("hist:histories")
        # model correspondence on the provenance of the returned objects (base-class operators, N > 1)
        if kind == "base" and N > 1 and "derived" not in it.tags and len([x for x in modelled if x[4] is not None]) >= 1:
            lines.append(f"hist {N} " + ";".join(f"{o}:{mstr(m)}:{mcs}:{mr}:1" for o, m, mcs, mr, _ in modelled))
            obs = []
            for j, (o, m, mcs, mr, ri) in enumerate(modelled):
                if ri is None or results[ri] is None:
                    obs.append("?")
                    continue
                src = "new"
                for j2 in range(j):
                    r2 = modelled[j2][4]
                    if r2 is not None and results[r2] is not None and results[r2] is results[ri]:
                        src = f"hit:{j2}"
                        break
                obs.append(src)
            pending.append((base_cell + "/provenance", ("hist", obs), False, payload))

# ------------------------------------------------------------------------------------------- main
def settings_grid(chk, N, opname, method, quick, it=None):
    if opname == "pivchol":
        res = settings_grid(chk, N, "root", "pivoted_cholesky", quick, it)
        return [c for c in res if c[1] in ("0", "def")] or res
    res = _settings_grid(chk, N, opname, method, quick)
    if it is not None and "derived-cache" in it.tags:
        # the updated roots are built from the parent's roots: only claimed when the parent takes the Cholesky path
        res = [c for c in res if c[1] in ("N", "def")]
    return res


def _settings_grid(chk, N, opname, method, quick):
    """(mcs, mcs_label, mrds, mrds_label, fast) combinations for one op."""
    mcs_all = [(0, "0"), (max(N - 1, 0), "N-1"), (N, "N"), (DEFAULT_MCS, "def")]
    mr_all = [(max(2, N - 2), "lt"), (N, "eq"), (N + 5, "gt")]
    combos = []
    if opname in ("root", "rootinv", "diag"):
        lanczos_possible = method in (None, "lanczos", "pinverse", "diagonalization", "pivoted_cholesky") or opname == "diag"
        for mcs, ml in mcs_all:
            for mr, rl in (mr_all if lanczos_possible else [mr_all[2]]):
                for fast in ((True, False) if (method in (None, "pinverse") and opname != "diag") else (True,)):
                    combos.append((mcs, ml, mr, rl, fast))
        if quick and len(combos) > 6:
            must = [c for c in combos if (c[1] in ("0", "def") and c[3] == "gt" and c[4])]
            rest = [c for c in combos if c not in must]
            combos = must + chk.rng.sample(rest, 4)
            if not any(c[1] == "N" for c in combos):
                combos.append(next(c for c in rest if c[1] == "N"))
    else:
        combos = [(mcs, ml, N + 5, "gt", True) for mcs, ml in ((0, "0"), (DEFAULT_MCS, "def"))]
        if quick and opname.startswith("tl."):
            combos = combos[1:]
    return combos


def ops_for(it):
    singular = "psd-singular" in it.tags
    if "pivonly" in it.tags:
        return [("root", "pivoted_cholesky"), ("pivchol", None)]
    ops = []
    if not singular:
        ops += [("chol", False), ("chol", True), ("tl.chol", False), ("tl.chol", True)]
        ops += [("root", m) for m in ROOT_METHODS] + [("rootinv", m) for m in RINV_METHODS]
        ops += [("diag", m) for m in DIAG_METHODS]
    else:
        ops += [("root", m) for m in ("cholesky", "symeig", "svd", "pivoted_cholesky", "diagonalization")] + [("diag", "symeig")]
    ops += [("eigh", None), ("eigvalsh", None), ("tl.eigh", None), ("tl.eigvalsh", None), ("svd", None), ("tl.svd", None)]
    if not singular and ("derived" in it.tags or it.name in ("Dense[psd]", "Toeplitz", "PsdSum")):
        ops.append(("pivchol", None))
    return ops


def cell_id(it, batch, dtype, opname, method, ml, rl, fast, path):
    ev = "|ev=diag" if it.name in EV_DIAG or any(it.name.endswith("(" + e + ")") for e in EV_DIAG) else ""
    dt = "f64" if dtype == torch.float64 else "f32"
    m = "" if opname in ("eigh", "eigvalsh", "tl.eigh", "tl.eigvalsh", "svd", "tl.svd", "pivchol") else \
        ("/upper=" + str(int(bool(method))) if "chol" in opname else f"/m={mstr(method)}>{path}")
    return f"C06/{it.name}[b={batch}|{dt}{ev}]/{opname}{m}/mcs={ml}/mrds={rl}/fast={int(fast)}"


def evaluate(chk, it, batch, dtype, opname, method, combo, table, lines, pending):
    mcs, ml, mr, rl, fast = combo
    N = it.dense.shape[-1]
    path = eff_path(opname, method, N, mcs, fast, it.name) if opname in ("root", "rootinv", "diag") else \
        ("pivoted_cholesky" if opname == "pivchol" else "direct")
    if path in ("lanczos", "pinverse-lanczos") and dtype == torch.float32:
        return
    if "nolanczos" in it.tags and path == "lanczos" and (opname == "diag" or method == "diagonalization"):
        return
    seed = chk.rng.randrange(2 ** 31)
    r = run_op(it, opname, method, Env(mcs, mr, fast, seed))
    cell = cell_id(it, batch, dtype, opname, method, ml, rl, fast, path)
    r["compressible"] = compressible(r.get("op"), table)
    r["kind"] = hook_kind(r["op"], table)[0] if r.get("op") is not None else None
    fails = check_result(it, opname, method, r, path, mr)
    desc = f"{cell} seed={seed} A={it.dense.flatten().tolist()[:40]}"
    chk.case(desc, nontrivial=N > 1)
    chk.count(f"op:{opname}")
    chk.count(f"inst:{it.name}")
    chk.count(f"path:{path}")
    payload = {"inst": it.name, "batch": list(batch), "dtype": str(dtype), "n": it.n0, "op": opname, "method": method,
               "combo": [mcs, ml, mr, rl, fast], "seed": seed, "plan": it.plan}
    if fails:
        chk.violation(cell, "; ".join(fails)[:400] + f" | A[0]={it.dense.reshape(-1, N, N)[0].tolist()}", payload)
    # model correspondence: primitives + class
    if opname in ("root", "rootinv", "diag") and "derived" not in it.tags:
        op = r.get("op") or it.build()
        kind, ns = hook_kind(op, table)
        if kind is not None:
            lines.append(f"sel {opname} {kind} {','.join(map(str, ns))} {mcs} {mr} {int(fast)} {mstr(method)} 1 000")
            pending.append((cell, impl_outcome(opname, r), bool(fails), payload))
    return r, fails, cell, payload


def d13_lines(chk, it, r, lines, pending, cell, payload, ok_spec):
    """Spectrum correspondence for the two KroneckerProductAddedDiag inverse-root branches."""
    try:
        R = dense_of(r["res"].root).double()
    except Exception:
        return
    G = R @ R.mT
    if it.name.endswith("[kronconst]"):
        K, d = it.extra["K"].double().reshape(-1, *it.extra["K"].shape[-2:]), it.extra["d"].double().reshape(-1)
        Gf = G.reshape(-1, *G.shape[-2:])
        for b in range(K.shape[0]):
            lam = torch.linalg.eigvalsh(K[b]).tolist()
            got = sorted(torch.linalg.eigvalsh(Gf[b]).tolist())
            lines.append(f"kpadlo {'fix' if ok_spec else 'asw'} {fmt_rat(float(d[b]))} {fmt_list(lam)}")
            pending.append((cell, ("spectrum", got), False, payload))
    elif it.name.endswith("[krondiag]"):
        K, D = it.extra["K"].double().reshape(-1, *G.shape[-2:]), it.extra["D"].double().reshape(-1, *G.shape[-2:])
        Gf = G.reshape(-1, *G.shape[-2:])
        for b in range(K.shape[0]):
            dh = torch.diagonal(D[b]).sqrt()
            lam = torch.linalg.eigvalsh(K[b] / dh.unsqueeze(-1) / dh.unsqueeze(-2)).tolist()
            side = dh if ok_spec else 1.0 / dh     # corrected: D^{1/2} G D^{1/2};  as written: D^{-1/2} G D^{-1/2}
            got = sorted(torch.linalg.eigvalsh(Gf[b] * side.unsqueeze(-1) * side.unsqueeze(-2)).tolist())
            lines.append(f"symm {fmt_list(lam)}")
            pending.append((cell, ("spectrum", got), False, payload))


def exact_cells(chk, lines, pending):
    """Exact-by-construction cells: Kronecker Cholesky factors of integer L Lᵀ, `_choose_root_method`, base `_svd`."""
    from linear_operator import settings
    from linear_operator.operators import DenseLinearOperator, KroneckerProductLinearOperator
    from linear_operator.utils.memoize import add_to_cache
    rng = chk.rng
    for rep in range(3 if chk.tier == "quick" else 12):
        m, p = rng.choice([(2, 2), (2, 3), (3, 2), (1, 3), (3, 3)])
        def tri(k):
            L = torch.tril(C.ri(rng, (k, k), -2, 2, torch.float64), -1) + torch.diag_embed(C.ri(rng, (k,), 1, 3, torch.float64))
            return L
        L1, L2 = tri(m), tri(p)
        with warnings.catch_warnings():
            warnings.simplefilter("ignore")
            op = KroneckerProductLinearOperator(DenseLinearOperator(L1 @ L1.T), DenseLinearOperator(L2 @ L2.T))
            for upper in (False, True):
                got = op.cholesky(upper=upper).to_dense()
                cell = f"C06/exact/KroneckerChol[{m}x{p}]/upper={int(upper)}"
                chk.case(f"{cell} L1={L1.tolist()} L2={L2.tolist()}")
                chk.count("exact:kronchol")
                if not torch.equal(got, got.round()):
                    # float Cholesky of an integer L Lᵀ not exact here: unusable for the exact comparison
                    chk.count("exact:discarded-inexact")
                    continue
                lines.append(f"kron {m} {m} {p} {p} {fmt_mat(L1.tolist())} {fmt_mat(L2.tolist())}")
                want_rows = None
                pending.append((cell, ("kron", got.tolist(), upper), False, {"L1": L1.tolist(), "L2": L2.tolist(), "upper": upper}))
    # _choose_root_method over all probe/setting combinations
    A = torch.eye(3, dtype=torch.float64) * 2 + 1
    for bits in range(8):
        for mcs in (0, 2, 3, 800):
            for fast in (True, False):
                op = DenseLinearOperator(A)
                for i, nm in enumerate(("symeig", "diagonalization", "lanczos")):
                    if bits >> (2 - i) & 1:
                        add_to_cache(op, nm, (1,))
                with settings.max_cholesky_size(mcs), settings.fast_computations(covar_root_decomposition=fast):
                    got = op._choose_root_method()
                cell = f"C06/exact/choose/cache={bits:03b}/mcs={mcs}/fast={int(fast)}"
                chk.case(cell)
                chk.count("exact:choose")
                lines.append(f"choose 3 {mcs} {int(fast)} {bits:03b}")
                pending.append((cell, ("str", got), False, {"bits": bits, "mcs": mcs, "fast": fast}))
    # base `_svd` on an exactly diagonal PSD matrix with one zero eigenvalue (defect cell: zero column in U)
    for w in ([2.0, 0.0, 3.0], [1.0, 4.0, 2.0]):
        op = DenseLinearOperator(torch.diag(torch.tensor(w, dtype=torch.float64)))
        U, S, V = op.svd()
        U, V = U.to_dense(), V.to_dense()
        perm_ok = torch.equal(V.abs(), V.abs().round()) and torch.equal(V.mT @ V, torch.eye(3, dtype=torch.float64))
        zero = 0.0 in w
        cell = f"C06/exact/svd-base/{'zero-eigenvalue' if zero else 'pd'}"
        chk.case(f"{cell} w={w}")
        chk.count("exact:svd")
        bad = []
        if not torch.allclose(U @ torch.diag(S) @ V.T, op.to_dense()):
            bad.append("U diag(S) Vᵀ ≠ A")
        if not torch.allclose(U.T @ U, torch.eye(3, dtype=torch.float64)):
            bad.append(f"UᵀU ≠ I: U has a zero column for the zero eigenvalue (U={U.tolist()})")
        if bad:
            chk.violation(cell, "; ".join(bad), {"w": w})
        if perm_ok:
            # eigenvalues in the order eigh returned them: w' = diag(Vᵀ A V)
            wq = torch.diagonal(V.T @ op.to_dense() @ V).tolist()
            lines.append(f"{'svd' if bad else 'svdpos'} 3 {fmt_mat(V.tolist())} {fmt_list(wq)}")
            pending.append((cell, ("svd", U.tolist(), S.tolist(), V.tolist()), bool(bad), {"w": w}))


def diag_svd_cells(chk):
    """DiagLinearOperator._svd on PSD-singular diagonals (a zero entry, first or not)."""
    from linear_operator.operators import DiagLinearOperator
    for d in ([0.0, 1.0, 2.0], [2.0, 0.0, 3.0], [1.0, 4.0, 2.0]):
        op = DiagLinearOperator(torch.tensor(d, dtype=torch.float64))
        cell = f"C06/exact/svd-diag/{'zero-first' if d[0] == 0 else ('zero-entry' if 0.0 in d else 'pd')}"
        chk.case(f"{cell} d={d}")
        chk.count("exact:svd-diag")
        try:
            U, S, V = op.svd()
            U, V = U.to_dense(), V.to_dense()
        except Exception as e:
            chk.violation(cell, f"raised {type(e).__name__}: {e}"[:300], {"d": d})
            continue
        eye = torch.eye(3, dtype=torch.float64)
        bad = []
        if not torch.allclose(U @ torch.diag(S) @ V.T, op.to_dense()):
            bad.append(f"U diag(S) Vᵀ ≠ A (V={V.tolist()})")
        if not torch.allclose(U.T @ U, eye) or not torch.allclose(V.T @ V, eye):
            bad.append(f"U or V not orthogonal (V={V.tolist()})")
        if bool((S < 0).any()):
            bad.append("negative singular value")
        if bad:
            chk.violation(cell, "; ".join(bad)[:400], {"d": d})


def hetero_cells(chk):
    """Heterogeneous batches: PD members batched with an exactly singular PSD member (plain Cholesky fails for it
    only).  Cholesky-based factorizations are compared PER MEMBER: the PD members at working precision (no jitter may
    reach them), the singular member up to the jitter psd_safe_cholesky is allowed to add (≤ 111·jitter)."""
    import contextlib
    from linear_operator import settings
    from linear_operator.operators import BlockDiagLinearOperator, DenseLinearOperator
    rng = chk.rng
    n = 3
    for rep in range(2 if chk.tier == "quick" else 8):
        members = []
        sidx = rng.randrange(3)
        for b in range(3):
            if b == sidx:
                v = C.ri(rng, (n, 1), 1, 3, torch.float64)
                members.append(v @ v.mT)
            else:
                members.append(C.psd_int(rng, (), n, torch.float64))
        A = torch.stack(members)
        for jit, jl in ((None, "default"), (1e-2, "1e-2"), (1e-4, "1e-4")):
            jval = 1e-8 if jit is None else jit
            for wrap_name in ("Dense", "BlockDiag"):
                for opname, method in (("chol", False), ("chol", True), ("root", "cholesky"), ("root", None), ("rootinv", "cholesky"), ("rootinv", None)):
                    cell = f"C06/hetero/{wrap_name}[singular@{sidx}]/{opname}:{mstr(method) if 'chol' not in opname else 'upper=' + str(int(method))}/jitter={jl}"
                    chk.case(f"{cell} A={A.flatten().tolist()}")
                    chk.count("hetero:cases")
                    ctx = settings.cholesky_jitter(double_value=jit) if jit is not None else contextlib.nullcontext()
                    try:
                        with warnings.catch_warnings(), ctx:
                            warnings.simplefilter("ignore")
                            op = DenseLinearOperator(A.clone())
                            if wrap_name == "BlockDiag":
                                op = BlockDiagLinearOperator(op)
                            if opname == "chol":
                                L = op.cholesky(upper=method).to_dense()
                                G = L.mT @ L if method else L @ L.mT
                            elif opname == "root":
                                R = (op.root_decomposition(method=method) if method else op.root_decomposition()).root.to_dense()
                                G = R @ R.mT
                            else:
                                R = (op.root_inv_decomposition(method=method) if method else op.root_inv_decomposition()).root.to_dense()
                                G = R @ R.mT
                    except Exception as e:
                        chk.violation(cell, f"raised {type(e).__name__}: {e}"[:300] + f" | A={A.tolist()}", {"A": A.tolist(), "jit": jit})
                        continue
                    if wrap_name == "BlockDiag":
                        G = torch.stack([G[b * n:(b + 1) * n, b * n:(b + 1) * n] for b in range(3)])
                    bad = []
                    for b in range(3):
                        if b == sidx:
                            if opname != "rootinv":
                                d = float((G[b] - A[b]).abs().max())
                                if not (d <= 111.5 * jval + 1e-12):
                                    bad.append(f"singular member {b}: |G − A| = {d:.3g} exceeds the jitter budget {111 * jval:.3g}")
                            continue
                        tgt = A[b] if opname != "rootinv" else torch.linalg.inv(A[b])
                        e = float((G[b] - tgt).abs().max() / tgt.abs().max())
                        if not (e <= 2e-11):
                            bad.append(f"PD member {b}: reconstruction differs by {e:.3g} (rel) — jitter must only be added to the member that fails Cholesky")
                    if bad:
                        chk.violation(cell, "; ".join(bad)[:400] + f" | A={A.tolist()}", {"A": A.tolist(), "jit": jit})


# ------------------------------------------------------------------------------------------- ConstantMul override
CMUL_METHODS = (None, "cholesky", "symeig", "svd", "lanczos", "pinverse", "diagonalization", "pivoted_cholesky")
CMUL_PAIRS = ((None, None), ("cholesky", "cholesky"), ("symeig", "symeig"), ("svd", "svd"), (None, "pinverse"))


def _cmul_bases(rng, dtype, batch):
    """(name, build() -> base operator, dense base matrix, hook kind or None, factor sizes)."""
    from linear_operator.operators import (AddedDiagLinearOperator, DenseLinearOperator, DiagLinearOperator,
                                           KroneckerProductLinearOperator, ToeplitzLinearOperator)
    batch = tuple(batch)
    A = C.psd_int(rng, batch, 3, dtype)
    K1, K2 = C.psd_int(rng, batch, 2, dtype), C.psd_int(rng, batch, 3, dtype)
    for _ in range(60):
        col = torch.cat([C.ri(rng, (*batch, 1), 5, 7, dtype), C.ri(rng, (*batch, 2), -1, 1, dtype)], -1)
        T = ToeplitzLinearOperator(col).to_dense()
        if _gap_ok(T, thr=0.03):
            break
    for _ in range(60):
        B, d = C.psd_int(rng, batch, 3, dtype), C.ri(rng, (*batch, 3), 1, 4, dtype)
        if _gap_ok(B + torch.diag_embed(d), thr=0.03):
            break
    kd = torch.stack([torch.kron(a, b) for a, b in zip(K1.reshape(-1, 2, 2), K2.reshape(-1, 3, 3))]).reshape(*batch, 6, 6)
    for _ in range(60):
        if _gap_ok(kd, thr=0.02):
            break
        K1, K2 = C.psd_int(rng, batch, 2, dtype), C.psd_int(rng, batch, 3, dtype)
        kd = torch.stack([torch.kron(a, b) for a, b in zip(K1.reshape(-1, 2, 2), K2.reshape(-1, 3, 3))]).reshape(*batch, 6, 6)
    return [
        ("Dense", lambda: DenseLinearOperator(A.clone()), A, "base", [3]),
        ("Kronecker", lambda: KroneckerProductLinearOperator(DenseLinearOperator(K1.clone()), DenseLinearOperator(K2.clone())), kd, "kron", [2, 3]),
        ("Toeplitz", lambda: ToeplitzLinearOperator(col.clone()), T, "base", [3]),
        ("AddedDiag", lambda: AddedDiagLinearOperator(DenseLinearOperator(B.clone()), DiagLinearOperator(d.clone())), B + torch.diag_embed(d), None, [3]),
    ]


def constmul_cells(chk, lines, pending):
    """`ConstantMulLinearOperator.root_inv_decomposition` (override since /repo c4c33aa) and its pairing with the
    `root_decomposition` override.  Positive constants (0-d, and batch constants entered as (b,1,1) through `op * c`):
    R Rᵀ against the dense inverse of c·A (`constMul_rootInv`), R against c^{-1/2}·R₀ of a fresh base (`constMulRoot`),
    outcome string against the Lean selection model (`cmul …` = `constMulDelegate`), memoisation, and
    max|Lᵀ R − I| with the root of the same object (`constMul_roots_paired`).  Negative / mixed-sign constants: the
    base-class path must be taken (outcome string vs model with pos=0; the property demands nothing of a non-PSD operator)."""
    from linear_operator.operators import ConstantMulLinearOperator, RootLinearOperator
    rng = chk.rng
    dtype = torch.float64
    quick = chk.tier == "quick"
    for batch in ((), (2,)):
        bl = "b=" + ("()" if not batch else "(" + ",".join(map(str, batch)) + ",)")
        for bname, build, A, kind, ns in _cmul_bases(rng, dtype, batch):
            N = A.shape[-1]
            consts = [("scalar+", torch.tensor(float(rng.choice((2, 3, 5))), dtype=dtype)),
                      ("scalar-", torch.tensor(-float(rng.choice((2, 3))), dtype=dtype))]
            if batch:
                consts += [("batch+", torch.tensor([float(rng.choice((2, 3))), float(rng.choice((5, 7)))], dtype=dtype)),
                           ("batch±", torch.tensor([float(rng.choice((2, 3))), -float(rng.choice((2, 3)))], dtype=dtype))]
            for cname, cval in consts:
                pos = bool((cval > 0).all())

                def mk(build=build, cval=cval, cname=cname):
                    base = build()
                    if cname.startswith("batch"):
                        op = base * cval.clone().view(-1, 1, 1)            # (b,1,1) constant through LinearOperator.__mul__
                    else:
                        op = ConstantMulLinearOperator(base, cval.clone())
                    if type(op) is not ConstantMulLinearOperator:          # classes with their own _mul_constant (AddedDiag)
                        op = ConstantMulLinearOperator(build(), cval.clone())
                    return op
                cA = A * (cval.view(-1, 1, 1) if cval.dim() else cval)
                methods = CMUL_METHODS if pos else (None, "cholesky", "symeig", "svd")
                for method in methods:
                    grid = [(800, "default")] + ([(0, "0")] if method in (None, "pinverse", "diagonalization") and pos else [])
                    for mcs, ml in grid:
                        if quick and ml == "0" and bname in ("Toeplitz", "AddedDiag") and not batch:
                            continue
                        path = eff_path("rootinv", method, N, mcs, True, bname)
                        cell = f"C06/cmul/{bname}[{bl}]/const={cname}/rootinv:{mstr(method)}/mcs={ml}/path={path}"
                        seed = rng.randrange(2 ** 31)
                        payload = {"cmul": 1, "base": bname, "batch": list(batch), "const": cval.tolist(), "method": method, "mcs": mcs,
                                   "A": A.tolist(), "seed": seed}
                        chk.case(f"{cell} seed={seed} c={cval.tolist()} A={A.flatten().tolist()[:40]}", nontrivial=True)
                        chk.count("cmul:rootinv")
                        chk.count(f"cmul:const={cname}")
                        it = type("It", (), {"build": staticmethod(mk)})
                        r = run_op(it, "rootinv", method, Env(mcs, 100, True, seed))
                        fails = []
                        if pos:
                            if method == "pivoted_cholesky":
                                if r["err"] is None:
                                    fails.append("root_inv_decomposition(method='pivoted_cholesky') did not raise")
                            elif r["err"] is not None:
                                fails.append(f"raised {r['err']}")
                            else:
                                res = r["res"]
                                R = dense_of(res.root)
                                if R.shape[:-2] != cA.shape[:-2] or R.shape[-2] != N:
                                    fails.append(f"inverse root has shape {tuple(R.shape)} for an operator of shape {tuple(cA.shape)}")
                                else:
                                    e = relerr(R @ R.mT, torch.linalg.inv(cA))
                                    lz = any(str(t).startswith("lanczos") for t in (r["log"] or []))   # the log decides the tolerance
                                    tol = tol_for(dtype, "lanczos" if lz else path, inverse=True)
                                    chk.count("cmul:recon")
                                    if not e <= tol:
                                        fails.append(f"R Rᵀ differs from (cA)⁻¹ by {e:.3g} (rel, tol {tol:.1g})")
                                    # model: R = c^{-1/2}·R₀ with R₀ the inverse root of a fresh base (same settings, same torch seed)
                                    r0 = run_op(type("It0", (), {"build": staticmethod(build)}), "rootinv", method, Env(mcs, 100, True, seed))
                                    if r0["err"] is None and not lz and path not in ("lanczos", "pinverse-lanczos"):
                                        R0 = dense_of(r0["res"].root)
                                        sc = (cval.view(-1, 1, 1) if cval.dim() else cval) ** -0.5
                                        em = relerr(R, sc * R0)
                                        chk.count("cmul:scaled-base-root")
                                        if not em <= 1e-12:
                                            fails.append(f"R differs from c^(-1/2)·R₀ (inverse root of the base) by {em:.3g}")
                                    if not isinstance(res, RootLinearOperator):
                                        fails.append(f"result is a {type(res).__name__}, not a RootLinearOperator")
                                    # memoisation: same arguments -> the very same object
                                    op = r["op"]
                                    with Env(mcs, 100, True, seed):
                                        again = op.root_inv_decomposition(method=method) if method is not None else op.root_inv_decomposition()
                                    if again is not res:
                                        fails.append("second call with the same arguments is not served from the cache")
                        if fails:
                            chk.violation(cell, "; ".join(fails)[:400] + f" | c={cval.tolist()} A={A.reshape(-1, N, N)[0].tolist()}", payload)
                        if kind is not None:
                            cok = 1 if pos else 0
                            lines.append(f"cmul rootinv {kind} {int(pos)} {','.join(map(str, ns))} {mcs} 100 1 {mstr(method)} {cok} 000")
                            pending.append((cell, impl_outcome("rootinv", r), bool(fails), payload))
                if not pos:
                    continue
                # pairing with root_decomposition of the same object (both orders of the two calls)
                for mL, mR in CMUL_PAIRS:
                    for order in ("root-first", "rootinv-first"):
                        if quick and order == "rootinv-first" and (mL, mR) not in ((None, None), (None, "pinverse")):
                            continue
                        cell = f"C06/cmul/{bname}[{bl}]/const={cname}/paired/root:{mstr(mL)}+rootinv:{mstr(mR)}/{order}"
                        seed = rng.randrange(2 ** 31)
                        payload = {"cmul": 2, "base": bname, "batch": list(batch), "const": cval.tolist(), "mL": mL, "mR": mR, "order": order,
                                   "A": A.tolist(), "seed": seed}
                        chk.case(f"{cell} seed={seed} c={cval.tolist()} A={A.flatten().tolist()[:40]}", nontrivial=True)
                        chk.count("cmul:paired")
                        try:
                            with Env(800, 100, True, seed):
                                op = mk()
                                fR = lambda: op.root_inv_decomposition(method=mR) if mR is not None else op.root_inv_decomposition()
                                fL = lambda: op.root_decomposition(method=mL) if mL is not None else op.root_decomposition()
                                if order == "root-first":
                                    L, R = fL(), fR()
                                else:
                                    R, L = fR(), fL()
                                L, R = dense_of(L.root), dense_of(R.root)
                        except Exception as e:
                            chk.violation(cell, f"raised {type(e).__name__}: {e}"[:300], payload)
                            continue
                        eye = torch.eye(N, dtype=dtype)
                        if L.shape != R.shape:
                            chk.violation(cell, f"root {tuple(L.shape)} and inverse root {tuple(R.shape)} have different shapes", payload)
                            continue
                        e = float((L.mT @ R - eye).abs().max())
                        e2 = relerr(L @ L.mT, cA)
                        if not (e <= 1e-9 and e2 <= 1e-9):
                            chk.violation(cell, f"max|Lᵀ R − I| = {e:.3g} (root and inverse root of one ConstantMul operator are not mutual "
                                          f"inverses), |L Lᵀ − cA| = {e2:.3g} | c={cval.tolist()} A={A.reshape(-1, N, N)[0].tolist()}", payload)
                        else:
                            chk.traces_validated += 1



def _spec_post_residuals(A, cands, tv):
    """Σ_batch Σ_columns ‖A (R Rᵀ t) − t‖₂ for every candidate, straight from the definition (float64, per member)."""
    P = cands.shape[0]
    n = A.shape[-1]
    Af = A.reshape(-1, n, n)
    tf = tv.reshape(-1, n, tv.shape[-1])
    out = []
    for p in range(P):
        Rf = cands[p].reshape(-1, n, cands.shape[-1])
        tot = 0.0
        for b in range(Af.shape[0]):
            for c in range(tf.shape[-1]):
                t = tf[b][:, c]
                tot += float(torch.linalg.vector_norm(Af[b] @ (Rf[b] @ (Rf[b].T @ t)) - t))
        out.append(tot)
    return out


def postprocess_cells(chk, lines, pending):
    """`root_inv_decomposition(initial_vectors, test_vectors, method="lanczos")` with P > 1 probes
    (`_postprocess_lanczos_root_inv_decomp`): the returned inverse root is one of the P candidates, the one with the
    smallest residual (spec: from the definition; model: Lean `postprocessIndex` on the same candidates), and — when the
    Krylov spaces are complete — an inverse root of A."""
    from linear_operator.operators import DenseLinearOperator, ToeplitzLinearOperator
    rng = chk.rng
    quick = chk.tier == "quick"
    plan = [((), 4, 2, 2), ((), 5, 3, 3), ((2,), 4, 2, 2), ((2,), 4, 3, 1), ((), 4, 2, 3)]
    if not quick:
        plan += [((2,), 5, 3, 3), ((3,), 4, 2, 2), ((2, 1), 4, 2, 2), ((), 6, 4, 4), ((), 5, 2, 1)] * 2
    for batch, n, P, Pt in plan:
        for kind in ("Dense", "Toeplitz"):
            for rl in ("lt", "gt"):
                if kind == "Dense":
                    A = C.psd_int(rng, batch, n, torch.float64)
                    mk = lambda A=A: DenseLinearOperator(A.clone())
                else:
                    col = C.toeplitz_col(rng, (*batch, n), torch.float64)
                    A = C.toeplitz_dense(col)
                    mk = lambda col=col: ToeplitzLinearOperator(col.clone())
                if not _gap_ok(A):
                    chk.count("postprocess:regenerated")
                    continue
                iv = C.ri(rng, (*batch, n, P), -3, 3, torch.float64)
                # initial vectors must be non-zero and pairwise non-parallel (otherwise candidates coincide)
                ivf = iv.reshape(-1, n, P)
                gram = ivf.mT @ ivf
                cos2 = gram ** 2 / (torch.diagonal(gram, dim1=-1, dim2=-2).unsqueeze(-1) * torch.diagonal(gram, dim1=-1, dim2=-2).unsqueeze(-2)).clamp_min(1e-30)
                if bool((torch.diagonal(gram, dim1=-1, dim2=-2) == 0).any()) or bool(((cos2 - torch.eye(P, dtype=torch.float64)).abs().max() > 0.98)):
                    chk.count("postprocess:regenerated")
                    continue
                # no (near) breakdown: every initial vector generates a Krylov space of full dimension min(mrds, n) in its
                # batch member (an initial vector that is an eigenvector makes the coupled multi-column Lanczos loop
                # divide by a vanishing beta for that column: NaN candidates — C09's breakdown subject, not claimed here)
                kdim = min(_mrds(n, rl), n)
                Af_ = A.reshape(-1, n, n)
                krylov_ok = True
                for b_ in range(Af_.shape[0]):
                    for p_ in range(P):
                        cols = [ivf[b_][:, p_]]
                        for _ in range(kdim - 1):
                            cols.append(Af_[b_] @ cols[-1])
                        Km = torch.stack([c_ / c_.norm() for c_ in cols], -1)
                        sv = torch.linalg.svdvals(Km)
                        if float(sv[-1] / sv[0]) < 1e-4:
                            krylov_ok = False
                if not krylov_ok:
                    chk.count("postprocess:regenerated-krylov-breakdown")
                    continue
                tv = C.ri(rng, (*batch, n, Pt), -3, 3, torch.float64)
                if bool((tv.reshape(-1, n, Pt).abs().sum(-2) == 0).any()):
                    chk.count("postprocess:regenerated")
                    continue
                mr = _mrds(n, rl)
                seed = rng.randrange(2 ** 31)
                cell = f"C06/postprocess/{kind}[b={batch}|n={n}]/P={P}/Pt={Pt}/mrds={rl}"
                payload = {"A": A.tolist(), "iv": iv.tolist(), "tv": tv.tolist(), "mrds": mr, "kind": kind}
                chk.case(f"{cell} seed={seed} A={A.flatten().tolist()[:36]} iv={iv.flatten().tolist()[:20]}", nontrivial=True)
                chk.count("postprocess:cases")
                try:
                    with Env(0, mr, True, seed):
                        cands = mk()._root_inv_decomposition(iv.clone())
                    with Env(0, mr, True, seed):
                        res = mk().root_inv_decomposition(initial_vectors=iv.clone(), test_vectors=tv.clone(), method="lanczos")
                        R = dense_of(res.root)
                except Exception as e:
                    chk.violation(cell, f"raised {type(e).__name__}: {e}"[:300] + f" | A={A.tolist()}", payload)
                    continue
                if cands.dim() != len(batch) + 3 or cands.shape[0] != P:
                    chk.corr_break(cell, f"_root_inv_decomposition returned shape {tuple(cands.shape)} for {P} initial vectors", payload)
                    continue
                resid = _spec_post_residuals(A, cands, tv)
                order = sorted(range(P), key=lambda p: (resid[p], p))
                best = order[0]
                margin = (resid[order[1]] - resid[best]) / max(resid[order[1]], 1e-300)
                if resid[order[1]] - resid[best] < 1e-10 * float(tv.abs().sum()):
                    margin = 0.0        # difference at rounding level: the choice is not claimed
                which = [p for p in range(P) if R.shape == cands[p].shape and torch.equal(R, cands[p])]
                bad = []
                if not which:
                    bad.append(f"the returned inverse root (shape {tuple(R.shape)}) is none of the {P} candidates of shape {tuple(cands.shape[1:])}")
                elif margin > 1e-3 and best not in which:
                    bad.append(f"returned candidate {which[0]} with residual {resid[which[0]]:.6g}, but candidate {best} has the smallest residual {resid[best]:.6g} (all: {[round(x, 6) for x in resid]})")
                if rl == "gt" and which:
                    e = relerr(R @ R.mT, torch.linalg.inv(A))
                    if e > 2e-4:
                        bad.append(f"complete Krylov space: R Rᵀ differs from A⁻¹ by {e:.3g}")
                chk.count("postprocess:margin>1e-3" if margin > 1e-3 else "postprocess:margin-small")
                if bad:
                    chk.violation(cell, "; ".join(bad)[:420] + f" | A={A.tolist()} iv={iv.tolist()} tv={tv.tolist()}", payload)
                if which and margin > 1e-6:
                    k = cands.shape[-1]
                    Bn = max(1, int(torch.Size(batch).numel()))
                    mats = [fmt_mat(m.tolist()) for m in A.reshape(-1, n, n)] + [fmt_mat(m.tolist()) for m in tv.reshape(-1, n, Pt)]
                    for p_ in range(P):
                        mats += [fmt_mat(m.tolist()) for m in cands[p_].reshape(-1, n, k)]
                    lines.append(f"post {n} {k} {Pt} {P} {Bn} " + " ".join(mats))
                    pending.append((cell, ("str", str(which[0])), bool(bad), payload))


def translator_crosscheck(chk, facts):
    import linear_operator.operators as O
    from linear_operator import settings
    from linear_operator.operators import LinearOperator
    rt = []
    for name in dir(O):
        k = getattr(O, name)
        if isinstance(k, type) and issubclass(k, LinearOperator) and k is not LinearOperator:
            hooks = [h for h in c06_factor.HOOKS if h in k.__dict__]
            if hooks:
                rt.append((k.__name__, sorted(hooks, key=c06_factor.HOOKS.index)))
    rt = sorted(set((a, tuple(b)) for a, b in rt))
    ex = sorted((a, tuple(b)) for a, b in facts["overrides"] if not a.startswith("_"))
    if rt != ex:
        chk.proof_break("translator(C06Consts.overrides)", f"differs from run-time class dicts: {sorted(set(rt) ^ set(ex))[:6]}")
    s = facts["settings"]
    for nm, key in (("max_cholesky_size", "max_cholesky_size"), ("max_root_decomposition_size", "max_root_decomposition_size"),
                    ("tridiagonal_jitter", "tridiagonal_jitter"), ("cholesky_max_tries", "cholesky_max_tries"),
                    ("preconditioner_tolerance", "preconditioner_tolerance")):
        if s.get(key) is None or abs(float(s[key]) - float(getattr(settings, nm).value())) > 1e-18:
            chk.proof_break("translator(C06Consts.settings)", f"{nm}: extracted {s.get(key)} run-time {getattr(settings, nm).value()}")


def resolve_pending(chk, outs, lines, pending):
    for o, ln, (cell, impl, spec_failed, payload) in zip(outs, lines, pending):
        ok = True
        what = ""
        if isinstance(impl, str):
            ok = (o == impl)
            what = f"line `{ln}`: model `{o}` impl `{impl}`"
        elif impl[0] == "str":
            ok = (o == impl[1])
            what = f"line `{ln}`: model `{o}` impl `{impl[1]}`"
        elif impl[0] == "hist":
            mod = o.split(",")
            obs = impl[1]
            ok = len(mod) == len(obs) and all(b == "?" or (a == b if a.startswith("hit") else b == "new") for a, b in zip(mod, obs))
            what = f"line `{ln}`: model sources {mod} observed {obs} (hit:i = the very object returned by call i)"
        elif impl[0] == "spectrum":
            want = sorted(float(Fraction(x)) for x in o.split(","))
            got = impl[1]
            ok = len(want) == len(got) and all(abs(a - b) <= 3e-5 * max(abs(a), abs(b)) + 1e-12 for a, b in zip(want, got))
            what = f"line `{ln[:80]}`: predicted spectrum {want} observed {got}"
        elif impl[0] == "kron":
            rows = [[float(Fraction(x)) for x in row.split(",")] for row in o.split(";")]
            want = torch.tensor(rows, dtype=torch.float64)
            if impl[2]:
                want = want.T
            got = torch.tensor(impl[1], dtype=torch.float64)
            ok = want.shape == got.shape and torch.equal(want, got)
            what = f"Kronecker Cholesky factor differs from kron of the factors' factors (index order / orientation): model {want.tolist()} impl {got.tolist()}"
            if not ok:
                # the factors L1, L2 are the unique Cholesky factors: this is also a spec failure
                chk.violation(cell, what[:400], payload)
                continue
        elif impl[0] == "svd":
            parts = o.split(" | ")
            def mat(sx):
                return torch.tensor([[float(Fraction(x)) for x in row.split(",")] for row in sx.split(";")], dtype=torch.float64)
            mu, ms, mv = mat(parts[0]), torch.tensor([float(Fraction(x)) for x in parts[1].split(",")], dtype=torch.float64), mat(parts[2])
            ok = torch.equal(mu, torch.tensor(impl[1], dtype=torch.float64)) and torch.equal(ms, torch.tensor(impl[2], dtype=torch.float64)) \
                and torch.equal(mv, torch.tensor(impl[3], dtype=torch.float64))
            what = f"base _svd differs from model on exact data: model {o} impl U={impl[1]} S={impl[2]}"
        if ok:
            chk.traces_validated += 1
        elif not spec_failed:
            chk.corr_break(cell, what[:400], payload)
        else:
            chk.count("corr-skipped-on-violating-cell")


def build_plan(chk):
    """List of (dtype, batch, n, names-or-None, wrap?)"""
    if chk.tier == "quick":
        return [(torch.float64, (), 3, None, True), (torch.float64, (2,), 3, None, False),
                (torch.float32, (2,), 3, {"Dense[psd]", "Kronecker", "BlockDiag", "BatchRepeat", "Diag", "KroneckerAddedDiag[const]", "Chol[lower]", "ConstantMul", "SumKronecker"}, False),
                (torch.float64, (2, 1), 4, {"Dense[psd]", "Kronecker", "BlockInterleaved", "BatchRepeat", "KroneckerAddedDiag[kronconst]", "KroneckerAddedDiag[krondiag]", "SumKronecker", "Toeplitz", "AddedDiag(Toeplitz,ConstantDiag)"}, False)]
    return [(torch.float64, (), 3, None, True), (torch.float64, (2,), 3, None, True), (torch.float64, (2, 3), 3, None, False),
            (torch.float64, (1,), 4, None, False), (torch.float32, (2,), 3, None, False), (torch.float64, (3,), 5, None, False),
            (torch.float32, (), 4, None, False)]


WRAP_BASES = ("Kronecker", "Toeplitz", "KroneckerAddedDiag[const]", "Diag", "Dense[psd]")


def plan_instances(chk, seed, pi, dtype, batch, n, names, do_wrap):
    """Instances of plan entry `pi`; their values depend only on (seed, tier, pi) so that a replay can rebuild them."""
    irng = random.Random(f"C06:{seed}:{chk.tier}:{pi}")
    insts = gather_instances(chk, irng, dtype, batch, n, names)
    if do_wrap:
        for base in list(insts):
            if base.name in WRAP_BASES and (batch or chk.tier != "quick" or base.name in ("Kronecker", "Dense[psd]")):
                insts += wrapped_instances(chk, irng, base, dtype)
    return insts


def run(chk, only=None):
    facts = c06_factor.generate()
    table = facts["overrides"]
    chk.rule = ("catalogue cells: PSD instance (shared catalogue depth 2 + own Kronecker-added-diag / 1x1 / 3-factor instances + "
                "PSD-preserving nestings) × batch × dtype × op(method) × settings (max_cholesky_size ∈ {0,N−1,N,default}, "
                "max_root_decomposition_size ∈ {<N,=N,>N}, fast root on/off); values seed-random integers with separated spectra; "
                "distinct = distinct cell+values; non-trivial = N > 1")
    chk.assumptions += ["torch.linalg.{cholesky_ex,eigh,svd,inv,solve_triangular} meet their contracts (theorem hypotheses)",
                        "float rounding is not modelled: reconstruction compared with tolerances (1e-9 direct f64, 2e-4 Lanczos incl. documented jitter 1e-6, 1e-3 pivoted Cholesky)",
                        "Lanczos cells use instances whose symmetric sub-operators all have relative eigenvalue gaps ≥ 0.012"]
    chk.prove("LinOp.Properties.C06", ["LinOp/C06", "LinOp/Generated/C06Consts.lean", "LinOp/Core/Parse.lean", "LinOp/Core/Basic.lean", "LinOp/Core/Bridge.lean"])
    translator_crosscheck(chk, facts)
    lines, pending = [], []
    exact_cells(chk, lines, pending)
    diag_svd_cells(chk)
    hetero_cells(chk)
    postprocess_cells(chk, lines, pending)
    constmul_cells(chk, lines, pending)
    quick = chk.tier == "quick"
    only = only or os.environ.get("C06_ONLY")          # development aid: restrict to instances whose name contains …
    for pi, (dtype, batch, n, names, do_wrap) in enumerate(build_plan(chk)):
        insts = plan_instances(chk, chk.seed, pi, dtype, batch, n, names, do_wrap)
        if only:
            insts = [it for it in insts if any(s in it.name for s in only.split(";"))]
        for it in insts:
            it.n0, it.plan = n, pi
            N = it.dense.shape[-1]
            if dtype == torch.float64:
                run_histories(chk, it, batch, dtype, table, lines, pending, quick)
            for opname, method in ops_for(it):
                if dtype == torch.float32 and (method in ("lanczos", "pivoted_cholesky") or opname == "pivchol" or opname == "diag" and method == "lanczos"):
                    continue
                for combo in settings_grid(chk, N, opname, method, quick, it):
                    ev = evaluate(chk, it, batch, dtype, opname, method, combo, table, lines, pending)
                    if ev is None:
                        continue
                    r, fails, cell, payload = ev
                    if opname == "rootinv" and it.name.startswith("KroneckerAddedDiag[kron") and r["err"] is None \
                            and method in (None, "lanczos") and combo[3] != "lt" \
                            and eff_path(opname, method, N, combo[0], combo[4], it.name) == "lanczos":
                        d13_lines(chk, it, r, lines, pending, cell, payload, ok_spec=not fails)
    outs = chk.run_driver("C06", lines)
    if outs is not None:
        resolve_pending(chk, outs, lines, pending)


def replay(chk, payload):
    p = payload.get("payload") or {}
    if "inst" not in p:
        print("replay names broken obligations / exact cells only:", json.dumps(p)[:1500])
        return run(chk)
    chk.tier = payload.get("tier", chk.tier)
    seed = payload.get("seed", chk.seed)
    c06_factor.generate()
    found = False
    for pi, (dt, b, n, names, do_wrap) in enumerate(build_plan(chk)):
        if pi != p["plan"]:
            continue
        for it in plan_instances(chk, seed, pi, dt, b, n, names, do_wrap):
            if it.name == p["inst"]:
                mcs, ml, mr, rl, fast = p["combo"]
                N = it.dense.shape[-1]
                path = eff_path(p["op"], p["method"], N, mcs, fast, it.name) if p["op"] in ("root", "rootinv", "diag") else \
                    ("pivoted_cholesky" if p["op"] == "pivchol" else "direct")
                r = run_op(it, p["op"], p["method"], Env(mcs, mr, fast, p["seed"]))
                r["compressible"] = compressible(r.get("op"), c06_factor.generate()["overrides"])
                r["kind"] = hook_kind(r["op"], c06_factor.generate()["overrides"])[0] if r.get("op") is not None else None
                fails = check_result(it, p["op"], p["method"], r, path, mr)
                chk.case(json.dumps(p))
                found = True
                if fails:
                    chk.violation(payload.get("cell", "C06/replay"), "; ".join(fails)[:400], p)
    if not found:
        print("replay: instance not regenerated; running the full check")
        run(chk)
