"""C14 — copies, conversions and rebuilds denote the same matrix with the right dtype."""
import json
import os
import warnings
from collections import OrderedDict

import torch

from ..extract import c14_classes, c14_alloc, c14_shape

F32, F64 = torch.float32, torch.float64
DTN = {torch.float16: "f16", F32: "f32", F64: "f64", torch.int64: "i64", torch.bool: "bool", torch.int32: "i32"}
DTOF = {"f32": F32, "f64": F64}
ATTR_FLAGS = ["upper", "cat_dim", "batch_repeat", "diag_shape", "m", "n", "sizes", "num_outputs_per_input",
              "_batch_shape", "row_eq_col_mask"]


# ----------------------------------------------------------------------------------------------- instances
class Gen:
    """integer-valued tensors derived from a python RNG"""

    def __init__(self, seed, dt):
        self.g = torch.Generator().manual_seed(seed)
        self.dt = dt

    def T(self, *shape, lo=-3, hi=3):
        return torch.randint(lo, hi + 1, tuple(shape), generator=self.g).to(self.dt)

    def P(self, *shape):  # positive
        return torch.randint(1, 4, tuple(shape), generator=self.g).to(self.dt)

    def I(self, *shape, n=3):
        return torch.randint(0, n, tuple(shape), generator=self.g)

    def tri(self, *b, n=3, upper=False):
        t = self.T(*b, n, n)
        t = t.triu() if upper else t.tril()
        d = self.P(*b, n)
        return t - torch.diag_embed(t.diagonal(dim1=-2, dim2=-1)) + torch.diag_embed(d)

    def mask(self, n):
        m = torch.randint(0, 2, (n,), generator=self.g).bool()
        m[int(torch.randint(0, n, (1,), generator=self.g))] = True
        return m

    def perm(self, *b, n=3):
        return torch.argsort(torch.rand(*b, n, generator=self.g), dim=-1)


def covar_lin(x1, x2, scale=None, bias=None, flag=1, task_covar=None, **kw):
    res = x1 @ x2.mT
    if task_covar is not None:  # operator-valued keyword argument
        res = res @ task_covar.to_dense()
    if scale is not None:
        res = res * scale
    if bias is not None:
        res = res + bias.unsqueeze(-1)
    if kw.get("zscale") is not None:
        res = res * kw["zscale"]
    return res * flag


def covar_sel(x1, x2, active_dims=None, keep=None, lengthscale=None, **kw):
    """kernel whose keyword arguments include an int64 index tensor (`active_dims`) and a bool feature mask (`keep`)"""
    if active_dims is not None:
        idx = active_dims.reshape(-1, active_dims.shape[-1])[0]
        x1, x2 = x1[..., idx], x2[..., idx]
    if keep is not None:
        m = keep.reshape(-1, keep.shape[-1])[0].to(x1.dtype)
        x1 = x1 * m
    res = x1 @ x2.mT
    if lengthscale is not None:
        res = res * lengthscale
    return res


def covar_keops(x1, x2, diag=False, **kw):
    if diag:
        return (x1 * x2).sum(-1)
    return x1 @ x2.mT


_USER = {}


def user_wrap_class():
    """A minimal user subclass whose constructor forwards an operator-valued and a tensor-valued keyword argument:
    represents scale * (base + extra_op)."""
    if "cls" in _USER:
        return _USER["cls"]
    from linear_operator.operators import LinearOperator

    class UserWrapLinearOperator(LinearOperator):
        def __init__(self, base, extra_op=None, scale=None, index=None, mask=None):
            super().__init__(base, extra_op=extra_op, scale=scale, index=index, mask=mask)
            self.base, self.extra_op, self.scale, self.index, self.mask = base, extra_op, scale, index, mask

        def _parts(self):
            return [self.base] + ([self.extra_op] if self.extra_op is not None else [])

        def _matmul(self, rhs):
            res = sum(p._matmul(rhs) for p in self._parts())
            if self.index is not None:   # int64 keyword tensor: row permutation
                res = res[..., self.index, :]
            if self.mask is not None:    # bool keyword tensor: row mask
                res = res * self.mask.to(res.dtype).unsqueeze(-1)
            return res if self.scale is None else res * self.scale.unsqueeze(-1).unsqueeze(-1)

        def _size(self):
            return self.base.size()

        def _transpose_nonbatch(self):
            if self.index is not None or self.mask is not None:
                from linear_operator.operators import DenseLinearOperator
                return DenseLinearOperator(self.to_dense().mT)
            return UserWrapLinearOperator(self.base._transpose_nonbatch(),
                                          None if self.extra_op is None else self.extra_op._transpose_nonbatch(), self.scale)

    _USER["cls"] = UserWrapLinearOperator
    return UserWrapLinearOperator


def recipes():
    """name -> builder(g: Gen, b: batch shape tuple) -> LinearOperator.  Names are part of the cell ids."""
    import linear_operator.operators as O
    U = user_wrap_class()
    R = OrderedDict()
    R["Dense"] = lambda g, b: O.DenseLinearOperator(g.T(*b, 3, 3))
    R["DenseRect"] = lambda g, b: O.DenseLinearOperator(g.T(*b, 2, 3))
    R["Diag"] = lambda g, b: O.DiagLinearOperator(g.P(*b, 3))
    R["ConstantDiag"] = lambda g, b: O.ConstantDiagLinearOperator(g.P(*b, 1), diag_shape=3)
    R["Identity"] = lambda g, b: O.IdentityLinearOperator(3, batch_shape=torch.Size(b), dtype=g.dt)
    R["Zero"] = lambda g, b: O.ZeroLinearOperator(*b, 3, 3, dtype=g.dt)
    R["Toeplitz"] = lambda g, b: O.ToeplitzLinearOperator(g.T(*b, 3))
    R["TriL"] = lambda g, b: O.TriangularLinearOperator(g.tri(*b), upper=False)
    R["TriU"] = lambda g, b: O.TriangularLinearOperator(g.tri(*b, upper=True), upper=True)
    R["TriU(TriU)"] = lambda g, b: O.TriangularLinearOperator(O.TriangularLinearOperator(g.tri(*b, upper=True), upper=True), upper=True)
    R["TriL(Toeplitz)"] = lambda g, b: O.TriangularLinearOperator(O.ToeplitzLinearOperator(torch.cat([g.P(*b, 1), 0 * g.T(*b, 2)], -1)))
    R["TriL(Diag)"] = lambda g, b: O.TriangularLinearOperator(O.DiagLinearOperator(g.P(*b, 3)))
    R["CholL"] = lambda g, b: O.CholLinearOperator(O.TriangularLinearOperator(g.tri(*b)), upper=False)
    R["CholU"] = lambda g, b: O.CholLinearOperator(O.TriangularLinearOperator(g.tri(*b, upper=True), upper=True), upper=True)
    R["Root"] = lambda g, b: O.RootLinearOperator(g.T(*b, 3, 2))
    R["LowRankRoot"] = lambda g, b: O.LowRankRootLinearOperator(g.T(*b, 3, 2))
    R["Sum(Dense,Toeplitz)"] = lambda g, b: O.SumLinearOperator(O.DenseLinearOperator(g.T(*b, 3, 3)), O.ToeplitzLinearOperator(g.T(*b, 3)))
    R["Sum(tensor,Diag,Dense)"] = lambda g, b: O.SumLinearOperator(g.T(*b, 3, 3), O.DiagLinearOperator(g.T(*b, 3)), O.DenseLinearOperator(g.T(*b, 3, 3)))
    R["PsdSum(Root,Diag)"] = lambda g, b: O.PsdSumLinearOperator(O.RootLinearOperator(g.T(*b, 3, 2)), O.DiagLinearOperator(g.P(*b, 3)))
    R["Matmul(Dense,Dense)"] = lambda g, b: O.MatmulLinearOperator(O.DenseLinearOperator(g.T(*b, 3, 2)), O.DenseLinearOperator(g.T(*b, 2, 3)))
    R["Matmul(Diag,Toeplitz)"] = lambda g, b: O.MatmulLinearOperator(O.DiagLinearOperator(g.T(*b, 3)), O.ToeplitzLinearOperator(g.T(*b, 3)))
    R["Mul(Root,Root)"] = lambda g, b: O.MulLinearOperator(O.RootLinearOperator(g.T(*b, 3, 2)), O.RootLinearOperator(g.T(*b, 3, 1)))
    R["ConstantMul(Dense)"] = lambda g, b: O.ConstantMulLinearOperator(O.DenseLinearOperator(g.T(*b, 3, 3)), g.T(*b) if b else torch.tensor(2.0, dtype=g.dt))
    R["ConstantMul(Toeplitz)"] = lambda g, b: O.ConstantMulLinearOperator(O.ToeplitzLinearOperator(g.T(*b, 3)), torch.tensor(-2.0, dtype=g.dt))
    R["Kron(Dense,Toeplitz)"] = lambda g, b: O.KroneckerProductLinearOperator(O.DenseLinearOperator(g.T(*b, 2, 2)), O.ToeplitzLinearOperator(g.T(*b, 2)))
    R["Kron(tensor,Dense,Diag)"] = lambda g, b: O.KroneckerProductLinearOperator(g.T(*b, 2, 1), O.DenseLinearOperator(g.T(*b, 1, 2)), O.DiagLinearOperator(g.T(*b, 2)))
    R["KronTriL"] = lambda g, b: O.KroneckerProductTriangularLinearOperator(O.TriangularLinearOperator(g.tri(*b, n=2)), O.TriangularLinearOperator(g.tri(*b, n=2)), upper=False)
    R["KronTriU"] = lambda g, b: O.KroneckerProductTriangularLinearOperator(
        O.TriangularLinearOperator(g.tri(*b, n=2, upper=True), upper=True), O.TriangularLinearOperator(g.tri(*b, n=2, upper=True), upper=True), upper=True)
    R["KronDiag"] = lambda g, b: O.KroneckerProductDiagLinearOperator(O.DiagLinearOperator(g.P(*b, 2)), O.DiagLinearOperator(g.P(*b, 2)))
    R["AddedDiag(Dense,Diag)"] = lambda g, b: O.AddedDiagLinearOperator(O.DenseLinearOperator(g.T(*b, 3, 3)), O.DiagLinearOperator(g.P(*b, 3)))
    R["AddedDiag(ConstantDiag,Toeplitz)"] = lambda g, b: O.AddedDiagLinearOperator(O.ConstantDiagLinearOperator(g.P(*b, 1), diag_shape=3), O.ToeplitzLinearOperator(g.T(*b, 3)))
    R["KronAddedDiag"] = lambda g, b: O.KroneckerProductAddedDiagLinearOperator(
        O.KroneckerProductLinearOperator(O.DenseLinearOperator(g.T(*b, 2, 2)), O.DenseLinearOperator(g.T(*b, 2, 2))), O.DiagLinearOperator(g.P(*b, 4)))
    R["LowRankRootAddedDiag"] = lambda g, b: O.LowRankRootAddedDiagLinearOperator(O.LowRankRootLinearOperator(g.T(*b, 3, 1)), O.DiagLinearOperator(g.P(*b, 3)))
    R["SumKron"] = lambda g, b: O.SumKroneckerLinearOperator(
        O.KroneckerProductLinearOperator(O.DenseLinearOperator(g.T(*b, 2, 2)), O.DenseLinearOperator(g.T(*b, 2, 2))),
        O.KroneckerProductLinearOperator(O.DiagLinearOperator(g.P(*b, 2)), O.DenseLinearOperator(g.T(*b, 2, 2))))
    R["BlockDiag"] = lambda g, b: O.BlockDiagLinearOperator(O.DenseLinearOperator(g.T(*b, 2, 2, 2)))
    R["BlockDiag(dim0)"] = lambda g, b: O.BlockDiagLinearOperator(O.DenseLinearOperator(g.T(2, *b, 2, 2)), block_dim=0)
    R["BlockInterleaved(Toeplitz)"] = lambda g, b: O.BlockInterleavedLinearOperator(O.ToeplitzLinearOperator(g.T(*b, 2, 2)))
    R["SumBatch"] = lambda g, b: O.SumBatchLinearOperator(O.DenseLinearOperator(g.T(*b, 2, 3, 3)))
    R["BatchRepeat(Dense)"] = lambda g, b: O.BatchRepeatLinearOperator(O.DenseLinearOperator(g.T(*b, 3, 3)), batch_repeat=torch.Size((2,) + (1,) * len(b)))
    R["BatchRepeat(Toeplitz).repeat"] = lambda g, b: O.ToeplitzLinearOperator(g.T(*b, 3)).repeat(3, *([1] * len(b)), 1, 1)
    R["Tri(BatchRepeat)"] = lambda g, b: O.TriangularLinearOperator(
        O.BatchRepeatLinearOperator(O.DenseLinearOperator(g.tri(*b, upper=True)), batch_repeat=torch.Size((2,) + (1,) * len(b))), upper=True)
    R["Cat(dim-2)"] = lambda g, b: O.CatLinearOperator(O.DenseLinearOperator(g.T(*b, 2, 3)), O.ToeplitzLinearOperator(g.T(*b, 3)), dim=-2)
    R["Cat(dim-1)"] = lambda g, b: O.CatLinearOperator(O.DenseLinearOperator(g.T(*b, 3, 1)), O.DenseLinearOperator(g.T(*b, 3, 2)), dim=-1)
    R["Cat(posdim)"] = lambda g, b: O.CatLinearOperator(O.DenseLinearOperator(g.T(*b, 1, 3)), O.DenseLinearOperator(g.T(*b, 2, 3)), dim=len(b))
    R["Cat(batchdim)"] = lambda g, b: O.CatLinearOperator(O.DenseLinearOperator(g.T(2, *b, 3, 3)), O.DenseLinearOperator(g.T(1, *b, 3, 3)), dim=0)
    R["Interp"] = lambda g, b: O.InterpolatedLinearOperator(O.DenseLinearOperator(g.T(*b, 3, 3)), g.I(*b, 4, 2), g.T(*b, 4, 2), g.I(*b, 2, 2), g.T(*b, 2, 2))
    R["Interp(defaults)"] = lambda g, b: O.InterpolatedLinearOperator(g.T(*b, 3, 3))
    R["Interp(Toeplitz,left)"] = lambda g, b: O.InterpolatedLinearOperator(O.ToeplitzLinearOperator(g.T(*b, 3)), g.I(*b, 2, 1), g.T(*b, 2, 1))
    R["Masked"] = lambda g, b: O.MaskedLinearOperator(O.DenseLinearOperator(g.T(*b, 3, 3)), g.mask(3), g.mask(3))
    R["Masked(Toeplitz,sym)"] = lambda g, b: (lambda m: O.MaskedLinearOperator(O.ToeplitzLinearOperator(g.T(*b, 3)), m, m))(g.mask(3))
    R["Perm"] = lambda g, b: O.PermutationLinearOperator(g.perm(*b))
    R["TransposePerm"] = lambda g, b: O.TransposePermutationLinearOperator(2)
    R["Kernel"] = lambda g, b: O.KernelLinearOperator(g.T(*b, 3, 2), g.T(*b, 2, 2), covar_func=covar_lin, scale=g.T(*b, 1, 1), flag=2)
    R["Kernel(bias,nb)"] = lambda g, b: O.KernelLinearOperator(g.T(*b, 3, 2), g.T(2, 2), covar_func=covar_lin, bias=g.T(*b, 3),
                                                               scale=g.T(1, 1), num_nonbatch_dimensions={"bias": 1})
    # operator-valued keyword arguments (flatten to >= 2 tensors) next to tensor-valued ones
    R["Kernel(opkw)"] = lambda g, b: O.KernelLinearOperator(
        g.T(*b, 3, 2), g.T(*b, 2, 2), covar_func=covar_lin, scale=g.T(*b, 1, 1),
        task_covar=O.LowRankRootAddedDiagLinearOperator(O.LowRankRootLinearOperator(g.T(2, 1)), O.DiagLinearOperator(g.P(2))))
    R["Kernel(opkw:Sum)"] = lambda g, b: O.KernelLinearOperator(
        g.T(*b, 3, 2), g.T(*b, 2, 2), covar_func=covar_lin, bias=g.T(*b, 3), num_nonbatch_dimensions={"bias": 1},
        task_covar=O.SumLinearOperator(O.DenseLinearOperator(g.T(2, 2)), O.ToeplitzLinearOperator(g.T(2))), zscale=g.T(*b, 1, 1))
    R["UserWrap(Dense,op=Toeplitz,scale)"] = lambda g, b: U(O.DenseLinearOperator(g.T(*b, 3, 3)), extra_op=O.ToeplitzLinearOperator(g.T(*b, 3)), scale=g.T(*b))
    R["UserWrap(Diag,op=Interp)"] = lambda g, b: U(O.DiagLinearOperator(g.T(*b, 3)), extra_op=O.InterpolatedLinearOperator(
        O.DenseLinearOperator(g.T(*b, 3, 3)), g.I(*b, 3, 2), g.T(*b, 3, 2), g.I(*b, 3, 2), g.T(*b, 3, 2)))
    R["UserWrap(Dense,scale)"] = lambda g, b: U(O.DenseLinearOperator(g.T(*b, 3, 3)), scale=g.T(*b))
    R["Sum(UserWrap,Diag)"] = lambda g, b: O.SumLinearOperator(
        U(O.DenseLinearOperator(g.T(*b, 3, 3)), extra_op=O.RootLinearOperator(g.T(*b, 3, 2)), scale=g.T(*b)), O.DiagLinearOperator(g.T(*b, 3)))
    # integer / boolean tensors held as KEYWORD arguments (must never be cast by type/double/float/half/to)
    R["Kernel(intkw)"] = lambda g, b: O.KernelLinearOperator(
        g.T(*b, 3, 3), g.T(*b, 2, 3), covar_func=covar_sel, active_dims=torch.tensor([2, 0]), keep=torch.tensor([True, False]),
        lengthscale=g.T(*b, 1, 1), num_nonbatch_dimensions={"active_dims": 1, "keep": 1})
    R["Kernel(boolkw)"] = lambda g, b: O.KernelLinearOperator(
        g.T(*b, 3, 2), g.T(*b, 3, 2), covar_func=covar_sel, keep=g.mask(2), num_nonbatch_dimensions={"keep": 1})
    R["UserWrap(Dense,index,mask,scale)"] = lambda g, b: U(O.DenseLinearOperator(g.T(*b, 3, 3)), scale=g.T(*b), index=g.perm(), mask=g.mask(3))
    R["UserWrap(Toeplitz,op=Diag,index)"] = lambda g, b: U(O.ToeplitzLinearOperator(g.T(*b, 3)), extra_op=O.DiagLinearOperator(g.T(*b, 3)), index=g.perm())
    R["Sum(Kernel(intkw),Dense)"] = lambda g, b: O.SumLinearOperator(R["Kernel(intkw)"](g, b), O.DenseLinearOperator(g.T(*b, 3, 2)))
    R["Cat(Kernel(intkw),UserWrap(mask))"] = lambda g, b: O.CatLinearOperator(
        O.KernelLinearOperator(g.T(*b, 3, 3), g.T(*b, 3, 3), covar_func=covar_sel, active_dims=torch.tensor([1, 2]), lengthscale=g.T(*b, 1, 1),
                               num_nonbatch_dimensions={"active_dims": 1}),
        U(O.DenseLinearOperator(g.T(*b, 3, 3)), mask=g.mask(3)), dim=-2)
    R["Matmul(Masked,Dense)"] = lambda g, b: O.MatmulLinearOperator(
        O.MaskedLinearOperator(O.DenseLinearOperator(g.T(*b, 3, 3)), g.mask(3), torch.tensor([True, True, True])), O.DenseLinearOperator(g.T(*b, 3, 3)))
    R["KeOps"] = lambda g, b: O.KeOpsLinearOperator(g.T(*b, 3, 2), g.T(*b, 2, 2), covar_keops)
    # nestings
    R["Sum(Interp,Diag)"] = lambda g, b: O.SumLinearOperator(R["Interp"](g, b)[..., :3, :3] if False else O.InterpolatedLinearOperator(
        O.DenseLinearOperator(g.T(*b, 3, 3)), g.I(*b, 3, 2), g.T(*b, 3, 2), g.I(*b, 3, 2), g.T(*b, 3, 2)), O.DiagLinearOperator(g.T(*b, 3)))
    R["AddedDiag(Interp(Toeplitz),Diag)"] = lambda g, b: O.AddedDiagLinearOperator(
        O.InterpolatedLinearOperator(O.ToeplitzLinearOperator(g.T(*b, 3)), g.I(*b, 3, 2), g.T(*b, 3, 2), g.I(*b, 3, 2), g.T(*b, 3, 2)),
        O.DiagLinearOperator(g.P(*b, 3)))
    R["Matmul(Perm,Dense)"] = lambda g, b: O.MatmulLinearOperator(O.PermutationLinearOperator(g.perm(*b)), O.DenseLinearOperator(g.T(*b, 3, 3)))
    R["Matmul(Dense,Perm)"] = lambda g, b: O.MatmulLinearOperator(O.DenseLinearOperator(g.T(*b, 3, 3)), O.PermutationLinearOperator(g.perm(*b)))
    R["Cat(Interp,Masked)"] = lambda g, b: O.CatLinearOperator(
        O.InterpolatedLinearOperator(O.DenseLinearOperator(g.T(*b, 3, 3)), g.I(*b, 2, 1), g.T(*b, 2, 1)),
        O.MaskedLinearOperator(O.DenseLinearOperator(g.T(*b, 3, 3)), torch.tensor([True, False, True]), torch.tensor([True, True, True])), dim=-2)
    R["BatchRepeat(TriU)"] = lambda g, b: O.BatchRepeatLinearOperator(O.TriangularLinearOperator(g.tri(*b, upper=True), upper=True), batch_repeat=torch.Size((2,) + (1,) * len(b)))
    R["Root(Masked)"] = lambda g, b: O.RootLinearOperator(O.MaskedLinearOperator(O.DenseLinearOperator(g.T(*b, 3, 3)), g.mask(3), torch.tensor([True, True, False])))
    R["Sum(CholU,Dense)"] = lambda g, b: O.SumLinearOperator(R["CholU"](g, b), O.DenseLinearOperator(g.T(*b, 3, 3)))
    R["Sum(CholL,Diag)"] = lambda g, b: O.SumLinearOperator(R["CholL"](g, b), O.DiagLinearOperator(g.T(*b, 3)))
    R["ConstantMul(Kron)"] = lambda g, b: O.ConstantMulLinearOperator(R["Kron(Dense,Toeplitz)"](g, b), torch.tensor(3.0, dtype=g.dt))
    R["BlockDiag(Interp)"] = lambda g, b: O.BlockDiagLinearOperator(O.InterpolatedLinearOperator(
        O.DenseLinearOperator(g.T(*b, 2, 2, 2)), g.I(*b, 2, 2, 1, n=2), g.T(*b, 2, 2, 1), g.I(*b, 2, 2, 1, n=2), g.T(*b, 2, 2, 1)))
    R["Sum(Identity,Dense)"] = lambda g, b: O.SumLinearOperator(O.IdentityLinearOperator(3, batch_shape=torch.Size(b), dtype=g.dt), O.DenseLinearOperator(g.T(*b, 3, 3)))
    R["Sum(Dense,Zero)"] = lambda g, b: O.SumLinearOperator(O.DenseLinearOperator(g.T(*b, 3, 3)), O.ZeroLinearOperator(*b, 3, 3, dtype=g.dt))
    R["Matmul(Dense,Zero)"] = lambda g, b: O.MatmulLinearOperator(O.DenseLinearOperator(g.T(*b, 3, 3)), O.ZeroLinearOperator(*b, 3, 3, dtype=g.dt))
    R["BatchRepeat(Zero)"] = lambda g, b: O.BatchRepeatLinearOperator(O.ZeroLinearOperator(*b, 3, 3, dtype=g.dt), batch_repeat=torch.Size((2,) + (1,) * len(b)))
    R["Interp(Zero)"] = lambda g, b: O.InterpolatedLinearOperator(O.ZeroLinearOperator(*b, 3, 3, dtype=g.dt), g.I(*b, 2, 2), g.T(*b, 2, 2), g.I(*b, 2, 2), g.T(*b, 2, 2))
    R["Sum(Interp(Zero),Dense,Zero)"] = lambda g, b: O.SumLinearOperator(
        O.InterpolatedLinearOperator(O.ZeroLinearOperator(*b, 3, 3, dtype=g.dt), g.I(*b, 3, 1), g.T(*b, 3, 1), g.I(*b, 3, 1), g.T(*b, 3, 1)),
        O.DenseLinearOperator(g.T(*b, 3, 3)), O.ZeroLinearOperator(*b, 3, 3, dtype=g.dt))
    R["Kron(Identity,Dense)"] = lambda g, b: O.KroneckerProductLinearOperator(O.IdentityLinearOperator(2, batch_shape=torch.Size(b), dtype=g.dt), O.DenseLinearOperator(g.T(*b, 2, 2)))
    R["Matmul(Kernel,Diag)"] = lambda g, b: O.MatmulLinearOperator(
        O.KernelLinearOperator(g.T(*b, 3, 2), g.T(*b, 3, 2), covar_func=covar_lin, scale=g.T(*b, 1, 1)), O.DiagLinearOperator(g.T(*b, 3)))
    R["Masked(Sum(Diag,Root))"] = lambda g, b: O.MaskedLinearOperator(
        O.SumLinearOperator(O.DiagLinearOperator(g.T(*b, 3)), O.RootLinearOperator(g.T(*b, 3, 1))), g.mask(3), g.mask(3))
    R["Interp(KronTriU-less:Kron)"] = lambda g, b: O.InterpolatedLinearOperator(
        O.KroneckerProductLinearOperator(O.DenseLinearOperator(g.T(*b, 2, 2)), O.DenseLinearOperator(g.T(*b, 2, 2))), g.I(*b, 3, 2, n=4), g.T(*b, 3, 2))
    return R


def random_nesting(rng, g, b, depth, top=True):
    """seed-random nesting over square 3x3 operators (thorough tier).  Shape-changing wrappers (Cat, BatchRepeat)
    are only applied at the top level so that every inner operator stays `*b x 3 x 3`."""
    import linear_operator.operators as O
    R = recipes()
    base = ["Dense", "Diag", "ConstantDiag", "Toeplitz", "TriL", "TriU", "CholL", "Identity", "Root", "Kernel3"]
    if top:
        w = rng.choice(["none", "none", "Cat", "BatchRepeat"])
        n1, x = random_nesting(rng, g, b, depth, top=False)
        if w == "Cat":
            n2, y = random_nesting(rng, g, b, max(depth - 1, 0), top=False)
            return f"Cat({n1},{n2})", O.CatLinearOperator(x, y, dim=rng.choice([-1, -2]))
        if w == "BatchRepeat" and not isinstance(x, O.BatchRepeatLinearOperator):
            return f"BatchRepeat({n1})", O.BatchRepeatLinearOperator(x, batch_repeat=torch.Size((2,) + (1,) * len(b)))
        return n1, x
    if depth == 0:
        name = rng.choice(base)
        if name == "Kernel3":
            return name, O.KernelLinearOperator(g.T(*b, 3, 2), g.T(*b, 3, 2), covar_func=covar_lin, scale=g.T(*b, 1, 1))
        return name, R[name](g, b)
    k = rng.choice(["Sum", "Matmul", "ConstantMul", "Interp", "Masked", "AddedDiag", "Root", "PsdSum"])
    n1, x = random_nesting(rng, g, b, depth - 1, top=False)
    if k in ("Sum", "PsdSum"):
        n2, y = random_nesting(rng, g, b, depth - 1, top=False)
        return f"{k}({n1},{n2})", (O.SumLinearOperator if k == "Sum" else O.PsdSumLinearOperator)(x, y)
    if k == "Matmul":
        n2, y = random_nesting(rng, g, b, depth - 1, top=False)
        return f"Matmul({n1},{n2})", O.MatmulLinearOperator(x, y)
    if k == "ConstantMul":
        return f"ConstantMul({n1})", O.ConstantMulLinearOperator(x, torch.tensor(2.0, dtype=g.dt))
    if k == "Interp":
        return f"Interp({n1})", O.InterpolatedLinearOperator(x, g.I(*b, 3, 2), g.T(*b, 3, 2), g.I(*b, 3, 2), g.T(*b, 3, 2))
    if k == "Masked":
        m = torch.tensor([True, True, True])
        return f"Masked({n1})", O.MaskedLinearOperator(x, m, m)
    if k == "AddedDiag":
        if isinstance(x, O.DiagLinearOperator):
            return n1, x
        return f"AddedDiag({n1},Diag)", O.AddedDiagLinearOperator(x, O.DiagLinearOperator(g.P(*b, 3)))
    return f"Root({n1})", O.RootLinearOperator(x)


# ----------------------------------------------------------------------------------------------- encoding
class Enc:
    """canonical protocol encoding of a real operator (same text as the Lean driver prints)"""

    def __init__(self, layouts):
        self.hidden = {L["name"]: [h for h, _ in L["hidden"]] for L in layouts}
        self.hidden_default = {(L["name"], h): self.val_of_default(d) for L in layouts for h, d in L["hidden"]}
        self.nondefault = False

    @staticmethod
    def is_op(x):
        from linear_operator.operators import LinearOperator
        return isinstance(x, LinearOperator)

    @staticmethod
    def val_of_default(d):
        k = d[0]
        return {"none": "n", "bool": "b:1" if len(d) > 1 and d[1] else "b:0", "int": f"i:{d[1] if len(d) > 1 else 0}"}.get(k, "s:?")

    def val(self, v):
        if v is None:
            return "n"
        if isinstance(v, bool):
            return "b:1" if v else "b:0"
        if isinstance(v, int):
            return f"i:{v}"
        if isinstance(v, torch.dtype):
            return "d:" + DTN.get(v, "other")
        if isinstance(v, torch.device):
            return "n" if v.type == "cpu" else "s:" + v.type
        if isinstance(v, (tuple, list, torch.Size)) and all(isinstance(i, int) and not isinstance(i, bool) for i in v):
            return "l:" + (".".join(str(i) for i in v) if len(v) else "-")
        if callable(v) and hasattr(v, "__name__"):
            return "s:fn_" + v.__name__
        if isinstance(v, dict):
            return "s:dict"
        return "s:" + repr(v).replace(" ", "")

    def leaves(self, o, out=None):
        out = [] if out is None else out
        for a in list(o._args) + list(o._differentiable_kwargs.values()):
            if torch.is_tensor(a):
                out.append(a)
            elif self.is_op(a):
                self.leaves(a, out)
        return out

    def ref_ids(self, o):
        ids, lst = {}, []
        for t in self.leaves(o):
            p = t.untyped_storage().data_ptr() if t.numel() or True else 0
            if p not in ids:
                ids[p] = len(ids)
            lst.append(ids[p])
        return ids, lst

    def encode(self, o, ids, pos_ids, counter=None):
        """ids: storage ptr -> id (of the reference operator); pos_ids: ids of the reference leaves by position"""
        counter = counter if counter is not None else [0]
        if torch.is_tensor(o):
            k = counter[0]
            counter[0] += 1
            p = o.untyped_storage().data_ptr()
            if p in ids:
                lid, fresh = ids[p], 0
            else:
                lid, fresh = (pos_ids[k] if k < len(pos_ids) else 999), 1
            sh = ".".join(str(s) for s in o.shape) if o.dim() else "-"
            return f"T {DTN.get(o.dtype, 'other')} {sh} {lid} {fresh} {1 if o.requires_grad else 0}"
        if not self.is_op(o):
            return "V " + self.val(o)
        cls = type(o).__name__
        parts = [f"N {cls} {len(o._args)}"]
        for a in o._args:
            parts.append(self.encode(a, ids, pos_ids, counter))
        dk = o._differentiable_kwargs
        parts.append(str(len(dk)))
        for k, v in dk.items():
            parts.append(k)
            parts.append(self.encode(v, ids, pos_ids, counter))
        nk = sorted(o._nondifferentiable_kwargs.items())
        parts.append(str(len(nk)))
        for k, v in nk:
            parts += [k, self.val(v)]
        hid = self.hidden.get(cls, [])
        parts.append(str(len(hid)))
        for h in hid:
            v = getattr(o, h, getattr(o, "_" + h, None))
            if cls == "ZeroLinearOperator":
                if h == "dtype" and v == torch.get_default_dtype():
                    v = None
                if h == "device" and (v is None or v.type == "cpu"):
                    v = None
            parts += [h, self.val(v)]
            if self.val(v) != self.hidden_default.get((cls, h)):
                self.nondefault = True
        return " ".join(parts)


def flags(o, enc):
    """class / flag tree of an operator (no tensor data): what must survive every copy"""
    if torch.is_tensor(o):
        return ("T", tuple(o.shape), "float" if o.dtype.is_floating_point else DTN.get(o.dtype, str(o.dtype)))
    if not enc.is_op(o):
        return ("V", enc.val(o))
    attrs = []
    for a in ATTR_FLAGS:
        if hasattr(o, a):
            v = getattr(o, a)
            attrs.append((a, tuple(v) if isinstance(v, (list, torch.Size)) else v))
    kw = []
    for k, v in sorted(o._kwargs.items()):
        if k in ("dtype", "device", "output_device"):
            continue
        kw.append((k, flags(v, enc)))
    return (type(o).__name__, tuple(flags(a, enc) for a in o._args), tuple(kw), tuple(attrs))


def first_diff(a, b, path=""):
    if type(a) != type(b) or (isinstance(a, tuple) and len(a) != len(b)):
        return f"{path}: {str(a)[:120]} != {str(b)[:120]}"
    if isinstance(a, tuple):
        for i, (x, y) in enumerate(zip(a, b)):
            d = first_diff(x, y, f"{path}/{a[0] if i and isinstance(a[0], str) else i}")
            if d:
                return d
        return None
    return None if a == b else f"{path}: {a!r} != {b!r}"


# ----------------------------------------------------------------------------------------------- operations
OPS = ["clone", "detach", "cpu", "rebuild", "evaluate_kernel", "rebuild2", "double", "float", "to(f32)", "to(f64)",
       "to(dtype=f32)", "to(tensor:f64)", "type(f32)", "type(f64)", "to(cpu,f64)", "to(cpu)", "half"]


def op_target(opname, src):
    if opname in ("double", "to(f64)", "to(tensor:f64)", "type(f64)", "to(cpu,f64)"):
        return F64
    if opname in ("float", "to(f32)", "to(dtype=f32)", "type(f32)"):
        return F32
    if opname == "half":
        return torch.float16
    return src


def model_cmd(opname):
    if opname in ("clone", "detach"):
        return "conv " + opname
    if opname in ("rebuild", "evaluate_kernel"):
        return "rebuild"
    if opname == "rebuild2":
        return "rebuild2"
    if opname in ("double", "type(f64)"):
        return "conv type:f64"
    if opname in ("float", "type(f32)"):
        return "conv type:f32"
    if opname == "half":
        return "conv type:f16"
    if opname in ("to(f64)", "to(tensor:f64)", "to(cpu,f64)"):
        return "conv to:f64"
    if opname in ("to(f32)", "to(dtype=f32)"):
        return "conv to:f32"
    return None  # cpu: not modelled separately


def apply_op(o, opname, other=None):
    if opname == "clone":
        return o.clone()
    if opname == "detach":
        return o.detach()
    if opname == "cpu":
        return o.cpu()
    if opname == "rebuild":
        return o.representation_tree()(*o.representation())
    if opname == "rebuild2":
        return o.representation_tree()(*other.representation())
    if opname == "evaluate_kernel":
        return o.evaluate_kernel()
    if opname == "double":
        return o.double()
    if opname == "float":
        return o.float()
    if opname == "half":
        return o.half()
    if opname == "to(f32)":
        return o.to(F32)
    if opname == "to(f64)":
        return o.to(F64)
    if opname == "to(dtype=f32)":
        return o.to(dtype=F32)
    if opname == "to(tensor:f64)":
        return o.to(torch.zeros(1, dtype=F64))
    if opname == "to(cpu,f64)":
        return o.to(torch.device("cpu"), F64)
    if opname == "to(cpu)":
        return o.to(torch.device("cpu"))
    if opname == "type(f32)":
        return o.type(F32)
    if opname == "type(f64)":
        return o.type(F64)
    raise KeyError(opname)


def observe(o, dt, g, solve=False):
    """name -> ('ok', dtype name, tensor) | ('exc', exception class name) for every tensor-returning entry point we probe"""
    res = OrderedDict()

    def rec(name, f):
        try:
            with warnings.catch_warnings():
                warnings.simplefilter("ignore")
                v = f()
            if hasattr(v, "to_dense"):
                v = v.to_dense()
            res[name] = ("ok", DTN.get(v.dtype, str(v.dtype)), v)
        except Exception as e:  # noqa
            res[name] = ("exc", type(e).__name__, None)

    n, m = o.shape[-2], o.shape[-1]
    rhs = torch.randint(-2, 3, (m, 2), generator=g).to(dt)
    vec = torch.randint(-2, 3, (m,), generator=g).to(dt)
    lhs = torch.randint(-2, 3, (n, 2), generator=g).to(dt)
    rec("to_dense", lambda: o.to_dense())
    rec("matmul", lambda: o @ rhs)
    rec("matvec", lambda: o @ vec)
    rec("t_matmul", lambda: o.mT @ lhs)
    rec("transpose", lambda: o.mT.to_dense())
    rec("getitem_slice", lambda: o[..., 0:2, :].to_dense())
    rec("getitem_elem", lambda: o[..., 0, m - 1])
    rec("getitem_tensor", lambda: o[..., torch.tensor([0, n - 1]), torch.tensor([m - 1, 0])])
    if o.dim() > 2:
        rec("getitem_batch", lambda: o[0].to_dense())
    rec("unsqueeze", lambda: o.unsqueeze(0).to_dense())
    rec("expand", lambda: o.expand(2, *o.shape).to_dense())
    rec("mul_const", lambda: (o * torch.tensor(2.0, dtype=dt)).to_dense())
    rec("sum_rows", lambda: o.sum(-2))
    if n == m:
        rec("diagonal", lambda: o.diagonal())
        rec("add_jitter", lambda: o.add_jitter(1.0).to_dense())
        rec("add_diagonal", lambda: o.add_diagonal(torch.ones(n, dtype=dt)).to_dense())
        if solve:
            rec("solve", lambda: o.solve(rhs))
    return res


SOLVE_OK = ("Diag", "ConstantDiag", "Identity", "TriL", "TriU", "CholL", "KronDiag", "KronTriL", "TriL(Diag)")
# (Permutation is excluded: its generic `solve` goes through a Cholesky factorisation that only succeeds for the
#  identity permutation, so whether it raises would depend on the random values.)


def storages(enc, o):
    res = []
    for t in enc.leaves(o):
        if t.numel():
            st = t.untyped_storage()
            res.append((st.data_ptr(), st.data_ptr() + st.nbytes()))
    return res


def overlap(a, b):
    return any(x0 < y1 and y0 < x1 for x0, x1 in a for y0, y1 in b)


class Case:
    def __init__(self, recipe, b, src, dflt, seed, nest=None):
        self.recipe, self.b, self.src, self.dflt, self.seed, self.nest = recipe, tuple(b), src, dflt, seed, nest

    def payload(self, opname):
        return {"recipe": self.recipe, "batch": list(self.b), "src": DTN[self.src], "default": DTN[self.dflt],
                "seed": self.seed, "op": opname, "nest": self.nest}

    def build(self, R, shift=0):
        g = Gen(self.seed + shift, self.src)
        with warnings.catch_warnings():
            warnings.simplefilter("ignore")
            if self.nest is not None:
                import random
                return random_nesting(random.Random(self.nest[0]), g, self.b, self.nest[1])[1]
            return R[self.recipe](g, self.b)


def bname(b):
    return "b=" + ("x".join(str(i) for i in b) if b else "-")


def _float_leaves(enc, o):
    seen, res = set(), []
    for t in enc.leaves(o):
        if t.dtype.is_floating_point and id(t) not in seen:
            seen.add(id(t))
            res.append(t)
    return res


def rg_patterns(n, rng_pick):
    """initial requires_grad patterns over n distinct floating leaves"""
    pats = [("allF", [False] * n), ("allT", [True] * n)]
    for name, k in (("one0", 0), ("oneLast", n - 1), ("oneK", rng_pick)):
        pats.append((name, [i == k for i in range(n)]))
    for name, k in (("allbut0", 0), ("allbutK", rng_pick)):
        pats.append((name, [i != k for i in range(n)]))
    out, seen = [], set()
    for name, p in pats:
        if tuple(p) not in seen:
            seen.add(tuple(p))
            out.append((name, p))
    return out


def rg_histories(chk, enc, R, case, base_cell, cfgs, lines, expect):
    """requires_grad_ histories: initial flag pattern x target value, on operators that hold sub-operators.
    Every floating leaf must end with the requested flag, integer / boolean leaves stay False, and after
    requires_grad_(True) a backward pass through `op @ rhs` reaches every floating leaf that the dense path reaches."""
    o0 = case.build(R)
    if not any(enc.is_op(a) for a in list(o0._args) + list(o0._kwargs.values())):
        return
    n = len(_float_leaves(enc, o0))
    if n < 2:
        return
    pick = case.seed % n
    for pname, pat in rg_patterns(n, pick):
        for target in (True, False):
            o = case.build(R)
            fl = _float_leaves(enc, o)
            if len(fl) != n:
                return
            cell = f"{base_cell}/requires_grad_[{pname}->{int(target)}]"
            pl = dict(case.payload("requires_grad_"), pattern=pname, target=target)
            try:
                for t, f in zip(fl, pat):
                    t.requires_grad_(f)
            except RuntimeError:
                chk.count("rg-history-not-settable")
                return
            ids, pos = enc.ref_ids(o)
            before = enc.encode(o, ids, pos)
            chk.case(f"{case.recipe}|{case.b}|{cfgs}|rg-history|{pname}|{target}|{case.seed}")
            chk.count("rg-history")
            try:
                o.requires_grad_(target)
            except Exception as e:  # noqa
                chk.violation(cell + "/raises", f"{cfgs}: requires_grad_({target}) raised {type(e).__name__}: {str(e)[:120]}", pl)
                continue
            lv = enc.leaves(o)
            bad = [i for i, t in enumerate(lv) if t.requires_grad != (target and t.dtype.is_floating_point)]
            ok = not bad
            if bad:
                t = lv[bad[0]]
                chk.violation(cell + "/rg", f"{cfgs}: initial flags {pat}: after requires_grad_({target}) tensor #{bad[0]} ({t.dtype}, "
                              f"shape {tuple(t.shape)}) has requires_grad={t.requires_grad}", pl)
            if o.requires_grad != bool(target and any(t.dtype.is_floating_point for t in lv)):
                ok = False
                chk.violation(cell + "/rg", f"{cfgs}: requires_grad property is {o.requires_grad} after requires_grad_({target})", pl)
            lines.append(f"setrg {int(target)} {before}")
            expect.append(("str", (enc.encode(o, ids, pos), cell, pl)) if ok else ("skip", None))
            if target and ok and pname in ("allF", "oneK", "one0"):
                # gradient smoke test: after requires_grad_(True) a backward pass through `op @ rhs` (and through the dense
                # form) must reach every floating leaf that it reaches when all flags are switched on by hand
                try:
                    with warnings.catch_warnings():
                        warnings.simplefilter("ignore")
                        ref = case.build(R)
                        rfl = _float_leaves(enc, ref)
                        for t in rfl:
                            t.requires_grad_(True)
                        rhs = torch.ones(o.shape[-1], 2, dtype=fl[0].dtype)
                        ref_g = torch.autograd.grad((ref @ rhs).sum(), rfl, allow_unused=True)
                        op_g = torch.autograd.grad((o @ rhs).sum(), fl, allow_unused=True)
                        ref_d = torch.autograd.grad((ref.to_dense() @ rhs).sum(), rfl, allow_unused=True)
                        op_d = torch.autograd.grad((o.to_dense() @ rhs).sum(), fl, allow_unused=True)
                except Exception:  # noqa: not differentiable along one of the paths (C07's matter)
                    chk.count("rg-grad-not-available")
                    continue
                chk.count("rg-grad-checked")
                for kind, gr, go in (("matmul", ref_g, op_g), ("dense", ref_d, op_d)):
                    for i, (a, c) in enumerate(zip(gr, go)):
                        if (a is None) != (c is None) or (a is not None and not torch.allclose(a, c, atol=1e-3, rtol=1e-4)):
                            chk.violation(cell + "/grad", f"{cfgs}: gradient of floating tensor #{i} through the {kind} path differs from the "
                                          f"gradient obtained with all flags set by hand ({'None' if c is None else 'value'} vs "
                                          f"{'None' if a is None else 'value'})", pl)
                            break


def run_case(chk, enc, R, case, opnames, lines, expect, overridden):
    """All checks of one instance configuration.  Appends model lines; reports impl != spec immediately."""
    prev = torch.get_default_dtype()
    torch.set_default_dtype(case.dflt)
    try:
        o = case.build(R)
        cls = type(o).__name__
        permlike = cls in ("PermutationLinearOperator", "TransposePermutationLinearOperator")
        eff_src = F32 if permlike else case.src   # permutations hold no floating data; their dtype is a fixed float32
        cfgs = f"src={DTN[case.src]},def={DTN[case.dflt]}"
        base_cell = f"C14/{case.recipe}[{bname(case.b)}]"
        ids, pos_ids = enc.ref_ids(o)
        enc.nondefault = False
        enc_o = enc.encode(o, ids, pos_ids)
        hidden_default = not enc.nondefault
        dfl_line = f"default {DTN[case.dflt]}"
        g = torch.Generator().manual_seed(case.seed + 7)
        gstate = g.get_state()
        fl_o = flags(o, enc)
        chk.count("class:" + cls)
        chk.count("batch:" + bname(case.b))
        # dtype of the operator itself and of what it returns (no conversion at all)
        o_dtype = o.dtype
        solve = case.recipe in SOLVE_OK
        obs_o = observe(o, eff_src, g, solve)
        if True:
            if o_dtype != eff_src:
                chk.violation(f"{base_cell}/construct/dtype:attr", f"{cfgs}: operator built from {DTN[case.src]} data reports dtype {o_dtype}", case.payload("construct"))
            for name, (st, d, _) in obs_o.items():
                if st == "ok" and d != DTN[eff_src]:
                    chk.violation(f"{base_cell}/construct/dtype:{name}", f"{cfgs}: {name} of a {DTN[case.src]} operator returned {d}", case.payload("construct"))
        lines.append(dfl_line); expect.append(("ok", None))
        lines.append("normal " + enc_o); expect.append(("normal", (base_cell, case.payload("construct"), "1" if hidden_default else "0")))
        # requires_grad: set on exactly the floating tensors
        o2 = case.build(R)
        ids2, pos2 = enc.ref_ids(o2)
        before2 = enc.encode(o2, ids2, pos2)
        try:
            o2.requires_grad_(True)
            lv = enc.leaves(o2)
            bad = [i for i, t in enumerate(lv) if t.requires_grad != t.dtype.is_floating_point]
            if bad:
                chk.violation(f"{base_cell}/requires_grad_/rg", f"{cfgs}: requires_grad_(True) left leaf {bad[0]} ({lv[bad[0]].dtype}) with requires_grad={lv[bad[0]].requires_grad}", case.payload("requires_grad_"))
            if lv and any(t.dtype.is_floating_point for t in lv) and not o2.requires_grad:
                chk.violation(f"{base_cell}/requires_grad_/rg", f"{cfgs}: requires_grad property False after requires_grad_(True)", case.payload("requires_grad_"))
            lines.append("setrg 1 " + before2); expect.append(("str", (enc.encode(o2, ids2, pos2), base_cell + "/requires_grad_", case.payload("requires_grad_"))))
            rg_src = o2
        except Exception as e:  # noqa
            chk.violation(f"{base_cell}/requires_grad_/raises", f"{cfgs}: requires_grad_(True) raised {type(e).__name__}: {e}", case.payload("requires_grad_"))
            rg_src = None
        chk.case(f"{case.recipe}|{case.b}|{cfgs}|requires_grad_|{case.seed}")
        # the history cells are keyed by (recipe, batch) only — requires_grad propagation does not depend on the source /
        # default dtype — so the quick tier runs them once per (recipe, batch); the thorough tier for every dtype pair
        rg_seen = chk.__dict__.setdefault("_c14_rg_seen", set())
        if chk.tier == "thorough" or base_cell not in rg_seen:
            rg_seen.add(base_cell)
            rg_histories(chk, enc, R, case, base_cell, cfgs, lines, expect)
        other = None
        for opname in opnames:
            tgt = op_target(opname, eff_src)
            cell = f"{base_cell}/{opname}"
            desc = f"{cfgs},tgt={DTN[tgt]}"
            pl = case.payload(opname)
            chk.count("op:" + opname)
            src_op = o
            ref_obs = obs_o
            fl_ref, shape_ref = fl_o, tuple(o.shape)
            if opname == "rebuild2":
                other = case.build(R, shift=1000)
                ref_obs = None
                fl_ref, shape_ref = flags(other, enc), tuple(other.shape)
            use_rg = rg_src is not None and opname in ("clone", "detach", "rebuild", "type(f64)", "to(f32)")
            if use_rg:
                src_op = rg_src
                ids_s, pos_s = ids2, pos2
                enc_s = enc.encode(rg_src, ids2, pos2)
            else:
                ids_s, pos_s, enc_s = ids, pos_ids, enc_o
            representable = True
            try:
                src_op.representation()
            except RuntimeError:
                representable = False
            try:
                with warnings.catch_warnings():
                    warnings.simplefilter("ignore")
                    r = apply_op(src_op, opname, other)
            except Exception as e:  # noqa
                if opname in ("rebuild", "rebuild2", "evaluate_kernel") and not representable:
                    chk.count("unrepresentable")
                    chk.case(f"{case.recipe}|{case.b}|{desc}|{opname}|unrepresentable", nontrivial=False)
                    mc = model_cmd(opname)
                    lines.append(f"{mc} {enc_s}"); expect.append(("str", ("ERR", cell, pl)))
                    continue
                chk.violation(f"{cell}/raises", f"{desc}: {opname} raised {type(e).__name__}: {str(e)[:150]}", pl)
                chk.case(f"{case.recipe}|{case.b}|{desc}|{opname}|raised")
                mc = model_cmd(opname)
                if mc:
                    lines.append(f"{mc} {enc_s}"); expect.append(("raised", (cell, pl)))
                continue
            if o.dtype != o_dtype:
                chk.violation(f"{cell}/mutates-original", f"{desc}: {opname} changed the dtype of the operator it was called on to {o.dtype}", pl)
                mutated = True
            else:
                mutated = False
            nontriv = bool(enc.leaves(o)) or cls in ("IdentityLinearOperator", "ZeroLinearOperator")
            chk.case(f"{case.recipe}|{case.b}|{desc}|{opname}|{case.seed}", nontrivial=nontriv)
            ok = True
            # (a) class / flag tree
            if opname == "evaluate_kernel" and "evaluate_kernel" in overridden.get(cls, []):
                # AddedDiag.evaluate_kernel returns `linear_op + diag`, whose class is chosen by the __add__ dispatch
                # (e.g. Triangular + Diag -> Triangular): only shape, dtype and values are compared below.
                chk.count("evaluate_kernel-override:" + type(r).__name__)
            else:
                d = first_diff(fl_ref, flags(r, enc))
                if d:
                    ok = False
                    chk.violation(f"{cell}/flags", f"{desc}: class/flag tree changed at {d}", pl)
            if tuple(r.shape) != shape_ref:
                ok = False
                chk.violation(f"{cell}/shape", f"{desc}: shape {shape_ref} -> {tuple(r.shape)}", pl)
            # (c) dtype attribute
            if r.dtype != tgt:
                ok = False
                chk.violation(f"{cell}/dtype:attr", f"{desc}: result reports dtype {r.dtype}", pl)
            # (d) index tensors
            lo, lr = enc.leaves(other if opname == "rebuild2" else src_op), enc.leaves(r)
            ek_override = opname == "evaluate_kernel" and "evaluate_kernel" in overridden.get(cls, [])
            if ek_override:
                # `linear_op + diag` may merge or re-arrange tensors (AddedDiag(X, D1) + D2 -> AddedDiag(X, D1 + D2)):
                # no leaf-wise comparison; shape, dtype and values are compared below
                lr = lo
            if len(lo) == len(lr):
                for i, (a, c) in enumerate(zip(lo, lr)):
                    if not a.dtype.is_floating_point:
                        if c.dtype != a.dtype or not torch.equal(a, c):
                            ok = False
                            chk.violation(f"{cell}/index", f"{desc}: integer/bool tensor #{i} {a.dtype} became {c.dtype} or changed values", pl)
                            break
                    elif c.dtype != tgt:
                        ok = False
                        chk.violation(f"{cell}/leafdtype", f"{desc}: floating tensor #{i} has dtype {c.dtype}", pl)
                        break
            else:
                ok = False
                chk.violation(f"{cell}/flags", f"{desc}: number of tensors {len(lo)} -> {len(lr)}", pl)
            # (e) storage
            if opname == "clone" and overlap(storages(enc, src_op), storages(enc, r)):
                ok = False
                chk.violation(f"{cell}/storage", f"{desc}: clone shares storage with the original", pl)
            # (f) requires_grad
            if use_rg and len(lo) == len(lr):
                want = [False] * len(lo) if opname == "detach" else [t.requires_grad for t in lo]
                got = [t.requires_grad for t in lr]
                if want != got:
                    ok = False
                    chk.violation(f"{cell}/rg", f"{desc}: requires_grad of tensors {want} -> {got}", pl)
            # (b,c) values and dtypes of everything returned
            g.set_state(gstate)
            if ref_obs is None:
                ref_obs = observe(other, eff_src, g, solve)
                g.set_state(gstate)
            # half precision: structure / dtype / index-tensor checks only (CPU half arithmetic is not exercised)
            obs_r = OrderedDict() if tgt == torch.float16 else observe(r, tgt, g, solve)
            for name, (st, d, v) in obs_r.items():
                st0, d0, v0 = ref_obs.get(name, ("exc", "missing", None))
                if st == "exc":
                    if st0 == "ok":
                        ok = False
                        chk.violation(f"{cell}/raises:{name}", f"{desc}: {name} raises {d} on the result but not on the original", pl)
                    continue
                if d != DTN[tgt]:
                    ok = False
                    chk.violation(f"{cell}/dtype:{name}", f"{desc}: {name} returned {d}", pl)
                if st0 == "ok" and name in ("to_dense", "matmul", "matvec", "t_matmul", "diagonal", "getitem_slice", "getitem_elem", "transpose"):
                    if v.shape != v0.shape or not torch.allclose(v.to(F64), v0.to(F64), atol=2e-3, rtol=1e-4):
                        ok = False
                        kind = "dense" if name == "to_dense" else "value:" + name
                        chk.violation(f"{cell}/{kind}", f"{desc}: {name} differs from the original (max abs diff "
                                      f"{(v.to(F64) - v0.to(F64)).abs().max().item() if v.shape == v0.shape else 'shape'})", pl)
            # model
            mc = model_cmd(opname)
            if mc is not None and not (opname == "evaluate_kernel" and "evaluate_kernel" in overridden.get(cls, [])):
                if opname == "rebuild2":
                    got = enc.encode(r, {}, [i + 1000 for i in pos_s])
                else:
                    got = enc.encode(r, ids_s, pos_s)
                lines.append(f"{mc} {enc_s}")
                expect.append(("str", (got, cell, pl)) if ok else ("skip", None))
            if mutated:
                o = case.build(R)
                ids, pos_ids = enc.ref_ids(o)
                enc_o = enc.encode(o, ids, pos_ids)
                g.set_state(gstate)
                obs_o = observe(o, eff_src, g, solve)
                fl_o = flags(o, enc)
    finally:
        torch.set_default_dtype(prev)


def compare_model(chk, lines, expect, outs):
    for line, (kind, info), out in zip(lines, expect, outs):
        if kind in ("ok", "skip"):
            continue
        if kind == "normal":
            cell, pl, want = info
            if out != want:
                chk.corr_break(cell + "/model-normal", f"a constructed operator is not in the model's normal form ({out}): {line[:300]}", pl)
            else:
                chk.traces_validated += 1
            continue
        if kind == "raised":
            cell, pl = info
            # the implementation raised (reported as violation unless known); the model must not silently succeed
            # with an index tensor intact: nothing to compare
            continue
        want, cell, pl = info
        if out != want:
            chk.corr_break(cell + "/model", f"model `{out[:400]}` != implementation `{want[:400]}` for `{line[:200]}`", pl)
        else:
            chk.traces_validated += 1


def construct_lines(enc, R):
    """raw constructor calls (un-normalised arguments) -> what the constructor stores; ties `normalise`/`construct`."""
    import linear_operator.operators as O
    g = Gen(5, F32)
    cases = []

    def add(cls, pos, kw, made):
        leaves = []
        for a in list(pos) + [v for _, v in kw]:
            if torch.is_tensor(a):
                leaves.append(a)
            elif enc.is_op(a):
                leaves += enc.leaves(a)
        ids = {}
        for t in leaves:
            ids.setdefault(t.untyped_storage().data_ptr(), len(ids))
        pos_ids = [ids[t.untyped_storage().data_ptr()] for t in leaves]
        ctr = [0]
        ptxt = [enc.encode(a, ids, pos_ids, ctr) for a in pos]
        ktxt = [f"{k} {enc.encode(v, ids, pos_ids, ctr)}" for k, v in kw]
        line = f"construct {cls} {len(pos)} " + " ".join(ptxt) + f" {len(kw)}" + ("" if not ktxt else " " + " ".join(ktxt))
        cases.append((line.replace("  ", " "), enc.encode(made, ids, pos_ids)))

    with warnings.catch_warnings():
        warnings.simplefilter("ignore")
        t = g.tri(upper=True)
        add("TriangularLinearOperator", [t], [("upper", True)], O.TriangularLinearOperator(t, upper=True))
        add("TriangularLinearOperator", [t, True], [], O.TriangularLinearOperator(t, True))
        inner = O.TriangularLinearOperator(t, upper=True)
        add("TriangularLinearOperator", [inner], [], O.TriangularLinearOperator(inner))
        add("CholLinearOperator", [inner, True], [], O.CholLinearOperator(inner, True))
        add("CholLinearOperator", [inner], [("upper", True)], O.CholLinearOperator(inner, upper=True))
        add("RootLinearOperator", [t], [], O.RootLinearOperator(t))
        d = O.DiagLinearOperator(g.P(3))
        add("SumLinearOperator", [t, d], [], O.SumLinearOperator(t, d))
        add("MatmulLinearOperator", [t, d], [], O.MatmulLinearOperator(t, d))
        add("KroneckerProductLinearOperator", [t, d], [], O.KroneckerProductLinearOperator(t, d))
        add("AddedDiagLinearOperator", [O.DenseLinearOperator(t), d], [], O.AddedDiagLinearOperator(O.DenseLinearOperator(t), d))
        a, c = O.DenseLinearOperator(g.T(2, 2, 3)), O.DenseLinearOperator(g.T(2, 1, 3))
        for dim in (1, -2, 0, -3):
            a2 = a if dim in (1, -2) else O.DenseLinearOperator(g.T(2, 2, 3))
            c2 = c if dim in (1, -2) else O.DenseLinearOperator(g.T(1, 2, 3))
            add("CatLinearOperator", [a2, c2], [("dim", dim)], O.CatLinearOperator(a2, c2, dim=dim))
        a3, c3 = O.DenseLinearOperator(g.T(2, 3)), O.DenseLinearOperator(g.T(1, 3))
        add("CatLinearOperator", [a3, c3], [], O.CatLinearOperator(a3, c3))
        dv = g.P(1)
        add("ConstantDiagLinearOperator", [dv, 3], [], O.ConstantDiagLinearOperator(dv, 3))
        add("ConstantDiagLinearOperator", [dv], [("diag_shape", 4)], O.ConstantDiagLinearOperator(dv, diag_shape=4))
        add("IdentityLinearOperator", [3], [], O.IdentityLinearOperator(3))
        add("IdentityLinearOperator", [3, torch.Size([2])], [("dtype", F64)], O.IdentityLinearOperator(3, torch.Size([2]), dtype=F64))
        add("ZeroLinearOperator", [2, 3, 3], [("dtype", F64)], O.ZeroLinearOperator(2, 3, 3, dtype=F64))
        add("ZeroLinearOperator", [3, 3], [], O.ZeroLinearOperator(3, 3))
        p = g.perm()
        ip = torch.argsort(p)
        add("PermutationLinearOperator", [p, ip], [("validate_args", False)], O.PermutationLinearOperator(p, ip, validate_args=False))
        add("TransposePermutationLinearOperator", [2], [], O.TransposePermutationLinearOperator(2))
        b3 = O.DenseLinearOperator(g.T(2, 2, 2))
        add("BlockDiagLinearOperator", [b3], [], O.BlockDiagLinearOperator(b3))
        add("BlockDiagLinearOperator", [b3, -3], [], O.BlockDiagLinearOperator(b3, -3))
        add("SumBatchLinearOperator", [b3], [("block_dim", -3)], O.SumBatchLinearOperator(b3, block_dim=-3))
        add("BatchRepeatLinearOperator", [b3, torch.Size([2])], [], O.BatchRepeatLinearOperator(b3, torch.Size([2])))
        kt1, kt2 = O.TriangularLinearOperator(g.tri(n=2)), O.TriangularLinearOperator(g.tri(n=2))
        add("KroneckerProductTriangularLinearOperator", [kt1, kt2], [("upper", True)], O.KroneckerProductTriangularLinearOperator(kt1, kt2, upper=True))
        x1, x2, sc = g.T(3, 2), g.T(2, 2), g.T(1, 1)
        add("KernelLinearOperator", [x1, x2, covar_lin], [("scale", sc), ("flag", 3)], O.KernelLinearOperator(x1, x2, covar_lin, scale=sc, flag=3))
        add("KernelLinearOperator", [x1, x2], [("covar_func", covar_lin), ("num_outputs_per_input", (1, 1))],
            O.KernelLinearOperator(x1, x2, covar_func=covar_lin, num_outputs_per_input=(1, 1)))
    return cases


def _block_spec(cls, Bd, p):
    """dense value of Block*(base, block_dim=p) computed from the dense base alone (square blocks)"""
    Bm = Bd.movedim(p, -3)
    nb, m = Bm.shape[-3], Bm.shape[-1]
    if cls == "SumBatchLinearOperator":
        return Bm.sum(-3)
    out = torch.zeros(*Bm.shape[:-3], nb * m, nb * m, dtype=Bd.dtype)
    for k in range(nb):
        if cls == "BlockDiagLinearOperator":
            out[..., k * m:(k + 1) * m, k * m:(k + 1) * m] = Bm[..., k, :, :]
        else:
            out[..., k::nb, k::nb] = Bm[..., k, :, :]
    return out


def shape_construct_cases(chk, enc, lines, expect):
    """raw constructor calls whose arguments the constructor *reshapes*: the BatchRepeat unsqueeze loop and the Block*
    block_dim move.  Per call: exact model correspondence of what is stored (`constructS`), constructor idempotence
    `cls(*_args, **_kwargs)` on the implementation (spec) and in the model (`constructS2`), leaf identity (views share
    storage; part of the encoding), and the dense value against a spec computed from the dense base alone."""
    import linear_operator.operators as O
    g = Gen(chk.rng.randrange(2 ** 30), F32)
    D = O.DenseLinearOperator

    def bases(b):
        return OrderedDict([
            ("Dense", lambda: D(g.T(*b, 2, 2))),
            ("Diag", lambda: O.DiagLinearOperator(g.P(*b, 2))),
            ("Tri(Dense)", lambda: O.TriangularLinearOperator(g.tri(*b, n=2))),
            ("Chol(Tri)", lambda: O.CholLinearOperator(O.TriangularLinearOperator(g.tri(*b, n=2)))),
            ("Sum(Dense,Diag)", lambda: O.SumLinearOperator(D(g.T(*b, 2, 2)), O.DiagLinearOperator(g.P(*b, 2)))),
            ("Toeplitz", lambda: O.ToeplitzLinearOperator(g.T(*b, 2))),
            ("Root", lambda: O.RootLinearOperator(g.T(*b, 2, 1))),
            ("AddedDiag(Dense,Diag)", lambda: O.AddedDiagLinearOperator(D(g.T(*b, 2, 2)), O.DiagLinearOperator(g.P(*b, 2)))),
            ("Interp(Dense)", lambda: O.InterpolatedLinearOperator(D(g.T(*b, 3, 3)), g.I(*b, 2, 2), g.P(*b, 2, 2).to(F32),
                                                                    g.I(*b, 2, 2), g.P(*b, 2, 2).to(F32))),
            ("Matmul(Dense,Dense)", lambda: O.MatmulLinearOperator(D(g.T(*b, 2, 2)), D(g.T(*b, 2, 2)))),
            # classes with their own _unsqueeze_batch / _permute_batch: implementation side only (model: outside)
            ("ConstantMul(Dense)", lambda: O.ConstantMulLinearOperator(D(g.T(*b, 2, 2)), g.P(*b))),
            ("Identity", lambda: O.IdentityLinearOperator(2, batch_shape=torch.Size(b))),
            ("Masked(Dense)", lambda: O.MaskedLinearOperator(D(g.T(*b, 3, 3)), torch.tensor([True, False, True]),
                                                             torch.tensor([True, False, True]))),
        ])
    unsq_own = {"ConstantMul(Dense)", "Identity", "Masked(Dense)"}
    perm_own = unsq_own | {"Matmul(Dense,Dense)"}

    def one(cell, cls, pos, kw, spec_dense, modelled):
        pl = {"cell": cell}
        chk.case(cell, nontrivial=True, sample=False)
        chk.count("shape-construct")
        try:
            with warnings.catch_warnings():
                warnings.simplefilter("ignore")
                made = getattr(O, cls)(*pos, **dict(kw))
                again = type(made)(*made._args, **made._kwargs)
                dense = made.to_dense()
                dense2 = again.to_dense()
        except Exception as e:  # noqa
            chk.violation(cell + "/raises:" + type(e).__name__, f"{cls} constructor / rebuild raised {type(e).__name__}: {str(e)[:150]}", pl)
            return
        leaves = []
        for a in list(pos) + [v for _, v in kw]:
            if torch.is_tensor(a):
                leaves.append(a)
            elif enc.is_op(a):
                leaves += enc.leaves(a)
        ids = {}
        for t in leaves:
            ids.setdefault(t.untyped_storage().data_ptr(), len(ids))
        pos_ids = [ids[t.untyped_storage().data_ptr()] for t in leaves]
        ctr = [0]
        ptxt = [enc.encode(a, ids, pos_ids, ctr) for a in pos]
        ktxt = [f"{k} {enc.encode(v, ids, pos_ids, ctr)}" for k, v in kw]
        tail = f"{cls} {len(pos)} " + " ".join(ptxt) + f" {len(kw)}" + ("" if not ktxt else " " + " ".join(ktxt))
        e1, e2 = enc.encode(made, ids, pos_ids), enc.encode(again, ids, pos_ids)
        # spec: the constructor is idempotent on what it stored (every copy / rebuild relies on it)
        if e1 != e2:
            chk.violation(cell + "/idempotent", f"{cls}(*_args, **_kwargs) differs from the operator: {first_diff(tuple(e1.split()), tuple(e2.split()))}", pl)
        # spec: every stored tensor is a view of an argument tensor (no copy, no cast)
        if " 999 1 " in e1 or any(tok == "other" for tok in e1.split()):
            chk.violation(cell + "/leaf-identity", f"constructor copied or cast a tensor: {e1[:300]}", pl)
        if tuple(dense.shape) != tuple(spec_dense.shape) or dense.dtype != spec_dense.dtype or not torch.equal(dense, spec_dense):
            chk.violation(cell + "/dense", f"dense value of {cls}(...) differs from the spec computed from the dense base: "
                          f"shape {tuple(dense.shape)} vs {tuple(spec_dense.shape)}", pl)
        elif not torch.equal(dense2, spec_dense):
            chk.violation(cell + "/dense-rebuilt", f"dense value of {cls}(*_args, **_kwargs) differs from the spec", pl)
        if modelled:
            for cmd, want in (("constructS", e1), ("constructS2", e2)):
                line = (cmd + " " + tail).replace("  ", " ")
                lines.append(line)
                expect.append(("str", (want, cell + "/" + cmd, {"line": line, "cell": cell})))

    # --- BatchRepeat: for _ in range(len(batch_repeat) + 2 - base.dim()): base = base.unsqueeze(0)
    for b in [(), (2,), (1, 2)]:
        for bname_, mk in bases(b).items():
            for rep in [(2,), (2, 3), (1, 2, 2)]:
                for how in ("kw", "pos"):
                    if len(rep) < len(b) or (how == "pos" and len(rep) != 2):
                        continue
                    base = mk()
                    r = torch.Size(rep)
                    pos, kw = ([base], [("batch_repeat", r)]) if how == "kw" else ([base, r], [])
                    cell = f"C14/constructS/BatchRepeat({bname_})[{bname(b)}|repeat={len(rep)}d|{how}]"
                    spec = base.to_dense().repeat(*rep, 1, 1)
                    one(cell, "BatchRepeatLinearOperator", pos, kw, spec, bname_ not in unsq_own)
    # --- Block*: block_dim made negative; != -3 -> base._permute_batch(moves the block dimension last)
    for b in [(3,), (2, 3), (2, 3, 2)]:
        for bname_, mk in bases(b).items():
            if bname_ in ("Interp(Dense)", "Masked(Dense)", "Root"):
                continue   # rectangular / non-square blocks keep the spec simple: skipped
            for cls in ("BlockDiagLinearOperator", "BlockInterleavedLinearOperator", "SumBatchLinearOperator"):
                nd = len(b) + 2
                if cls == "BlockDiagLinearOperator" and bname_ in ("Diag", "Identity"):
                    continue   # BlockDiagLinearOperator.__new__ collapses a DiagLinearOperator base into a Diag (other class, documented NotImplementedError for block_dim != -3): not a constructor normalisation of this model
                for bd, how in [(None, "default")] + [(x, h) for x in range(-nd, nd - 2) if x < -2 or x >= 0 for h in ("kw", "pos")]:
                    if how == "pos" and (bd + nd) % 2 == 1:
                        continue   # halve the positional variants
                    base = mk()
                    pos, kw = ([base], []) if bd is None else (([base], [("block_dim", bd)]) if how == "kw" else ([base, bd], []))
                    eff = -3 if bd is None else bd
                    p = eff + nd if eff < 0 else eff
                    kind = "last" if p == nd - 3 else "move"
                    cell = f"C14/constructS/{cls[:-14]}({bname_})[{bname(b)}|block_dim={'default' if bd is None else bd}|{how}|{kind}]"
                    spec = _block_spec(cls, base.to_dense(), p)
                    one(cell, cls, pos, kw, spec, not (kind == "move" and bname_ in perm_own))


def shape_translator_crosscheck(chk, owners):
    import linear_operator.operators as O
    for c, u, p, e in owners:
        cls = getattr(O, c, None)
        if cls is None:
            continue
        for m, want in (("_unsqueeze_batch", u), ("_permute_batch", p), ("_expand_batch", e)):
            got = getattr(cls, m).__qualname__.split(".")[0]
            if got != want:
                chk.proof_break("translator(C14Shape)", f"{c}.{m} resolves to {got} at run time, translator says {want}")


# ----------------------------------------------------------------------------------------------- entry points
def translator_crosscheck(chk, layouts, mros):
    import inspect
    import linear_operator.operators as O
    for L in layouts:
        cls = getattr(O, L["name"], None)
        if cls is None:
            continue
        known = set(mros[L["name"]])
        rt = [k.__name__ for k in cls.__mro__ if k.__name__ in known]
        st = [k for k in mros[L["name"]] if k in [c.__name__ for c in cls.__mro__]]
        if rt != st:
            chk.proof_break("translator(C14Classes)", f"MRO of {L['name']} differs at run time: {rt} vs {st}")
        try:
            sig = inspect.signature(cls.__init__)
        except (TypeError, ValueError):
            continue
        if L["name"] == "BlockDiagLinearOperator":
            pass
        pos = [p.name for p in sig.parameters.values() if p.kind in (p.POSITIONAL_ONLY, p.POSITIONAL_OR_KEYWORD)][1:]
        if pos != L["posNames"]:
            chk.proof_break("translator(C14Classes)", f"signature of {L['name']} differs at run time: {pos} vs {L['posNames']}")
        has_var = any(p.kind == p.VAR_POSITIONAL for p in sig.parameters.values())
        if has_var != bool(L["sig_vararg"]):
            chk.proof_break("translator(C14Classes)", f"*args of {L['name']} differs at run time")
    names = {n for n in dir(O) if n.endswith("LinearOperator") and isinstance(getattr(O, n), type)} - {"LinearOperator", "BlockLinearOperator"}
    missing = names - {L["name"] for L in layouts}
    if missing:
        chk.proof_break("translator(C14Classes)", f"exported classes without a layout: {sorted(missing)}")


def run(chk):
    torch.set_num_threads(2)
    layouts, issues, mros = c14_classes.generate()
    sites = c14_alloc.generate()
    owners, _pinned = c14_shape.generate()
    chk.rule = ("every operator class and fixed nestings (recipes; thorough adds seed-random nestings of depth <= 3) x batch shapes "
                "x source dtype {f32,f64} x torch default dtype {f32,f64} x {clone, detach, cpu, rebuild, rebuild with other tensors, "
                "evaluate_kernel, double, float, to(dtype/kw/tensor/device+dtype), type}; integer-valued data; distinct = distinct "
                "(recipe, batch, dtypes, operation, seed); non-trivial = operator holds at least one tensor or a dtype field")
    chk.assumptions += ["torch tensor semantics of clone/detach/to (same-dtype `to` returns the same tensor)",
                        "dense value of the *original* operator is the reference (C01 covers its correctness)",
                        "CPU only: device moves are outside the check"]
    chk.prove("LinOp.Properties.C14", ["LinOp/C14", "LinOp/Generated/C14Classes.lean", "LinOp/Generated/C14Alloc.lean",
                                       "LinOp/Generated/C14Shape.lean"])
    translator_crosscheck(chk, layouts, mros)
    shape_translator_crosscheck(chk, owners)
    c14_alloc.crosscheck(chk, sites)
    enc = Enc(layouts)
    overridden = {L["name"]: L["overrides"] for L in layouts}
    R = recipes()
    thorough = chk.tier == "thorough"
    batches_all = [(), (2,), (2, 1), (1, 2)]
    lines, expect = [], []
    seen_cls = set()
    only = os.environ.get("VERIF_C14_FILTER")  # development only: restrict the recipes (seeded-change experiments)
    for ri, name in enumerate(R):
        if only and not any(o in name for o in only.split("|")):
            continue
        extra = chk.rng.choice(batches_all[1:])
        bs = batches_all if thorough else [(), extra]
        for b in bs:
            for src in (F32, F64):
                for dflt in (F32, F64):
                    if not thorough and b != () and src == dflt and chk.rng.random() < 0.5:
                        continue
                    seeds = [chk.rng.randrange(2 ** 30) for _ in range(2 if (thorough and b == ()) else 1)]
                    for seed in seeds:
                        case = Case(name, b, src, dflt, seed)
                        try:
                            case.build(R)
                        except Exception as e:  # noqa: recipe not constructible for this batch shape -> not a C14 matter
                            chk.count("recipe-not-constructible")
                            chk.extra.setdefault("not_constructible", []).append(f"{name}{list(b)}: {type(e).__name__}: {str(e)[:80]}")
                            continue
                        run_case(chk, enc, R, case, OPS, lines, expect, overridden)
    if thorough:
        for i in range(0 if only else 120):
            nest = (chk.rng.randrange(2 ** 30), chk.rng.choice([1, 2, 2, 3]))
            b = chk.rng.choice(batches_all[:3])
            src, dflt = chk.rng.choice([F32, F64]), chk.rng.choice([F32, F64])
            case = Case("nest", b, src, dflt, chk.rng.randrange(2 ** 30), nest=nest)
            try:
                import random
                nm = random_nesting(random.Random(nest[0]), Gen(1, src), b, nest[1])[0]
            except Exception:  # noqa
                chk.count("recipe-not-constructible")
                continue
            case.recipe = "nest:" + nm
            try:
                o = case.build(R)
                o.to_dense()
                (o @ torch.ones(o.shape[-1], 1, dtype=src)).shape
            except Exception:  # noqa: the random generator produced an operator the library cannot evaluate at all
                chk.count("nest-not-evaluable")
                continue
            chk.count("nest-depth:%d" % nest[1])
            run_case(chk, enc, R, case, OPS, lines, expect, overridden)
    for line, want in construct_lines(enc, R):
        lines.append(line)
        expect.append(("str", (want, "C14/construct", {"line": line})))
        chk.case(line, nontrivial=True, sample=False)
        chk.count("construct-lines")
    if not only or "constructS" in only:
        shape_construct_cases(chk, enc, lines, expect)
    if not only or "constructB" in only:
        import sys
        from . import c14_bcast
        c14_bcast.bcast_construct_cases(chk, enc, lines, expect, sys.modules[__name__], thorough)
    outs = chk.run_driver("C14", lines)
    if outs is not None:
        compare_model(chk, lines, expect, outs)
    chk.extra["model_lines"] = len(lines)


def replay(chk, payload):
    pl = payload.get("payload") or {}
    if "recipe" not in pl:
        print("replay names broken obligations / model lines only:", json.dumps(pl)[:2000])
        return run(chk)
    layouts, _, _ = c14_classes.generate()
    enc = Enc(layouts)
    overridden = {L["name"]: L["overrides"] for L in layouts}
    R = recipes()
    nest = tuple(pl["nest"]) if pl.get("nest") else None
    case = Case(pl["recipe"], tuple(pl["batch"]), DTOF[pl["src"]], DTOF[pl["default"]], pl["seed"], nest=nest)
    ops = OPS if pl["op"] in ("construct", "requires_grad_") else [pl["op"]]
    lines, expect = [], []
    run_case(chk, enc, R, case, ops, lines, expect, overridden)
    outs = chk.run_driver("C14", lines)
    if outs is not None:
        compare_model(chk, lines, expect, outs)
