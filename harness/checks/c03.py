"""C03 — indexing and diagonal extraction match torch indexing of the dense matrix.

Implementation side: every operator class (and depth-2 nestings) x batch shapes (), (2,), (2,3) x the index
language of the property in every position x debug on/off:  op[idx] (densified) vs op.to_dense()[idx];
op.diagonal() vs the dense diagonal.  Model side: the Lean spec of torch indexing (shape + element map), the
Lean model of the library's index helpers and per-class index arithmetic are run on the same inputs through
the driver and compared with torch / with the library's own helper functions."""
import json
import re

import torch

from ..extract import c03_catalogue as C
from ..extract import c03_getitem
from ..extract import c03_lean
from ..extract import c03_opv
from ..extract import c03_slicepath

UNSUP = re.compile(r"not (currently )?supported|does not support|does not accept|unsupported", re.I)
INTK = ("int", "negint", "t0", "t0neg")
TENS = ("t1", "t1neg", "list", "listneg", "t2")
SLK = ("full", "slice", "sliceneg", "step2", "step3", "over", "stopsize")
BATCHES = [(), (2,), (2, 3)]


# ----------------------------------------------------------------------------------------------
# evaluation of one case on the implementation


def evaluate(op, dense, idx, debug):
    """-> ("ok",) | ("unsupported", exc, msg) | ("viol", failkind, detail)"""
    from linear_operator import settings
    from linear_operator.operators import LinearOperator
    exp = dense[idx]
    try:
        with settings.debug(debug):
            res = op[idx]
            resop = res if isinstance(res, LinearOperator) else None
            if isinstance(res, LinearOperator):
                res = res.to_dense()
    except Exception as e:  # noqa
        msg = str(e)
        if isinstance(e, NotImplementedError) or (isinstance(e, (RuntimeError, TypeError)) and UNSUP.search(msg)):
            return ("unsupported", type(e).__name__, msg[:80])
        kind = type(e).__name__
        if isinstance(e, RuntimeError) and "__getitem__ failed! Expected a final shape" in msg:
            kind = "DebugShapeAssert"
        return ("viol", "raise:" + kind, msg[:200])
    if not torch.is_tensor(res):
        return ("viol", "type", str(type(res)))
    if tuple(res.shape) != tuple(exp.shape):
        return ("viol", "shape", f"got {tuple(res.shape)} want {tuple(exp.shape)}")
    if not torch.allclose(res.to(exp.dtype), exp, rtol=0, atol=1e-6):
        return ("viol", "value", f"max diff {(res.to(exp.dtype) - exp).abs().max().item():g}")
    # second step: the RESULT operator's own diagonal()/_diagonal() (class-specific fast paths of the result classes)
    if resop is not None and exp.dim() >= 2 and exp.shape[-1] == exp.shape[-2]:
        want = exp.diagonal(dim1=-2, dim2=-1)
        for lab in ("diagonal", "_diagonal"):
            try:
                with settings.debug(debug):
                    got = getattr(resop, lab)()
            except NotImplementedError:
                break
            except Exception as e:  # noqa
                return ("viol", "result-" + lab + "-raise:" + type(e).__name__, f"{type(resop).__name__}: {str(e)[:150]}")
            if tuple(got.shape) != tuple(want.shape) or not torch.allclose(got.to(want.dtype), want, rtol=0, atol=1e-6):
                return ("viol", "result-" + lab, f"{type(resop).__name__}.{lab}() = {got.tolist()} want {want.tolist()}")
        return ("ok", "twostep")
    return ("ok",)


def norm_kinds(kinds, d):
    ks = list(kinds)
    if "ell" in ks:
        i = ks.index("ell")
        ks = ks[:i] + ["full"] * (d - (len(ks) - 1)) + ks[i + 1:]
    ks += ["full"] * (d - len(ks))
    return ks


def norm_index(idx, d):
    """ellipsis fill + padding (what torch and the library both do) — used for tag computation only"""
    idx = list(idx)
    for i, it in enumerate(idx):
        if it is Ellipsis:
            idx = idx[:i] + [slice(None)] * (d - (len(idx) - 1)) + idx[i + 1:]
            break
    idx += [slice(None)] * (d - len(idx))
    return idx


def concrete(rng, kinds, shape):
    d = len(shape)
    L = rng.choice([2, 3])
    a, b = rng.choice([2, 3]), L
    t2shapes = [(a, b), (a, 1), (1, b), (a, b)]
    rng.shuffle(t2shapes)
    idx, pos, t2c = [], 0, 0
    for k in kinds:
        if k == "ell":
            idx.append(Ellipsis)
            pos += d - (len(kinds) - 1)
            continue
        n = shape[pos]
        if k == "t2":
            it = C.gen_item(rng, k, n, L, t2shapes[t2c % 4])
            t2c += 1
        else:
            it = C.gen_item(rng, k, n, L)
        idx.append(it)
        pos += 1
    return tuple(idx)


def _slice_wraps(it, n):
    """True iff `start % n` / `stop % n` differs from Python's clamping (CatLinearOperator._split_slice)."""
    if not isinstance(it, slice):
        return False
    return (it.stop is not None and it.stop >= n) or (it.start is not None and it.start < -n)


def tags(name, meta, nk, nidx, shape):
    """Feature tags of a case: they name the code region / condition, never the random values."""
    d = len(shape)
    B, R, Cc = nk[:-2], nk[-2], nk[-1]
    t = []
    if R in ("negint", "t0neg") or Cc in ("negint", "t0neg"):
        t.append("matneg")
    bt = any(x in TENS for x in B)
    rt, ct = R in TENS, Cc in TENS
    absorbed = (bt and (rt or ct)) or ((not bt) and rt and ct)
    if absorbed:
        t.append("absorbed")
        if R in INTK or Cc in INTK:
            t.append("absint")
        if "t2" in nk:
            seq = "".join("T" if x in TENS else "S" for x in nk if x not in INTK).strip("S")
            moved = (nk[0] in TENS) or ("S" in seq)
            if not moved and Cc not in TENS:
                t.append("t2mid")
    if any(x in ("t1neg", "listneg") for x in nk):
        t.append("negtensor")
    if any(x in ("negint", "t0neg") for x in B):
        t.append("batchneg")
    if "Block" in name:
        rs, cs = R in SLK or R in INTK, Cc in SLK or Cc in INTK
        if rs and cs and not (R == "full" and Cc == "full"):
            t.append("blockslice")
        elif not (R == "full" and Cc == "full"):
            t.append("blocktensor")
    if "Cat(" in name or "CatND(" in name:
        if "cat" in meta:
            cd = meta["cat"][0] + d
        else:
            cd = 0 if meta.get("catbatch") == "b0" else d - 3
        k, it, n = nk[cd], nidx[cd], shape[cd]
        if k in INTK:
            v = int(it)
            if v < 0:
                t.append("catint:neg")
            elif v == n - 1:
                t.append("catint:last")
            else:
                t.append("catint")
        elif k in SLK and k != "full":
            if k.startswith("step"):
                t.append("catslice:step")
            elif _slice_wraps(it, n):
                t.append("catslice:wrap")
            else:
                t.append("catslice")
        elif k in TENS:
            t.append("cat@" + ("t2" if k == "t2" else "tensor"))
            if not absorbed and any(x in TENS for i, x in enumerate(nk) if i != cd):
                t.append("cattmulti")
        if "cat" not in meta and any(x in INTK for x in nk[:cd]) and k not in INTK:
            t.append("catleftint")
        others = [x for i, x in enumerate(nk) if i != cd]
        if any(x != "full" for x in others):
            t.append("cat+other")
    if "kernel_mt" in meta:
        p, q = meta["kernel_mt"]
        for lab, k, it, m in (("r", R, nidx[-2], p), ("c", Cc, nidx[-1], q)):
            if k in SLK and k != "full":
                s0, s1, st = it.indices(shape[-2] if lab == "r" else shape[-1])
                aligned = (st == 1) and it.step is None and s0 % m == 0 and s1 % m == 0
                t.append(f"mt{lab}:" + ("aligned" if aligned else "unaligned"))
            elif k != "full":
                t.append(f"mt{lab}:nonslice")
    return t


def cell_id(name, batch, nk, tg, debug):
    b = "x".join(map(str, batch)) or "-"
    return (f"C03/{name}/b={b}/B={','.join(nk[:-2]) or '-'}/R={nk[-2]}/C={nk[-1]}/"
            f"tags={'+'.join(tg) or '-'}/debug={'on' if debug else 'off'}")


# ----------------------------------------------------------------------------------------------
# tuple enumeration


def kind_tuples(rng, d, tier):
    """lists of kinds (length <= d, at most one 'ell')"""
    K1 = C.BASIC + C.TENSOR1
    nb = d - 2
    out = []
    full = tier == "thorough"
    # (A) matrix-position pairs, batch positions full (explicit or via ellipsis / short tuple)
    pairs = [(r, c) for r in K1 for c in K1]
    if not full:
        # every kind in the row and in the column position at least twice, plus random pairs
        pairs = [(k, rng.choice(K1)) for k in K1] + [(rng.choice(K1), k) for k in K1] + \
                [(k, "full") for k in K1] + [("full", k) for k in K1] + \
                [(rng.choice(K1), rng.choice(K1)) for _ in range(10)]
    for r, c in pairs:
        form = rng.randrange(3) if nb else 0
        if form == 0:
            out.append(["full"] * nb + [r, c])
        elif form == 1:
            out.append(["ell", r, c])
        else:
            out.append(["full"] * (nb - 1) + ["ell", r, c])
    # (B) every kind in every batch position
    for p in range(nb):
        for k in K1:
            for _ in range(4 if full else 1):
                t = [rng.choice(K1) for _ in range(d)]
                t[p] = k
                out.append(t)
    # (C) rank-2 tensors: >= 2 positions carry tensors, a matrix position among them
    for _ in range(40 if full else 8):
        t = [rng.choice(C.BASIC) for _ in range(d)]
        poss = set(rng.sample(range(d), min(d, rng.choice([2, 2, 3]))))
        if not any(p >= d - 2 for p in poss):
            poss.add(d - rng.choice([1, 2]))
        for p in poss:
            t[p] = rng.choice(["t2", "t2", "t1"])
        if "t2" not in t:
            t[max(poss)] = "t2"
        out.append(t)
    # (D) short tuples and the ellipsis in each position
    for _ in range(30 if full else 6):
        ln = rng.randrange(0, d)
        t = [rng.choice(K1) for _ in range(ln)]
        if rng.random() < 0.7 or not t:
            t.insert(rng.randrange(ln + 1), "ell")
        out.append(t)
    for p in range(d):
        t = [rng.choice(K1) for _ in range(d - 1)]
        t.insert(p, "ell")
        out.append(t)
    # tensors must not be rank-2 unless the property allows it; filter invalid
    res = []
    for t in out:
        if "t2" in t:
            nk = norm_kinds(t, d)
            tp = [i for i, x in enumerate(nk) if x in TENS]
            if len(tp) < 2 or not any(i >= d - 2 for i in tp):
                continue
        res.append(t)
    return res


# ----------------------------------------------------------------------------------------------


def twostep_indices(rng, shape, tier):
    """concrete (kinds, idx): rows and columns selected DIFFERENTLY but with equal length, so that the result is a
    square operator of a (possibly) different class whose own _diagonal is then checked"""
    d = len(shape)
    R, Cn = shape[-2], shape[-1]
    out = []
    for _ in range(6 if tier == "quick" else 20):
        L = rng.randrange(2, min(R, Cn) + 1) if min(R, Cn) >= 2 else 1
        a, b = rng.randrange(0, R - L + 1), rng.randrange(0, Cn - L + 1)
        form = rng.randrange(4)
        if form == 0:
            r_it, c_it, rk, ck = slice(a, a + L), slice(b, b + L), "slice", "slice"
        elif form == 1:
            r_it, c_it, rk, ck = torch.tensor([rng.randrange(R) for _ in range(L)]), slice(b, b + L), "t1", "slice"
        elif form == 2:
            r_it, c_it, rk, ck = slice(a, a + L), [rng.randrange(Cn) for _ in range(L)], "slice", "list"
        else:
            r_it = slice(a, None) if a + L == R else slice(a, a + L)
            c_it = slice(None, L) if rng.random() < 0.5 else slice(b, b + L)
            rk, ck = "slice", "slice"
        bk, bi = [], []
        for n in shape[:-2]:
            k = rng.choice(["full", "full", "int", "slice"])
            bk.append(k)
            bi.append(C.gen_item(rng, k, n, 2))
        if rng.random() < 0.3 and d > 2 and all(k == "full" for k in bk):
            out.append((["ell", rk, ck], (Ellipsis, r_it, c_it)))
        else:
            out.append((bk + [rk, ck], tuple(bi) + (r_it, c_it)))
    return out


def instances(rng, tier):
    g = C.Gen(rng)
    for name, b, meta in C.catalogue():
        for batch in BATCHES:
            if meta.get("nobatch") and batch:
                continue
            if meta.get("needbatch") and not batch:
                continue
            yield name, batch, meta, b, g


def run_case(chk, name, batch, meta, op, dense, kinds, idx, lean):
    d = dense.dim()
    shape = tuple(dense.shape)
    nk = norm_kinds(kinds, d)
    nidx = norm_index(idx, d)
    tg = tags(name, meta, nk, nidx, shape)
    desc = f"{name} b={batch} idx={C.describe_index(idx)}"
    all_ok = True
    for debug in (True, False):
        r = evaluate(op, dense, idx, debug)
        all_ok = all_ok and r[0] == "ok"
        chk.case(desc + f" debug={debug}", nontrivial=(r[0] == "ok" and dense[idx].numel() > 1))
        chk.count("outcome:" + r[0])
        if len(r) > 1 and r[0] == "ok":
            chk.count("twostep-result-diagonal-checked")
        if r[0] == "viol":
            cell = cell_id(name, batch, nk, tg, debug)
            chk.violation(cell, f"{name} batch={batch} op[{C.describe_index(idx)}] debug={debug}: {r[1]} {r[2]}",
                          {"kind": "getitem", "name": name, "batch": list(batch), "kinds": list(kinds),
                           "index": [C.describe_item(i) for i in idx], "debug": debug, "opseed": lean.get("opseed")})
        elif r[0] == "unsupported":
            chk.count("unsupported:" + name.split("(")[0])
    for k in nk:
        chk.count("kind:" + k)
    chk.count("class:" + name.split("(")[0].split("[")[0])
    return tg, all_ok


def check_diagonal(chk, name, batch, op, dense):
    if dense.shape[-1] != dense.shape[-2]:
        return
    want = dense.diagonal(dim1=-2, dim2=-1)
    cell = f"C03/{name}/b={'x'.join(map(str, batch)) or '-'}/diagonal"
    try:
        got = op.diagonal()
        got2 = op._diagonal()
    except NotImplementedError:
        chk.count("unsupported:diagonal:" + name.split("(")[0])
        return
    except Exception as e:  # noqa
        chk.violation(cell, f"{name} batch={batch} diagonal() raised {type(e).__name__}: {str(e)[:150]}",
                      {"kind": "diagonal", "name": name, "batch": list(batch)})
        return
    chk.case(f"{name} b={batch} diagonal", nontrivial=True)
    for g_, lab in ((got, "diagonal()"), (got2, "_diagonal()")):
        if tuple(g_.shape) != tuple(want.shape) or not torch.allclose(g_.to(want.dtype), want, rtol=0, atol=1e-6):
            chk.violation(cell, f"{name} batch={batch} {lab} = {g_.tolist()} want {want.tolist()}",
                          {"kind": "diagonal", "name": name, "batch": list(batch)})
            return
    chk.traces_validated += 1


def run(chk):
    import random
    torch.set_num_threads(2)
    chk.rule = ("catalogue of operator instances (every class + depth-2 nestings) x batch shapes (),(2,),(2,3) x index tuples "
                "built from the kinds {int, negint, full, a:b, negative bounds, step 2/3, over-long, stop==size, Ellipsis, 0-d/1-d "
                "LongTensor (incl. negative entries), list, rank-2 broadcasting tensors} in every position x debug on/off; values "
                "seed-random integers; distinct = distinct (instance, concrete index, debug); non-trivial = result has > 1 element "
                "and indexing succeeded; Lean lines: shape/element-map spec vs torch, helper models vs the library's helpers")
    chk.assumptions += ["torch.Tensor.__getitem__ on the dense tensor is the reference semantics (the Lean spec is validated against it)",
                        "integer-valued data (exact), tolerance 1e-6 only to absorb FFT noise of Toeplitz matmul"]
    import os
    dev = os.environ.get("C03_DEV") == "1"
    c03_getitem.generate()
    c03_slicepath.generate()
    if not dev:
        chk.prove("LinOp.Properties.C03", ["LinOp/C03", "LinOp/Generated/C03Getitem.lean", "LinOp/Generated/C03SlicePath.lean",
                                            "LinOp/Core/Parse.lean"])
    lean = c03_lean.Lines(chk, enabled=not dev)
    opv = c03_opv.OpvLines(chk, lean)
    front_quota = 3 if chk.tier == "quick" else 8
    for name, batch, meta, build, g in instances(chk.rng, chk.tier):
        opseed = chk.rng.randrange(2 ** 31)
        g.rng = random.Random(opseed)
        op = build(g, batch)
        dense = op.to_dense()
        d = dense.dim()
        shape = tuple(dense.shape)
        check_diagonal(chk, name, batch, op, dense)
        opv.add_instance(name, batch, op, dense)
        nfront = 0
        for kinds in kind_tuples(chk.rng, d, chk.tier):
            try:
                idx = concrete(chk.rng, kinds, shape)
                dense[idx]
            except Exception as e:  # noqa  generator produced an index torch rejects: not a case
                chk.count("generator-rejected")
                continue
            tg, ok = run_case(chk, name, batch, meta, op, dense, kinds, idx, {"opseed": opseed})
            lean.add_index_case(shape, idx)
            if ok and "absorbed" in tg and nfront < front_quota:
                # the composed front-end model (normalise, dispatch, convert, class _get_indices) vs dense[idx]
                opv.add_front(name, batch, dense, idx)
                nfront += 1
        nres, res_quota = 0, (2 if chk.tier == "quick" else 6)
        for kinds, idx in twostep_indices(chk.rng, shape, chk.tier):
            tg, ok = run_case(chk, name, batch, meta, op, dense, kinds, idx, {"opseed": opseed})
            if ok and nres < res_quota and lean.enabled:
                # the result operator built by the class's _getitem, encoded into the Lean operator type
                nres += 1 if c03_slicepath.add_result_case(chk, opv, name, batch, op, dense, idx) else 0
        if lean.enabled:
            c03_slicepath.add_aligned_cases(chk, lean, name, batch, op, dense, chk.rng)
        c03_slicepath.add_toomany_cases(chk, opv, lean, name, batch, op, dense, chk.rng)
        lean.add_class_cases(name, meta, op, dense, chk.rng)
    c03_slicepath.diag_pair_sweep(chk, opv, C.Gen(chk.rng), BATCHES)
    lean.add_helper_cases(chk.rng)
    chk.count("opv:structural-nodes", opv.enc.structural) if opv.enc.structural else None
    chk.count("opv:opaque-nodes", opv.enc.opaque) if opv.enc.opaque else None
    if getattr(opv.enc, "fastpath", 0):
        chk.count("opv:interp-root-fastpath", opv.enc.fastpath)
    for cname in sorted(opv.enc.classes):
        chk.count("opv:class:" + cname)
    lean.flush()


def replay(chk, payload):
    import random
    p = payload.get("payload") or {}
    if p.get("kind") not in ("getitem", "diagonal"):
        print("replay names broken obligations / correspondence only:", json.dumps(p)[:2000])
        return run(chk)
    entry = [c for c in C.catalogue() if c[0] == p["name"]][0]
    name, build, meta = entry
    g = C.Gen(random.Random(p.get("opseed", 0)))
    batch = tuple(p["batch"])
    op = build(g, batch)
    dense = op.to_dense()
    if p["kind"] == "diagonal":
        return check_diagonal(chk, name, batch, op, dense)
    idx = tuple(C.parse_item(s) for s in p["index"])
    kinds = p["kinds"]
    d = dense.dim()
    nk = norm_kinds(kinds, d)
    tg = tags(name, meta, nk, norm_index(idx, d), tuple(dense.shape))
    r = evaluate(op, dense, idx, p["debug"])
    chk.case(json.dumps(p))
    print("replay outcome:", r)
    if r[0] == "viol":
        chk.violation(cell_id(name, batch, nk, tg, p["debug"]), f"{r[1]} {r[2]}", p)
