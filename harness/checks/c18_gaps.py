"""C18 — implementation-side case families beyond the catalogue sweep of c18.py.

(A) `lzdef`: sampling on the LANCZOS side of max_cholesky_size from RANK-DEFICIENT PSD operators, in particular
    batches whose members have different rank (the Lanczos loop keeps running for the full-rank member after the
    Krylov space of the deficient member is exhausted).  The sampler's linear map is recovered with one-hot noise
    and R Rᵀ = A is required per member (no cross-member leakage: the off-diagonal blocks must vanish).
(B) `hist`: multi-step HISTORIES on the same operator object before sampling: every explicit `method=` value of
    root_decomposition / root_inv_decomposition (each under the default and under a small
    max_root_decomposition_size, which makes the Lanczos / pivoted-Cholesky roots rank-limited), for every PSD
    class of the catalogue (all classes with their own root_decomposition override are among them) at n = 3 and
    for ConstantMul / Kronecker / Dense operators at n = 150 (> max_root_decomposition_size = 100).  An explicit
    `method=` call has its own cache key, so the sampler must afterwards still use an exact root.
All random choices derive from (VERIF_SEED, cell id), so a replay of one cell re-creates exactly its inputs."""
import random
import warnings

import torch

from .. import catalogue

RD_METHODS = ["cholesky", "lanczos", "symeig", "pivoted_cholesky", "svd", "diagonalization"]
RID_METHODS = ["cholesky", "lanczos", "symeig", "diagonalization", "svd", "pinverse"]
# classes whose root_decomposition / _root_decomposition / _cholesky is overridden (visited with batch in the quick tier)
OVERRIDE = ("ConstantMul", "Kronecker", "KroneckerAddedDiag[const]", "KroneckerAddedDiag[diag]", "SumKronecker", "Chol[lower]",
            "Diag", "ConstantDiag", "Identity", "BlockDiag", "BlockInterleaved", "SumBatch", "BatchRepeat", "LowRankRootAddedDiag",
            "KroneckerDiag", "ConstantMul(Kronecker)", "Dense[psd]")


def case_rng(chk, cell0):
    return random.Random(f"C18:{chk.seed}:{cell0}")


def rand_t(rng, shape, dtype=torch.float64):
    g = torch.Generator().manual_seed(rng.randrange(2 ** 31))
    return torch.randn(*shape, generator=g, dtype=torch.float64).to(dtype)


def full_rank_psd(rng, n):
    """Well-conditioned dense PD matrix with a generic (simple) spectrum: W Wᵀ/n + I."""
    W = rand_t(rng, (n, n))
    return W @ W.mT / n + torch.eye(n, dtype=torch.float64)


def low_rank_psd(rng, n, r):
    V = rand_t(rng, (n, r))
    return V @ V.mT


def recover_map(op, noise):
    """The sampler's full linear map by one-hot noise: L (out_numel x total noise), or (None, reason)."""
    noise.start("zeros")
    z0 = op.zero_mean_mvn_samples(1)
    m_total = noise.pos
    calls = list(noise.calls)
    noise.stop()
    if float(z0.abs().max()) != 0.0 or bool(torch.isnan(z0).any()):
        return None, "zero noise gives non-zero draws", calls
    L = torch.zeros(z0.numel(), m_total, dtype=torch.float64)
    for j in range(m_total):
        noise.start("stream", lambda p, j=j: 1.0 if p == j else 0.0)
        col = op.zero_mean_mvn_samples(1)
        noise.stop()
        L[:, j] = col.reshape(-1).double()
    return L, None, calls


def block_diag_of(A):
    nb = A.dim() - 2
    return torch.block_diag(*[a for a in A.reshape(-1, *A.shape[-2:])]) if nb else A


def rel_err(cov, want):
    return float((cov - want).abs().max() / max(1.0, float(want.abs().max())))


# ------------------------------------------------------------------------------------------ (A) lzdef
def lzdef_cases(chk, noise, settings, only, lines, expect, mat_line):
    from linear_operator.operators import ConstantMulLinearOperator, DenseLinearOperator, MatmulLinearOperator
    quick = chk.tier == "quick"
    sizes = [(12, 3), (30, 4)] if quick else [(12, 3), (30, 4), (20, 1), (9, 5)]
    kinds = ["rank", "rank+full", "full+rank", "rank+rank2", "full+rank+full"]
    classes = ["Dense", "ConstantMul[batchc]", "Matmul(V,Vt)"]
    for n, r in sizes:
        for kind in kinds:
            for cls in classes:
                if n >= 20 and cls != "Dense" and quick:
                    continue
                for dtype in (torch.float64, torch.float32):
                    cell0 = f"C18/lzdef/{cls}[n={n}|r={r}|{kind}|{str(dtype)[6:]}]"
                    if only and only != cell0:
                        continue
                    rng = case_rng(chk, cell0)
                    try:
                        _lzdef_one(chk, noise, settings, rng, cell0, n, r, kind, cls, dtype, lines, expect, mat_line,
                                   DenseLinearOperator, ConstantMulLinearOperator, MatmulLinearOperator)
                    except Exception as e:
                        noise.stop()
                        chk.violation(cell0 + "/exception", f"{type(e).__name__}: {str(e)[:300]}",
                                      {"cell": cell0, "seed": chk.seed, "tier": chk.tier})


def _lzdef_one(chk, noise, settings, rng, cell0, n, r, kind, cls, dtype, lines, expect, mat_line, Dense, CMul, Matmul):
    members, ranks = [], []
    for part in kind.split("+"):
        if part == "full":
            members.append(full_rank_psd(rng, n))
            ranks.append(n)
        elif part == "rank":
            members.append(low_rank_psd(rng, n, r))
            ranks.append(r)
        else:  # rank2: another deficient member of different rank and scale
            members.append(3.0 * low_rank_psd(rng, n, max(1, r - 1)))
            ranks.append(max(1, r - 1))
    A = torch.stack(members) if len(members) > 1 else members[0]
    batch = tuple(A.shape[:-2])
    if cls == "Dense":
        mk = lambda: Dense(A.to(dtype).clone())
        want = A.to(dtype).double()
    elif cls.startswith("ConstantMul"):
        c = torch.tensor([float(rng.randrange(2, 5)) for _ in range(max(1, len(members)))], dtype=dtype).reshape(batch)
        mk = lambda: CMul(Dense(A.to(dtype).clone()), c.clone())
        want = A.to(dtype).double() * c.double().reshape(*batch, 1, 1)
    else:  # V Vᵀ with V = symmetric square root of the member (rank(V) = rank(member))
        ev, U = torch.linalg.eigh(A)
        V = (U * ev.clamp_min(0).sqrt().unsqueeze(-2)) @ U.mT
        V = V.to(dtype)
        mk = lambda: Matmul(Dense(V.clone()), Dense(V.mT.clone()))
        want = V.double() @ V.double().mT
    with settings.max_cholesky_size(0), warnings.catch_warnings():
        warnings.simplefilter("ignore")
        torch.manual_seed(rng.randrange(2 ** 31))  # the Lanczos start vector
        op = mk()
        k = rng.choice([1, 2, 3])
        noise.start("stream", lambda p: float(((p * 7 + 3) % 5) - 2))
        x = op.zero_mean_mvn_samples(k)
        calls = list(noise.calls)
        noise.stop()
        if tuple(x.shape) != (k, *batch, n) or x.dtype != dtype:
            chk.case(cell0 + f"|k={k}")
            chk.violation(cell0 + "/shape", f"samples shape {tuple(x.shape)} dtype {x.dtype}, expected {(k, *batch, n)} {dtype}",
                          {"cell": cell0, "seed": chk.seed, "tier": chk.tier})
            return
        L, why, _ = recover_map(op, noise)
        R = op.root_decomposition().root.to_dense()
    m = R.shape[-1]
    # the Lanczos loop is shared by the batch: it must run until the richest member is exhausted
    need = min(n, max(rk + 1 for rk in ranks)) if max(ranks) < n else n
    # "early" = the known mechanism (open finding): the loop ran well past the exhaustion of the most deficient member and
    # then broke down; a loop that stops AT the first exhaustion (or before) is a different behaviour and is not excused
    first = min(n, min(ranks) + 1)
    stop = "full" if m >= need else ("early" if m >= first + 3 else "at-exhaustion")
    cell = f"{cell0}/stop={stop}"
    chk.case(cell + f"|k={k}")
    chk.count("lzdef:" + kind)
    chk.count("lzdef:stop=" + stop)
    pay = {"cell": cell0, "seed": chk.seed, "tier": chk.tier}
    if L is None:
        chk.violation(cell + "/affine", why, pay)
        return
    cov = L @ L.T
    wantb = block_diag_of(want)
    tol = 2e-5
    err = rel_err(cov, wantb)
    if not err <= tol:
        nm = len(ranks)
        per = [rel_err(cov[i * n:(i + 1) * n, i * n:(i + 1) * n], want.reshape(-1, n, n)[i]) for i in range(nm)]
        off = rel_err(cov - torch.block_diag(*[cov[i * n:(i + 1) * n, i * n:(i + 1) * n] for i in range(nm)]), torch.zeros_like(cov))
        chk.violation(cell + "/covariance",
                      f"L L^T differs from the covariance: rel err {err:.3e} (tol {tol}); per member {['%.1e' % e for e in per]} "
                      f"(ranks {ranks}), cross-member {off:.1e}; root has {m} columns, Krylov dimension needed {need}", pay)
        return
    chk.traces_validated += 1
    # layout correspondence with the Lean model of the base sampler (float64, small n): x = (R Z)^T per member
    if dtype == torch.float64 and n <= 12 and len(calls) == 1 and calls[0][0] == (*batch, m, k):
        nm = len(ranks)
        R_m = R.reshape(nm, n, m)
        z = calls[0][1].reshape(nm, m, k)
        x_m = x.reshape(k, nm, n)
        for mi in range(nm):
            lines.append(f"generic {n} {m} {k} {mat_line(R_m[mi])} {mat_line(z[mi])}")
            expect.append((cell, x_m[:, mi].double(), 1e-9))
    elif dtype == torch.float64 and n <= 12:
        chk.corr_break(cell + "/layout", f"generic sampler drew noise of shapes {[c[0] for c in calls]}, model expects {(*batch, m, k)}", pay)


# ------------------------------------------------------------------------------------------ (B) hist
def _call_pre(op, kind, method):
    return getattr(op, "root_decomposition" if kind == "rd" else "root_inv_decomposition")(method=method)


def hist_cases(chk, noise, settings, only, extra_instances):
    quick = chk.tier == "quick"
    pres = [("rd", m) for m in RD_METHODS] + [("rid", m) for m in RID_METHODS]
    for dtype in (torch.float64, torch.float32):
        for batch in ([(), (2,)] if quick else [(), (2,), (2, 3), (1,)]):
            irng = random.Random(f"C18:{chk.seed}:hist-insts:{dtype}:{batch}")
            insts = list(catalogue.instances(irng, dtype, batch, 3, psd=True, depth=2)) + list(extra_instances(irng, dtype, batch))
            for it in insts:
                if it.name.startswith("Interpolated"):
                    continue  # not PSD-rooted through root_decomposition (own sampler on the base operator)
                if quick and batch != () and it.name not in OVERRIDE:
                    continue
                if dtype == torch.float32 and (batch != () or it.name not in OVERRIDE):
                    continue
                for kind, method in pres:
                    for ctx in ("default", "small"):
                        if dtype == torch.float32 and ctx == "default":
                            continue
                        for sctx in ("default", "lanczos"):
                            if sctx == "lanczos" and (quick and not it.name.startswith(("Kronecker", "SumKronecker", "ConstantMul(Kronecker)"))):
                                continue
                            if sctx == "lanczos" and it.name.startswith(("CatRows", "AddLowRank")):
                                continue  # transplanted roots assume mutually inverse cached roots (open finding D30)
                            cell0 = f"C18/hist/{it.name}[b={batch}|n=3|{str(dtype)[6:]}]/pre={kind}:{method}/ctx={ctx}/sample={sctx}"
                            if only and only != cell0:
                                continue
                            _hist_one(chk, noise, settings, cell0, it.build, it.dense.double(), kind, method, ctx, sctx, dtype)
    # ---- n = 150 (> max_root_decomposition_size): Lanczos / pivoted-Cholesky roots are rank-limited under DEFAULT settings
    from linear_operator.operators import ConstantMulLinearOperator, DenseLinearOperator, KroneckerProductLinearOperator
    big = [("ConstantMul[scalar]", ()), ("ConstantMul[batchc]", (2,)), ("Dense", ()),
           ("Kronecker[10x15]", ()), ("ConstantMul(Kronecker[10x15])", ())]
    bpres = [("rd", "pivoted_cholesky"), ("rd", "lanczos"), ("rd", "symeig"), ("rid", "symeig"), ("rid", "cholesky")]
    if not quick:
        bpres = pres
    for name, batch in big:
        for dtype in (torch.float64, torch.float32):
            for kind, method in bpres:
                if dtype == torch.float32 and (kind, method) not in (("rd", "pivoted_cholesky"), ("rd", "lanczos")):
                    continue
                cell0 = f"C18/hist/{name}[b={batch}|n=150|{str(dtype)[6:]}]/pre={kind}:{method}/ctx=default/sample=default"
                if only and only != cell0:
                    continue
                rng = random.Random(f"C18:{chk.seed}:hist-big:{name}:{dtype}")
                n = 150
                if "Kronecker" in name:
                    K1, K2 = full_rank_psd(rng, 10).to(dtype), full_rank_psd(rng, 15).to(dtype)
                    dense = catalogue.kron(K1.double(), K2.double())
                    base = lambda K1=K1, K2=K2: KroneckerProductLinearOperator(DenseLinearOperator(K1.clone()), DenseLinearOperator(K2.clone()))
                else:
                    if name == "ConstantMul[batchc]":
                        K = torch.stack([full_rank_psd(rng, n), full_rank_psd(rng, n)]).to(dtype)
                    else:
                        K = full_rank_psd(rng, n).to(dtype)
                    dense = K.double()
                    base = lambda K=K: DenseLinearOperator(K.clone())
                if name.startswith("ConstantMul"):
                    if batch:
                        c = torch.tensor([2.0, 5.0], dtype=dtype)
                    else:
                        c = torch.tensor(3.0, dtype=dtype)
                    dense = dense * c.double().reshape(*batch, 1, 1)
                    build = lambda base=base, c=c: ConstantMulLinearOperator(base(), c.clone())
                else:
                    build = base
                _hist_one(chk, noise, settings, cell0, build, dense, kind, method, "default", "default", dtype)


def _hist_one(chk, noise, settings, cell0, build, A, kind, method, ctx, sctx, dtype):
    from contextlib import ExitStack
    rng = case_rng(chk, cell0)
    pay = {"cell": cell0, "seed": chk.seed, "tier": chk.tier}
    try:
        with warnings.catch_warnings():
            warnings.simplefilter("ignore")
            torch.manual_seed(rng.randrange(2 ** 31))
            op = build()
            try:
                with ExitStack() as st:
                    if ctx == "small":
                        st.enter_context(settings.max_root_decomposition_size(2))
                    _call_pre(op, kind, method)
            except Exception:
                chk.count("hist_prequery_unsupported")  # whether an explicit method is supported is C06's business
                return
            n = A.shape[-1]
            batch = tuple(A.shape[:-2])
            with ExitStack() as st:
                if sctx == "lanczos":
                    st.enter_context(settings.max_cholesky_size(0))
                k = rng.choice([1, 2, 3])
                noise.start("stream", lambda p: float(((p * 7 + 3) % 5) - 2))
                x = op.zero_mean_mvn_samples(k)
                noise.stop()
                chk.case(cell0 + f"|k={k}")
                chk.count(f"hist:{kind}:{method}")
                if tuple(x.shape) != (k, *batch, n) or x.dtype != dtype:
                    chk.violation(cell0 + "/shape", f"samples shape {tuple(x.shape)} dtype {x.dtype}, expected {(k, *batch, n)} {dtype}", pay)
                    return
                L, why, _ = recover_map(op, noise)
        if L is None:
            chk.violation(cell0 + "/affine", why, pay)
            return
        cov = L @ L.T
        want = block_diag_of(A)
        if sctx == "lanczos":
            tol = 1e-3
        else:
            tol = 1e-4 if dtype == torch.float32 else 1e-7
        err = rel_err(cov, want)
        ok = err <= tol
        if not ok and sctx == "lanczos":
            ev = torch.linalg.eigvalsh(A).flatten().sort().values
            gaps = (ev[1:] - ev[:-1]).abs().min() / ev.abs().max() if ev.numel() > 1 else torch.tensor(1.0)
            if float(gaps) < 0.05:
                chk.count("lanczos_skipped_small_gap")
                ok = True
        if not ok:
            chk.violation(cell0 + "/covariance",
                          f"after op.{'root_decomposition' if kind == 'rd' else 'root_inv_decomposition'}(method={method!r})"
                          f"{' under max_root_decomposition_size(2)' if ctx == 'small' else ''} the sampler's L L^T differs from the "
                          f"covariance: rel err {err:.3e} (tol {tol})", pay)
            return
        chk.traces_validated += 1
    except Exception as e:  # sampling a PSD operator must not fail
        noise.stop()
        chk.violation(cell0 + "/exception", f"{type(e).__name__}: {str(e)[:300]}", pay)
