"""C15, extension session 5 — cells for the newly modelled paths (called from checks/c15.py: run / replay).

* rectangular operators (n != k; batch (), (2,), thorough: (2, 3)) of eight classes x both operand orders x
  torch.matmul / Tensor.matmul / `@` (matrix, broadcast matrix, batched matrix, 1-D operand), add / sub / mul (+ alpha, Tensor.*,
  python operators; same-shape and batch-broadcast tensors), div (scalar, `op / c`), torch.isclose with tolerances for which the
  operand order matters (positional and keyword forms), torch.sum over every dim from -ndim-2 to ndim and None:
    impl  = the dispatched call on the operator,
    spec  = the same torch call on `to_dense()` operands (exact: small integers / dyadic rationals),
    model = Lean `evalMM` / `evalEW` / `evalClose` / `divSem` / `sumBranch`+`sumCols/sumRows/sumAll` on each batch slice
            (driver lines `valr`, `close`, `div`, `sumv`, `sumshape`);
* call forms of the functions whose parameter names differ from the method's (transpose, linalg.solve, permute): torch's own
  binding (`bindt`, Lean `bind` on the generated torch signature) vs "dense torch raises TypeError", and
  (torch binds and the handler binds) vs "the operator call returns torch's dense result" / raises TypeError.
Every random choice derives from `xseed` (drawn from chk.rng after all other groups, stored in the replay payload).
"""
import random
from fractions import Fraction

import torch

from ..extract import c15_sigs


def imat(rng, *shape, lo=-4, hi=4, nz=False):
    n = 1
    for s in shape:
        n *= s
    vals = []
    for _ in range(n):
        v = rng.randint(lo, hi)
        while nz and v == 0:
            v = rng.randint(lo, hi)
        vals.append(float(v))
    return torch.tensor(vals, dtype=torch.float64).reshape(*shape)


def fq(x):
    f = Fraction(float(x))
    return str(f.numerator) if f.denominator == 1 else f"{f.numerator}/{f.denominator}"


def fmtq(M):
    if M.dim() == 1:
        return ",".join(fq(x) for x in M.tolist())
    return ";".join(",".join(fq(x) for x in row) for row in M.tolist())


def fmtb(M):
    return ";".join(",".join("1" if x else "0" for x in row) for row in M.tolist())


def rect_ops(rng, batch, n, k):
    """name -> (class token, thunk) of operators with shape batch x n x k, n != k"""
    from linear_operator import operators as O
    res = {}
    m = rng.choice([1, 2, 4])
    D = lambda *s: O.DenseLinearOperator(imat(rng, *batch, *s))  # noqa: E731
    res["Dense"] = ("DenseLinearOperator", lambda: D(n, k))
    res["Matmul"] = ("MatmulLinearOperator", lambda: O.MatmulLinearOperator(D(n, m), D(m, k)))
    res["Sum"] = ("SumLinearOperator", lambda: O.SumLinearOperator(D(n, k), D(n, k)))
    res["ConstantMul"] = ("ConstantMulLinearOperator", lambda: O.ConstantMulLinearOperator(D(n, k), torch.tensor(float(rng.choice([-2, 2, 3])), dtype=torch.float64)))
    res["Zero"] = ("ZeroLinearOperator", lambda: O.ZeroLinearOperator(*batch, n, k, dtype=torch.float64))
    if n >= 2:
        res["Cat"] = ("CatLinearOperator", lambda: O.CatLinearOperator(D(1, k), D(n - 1, k), dim=-2))
    for (n1, n2) in ((1, n), (n, 1), (2, n // 2)):
        for (k1, k2) in ((k, 1), (1, k), (3, k // 3), (2, k // 2)):
            if n1 * n2 == n and k1 * k2 == k and "Kron" not in res and (n1, k1) != (1, 1) and (n2, k2) != (1, 1):
                res["Kron"] = ("KroneckerProductLinearOperator", (lambda a=(n1, k1), b=(n2, k2): O.KroneckerProductLinearOperator(D(*a), D(*b))))
    if batch:
        res["BatchRepeat"] = ("BatchRepeatLinearOperator", lambda: O.BatchRepeatLinearOperator(O.DenseLinearOperator(imat(rng, n, k)), torch.Size(batch)))
    return res


def dense(x):
    return x.to_dense() if hasattr(x, "to_dense") and not isinstance(x, torch.Tensor) else x


def outcome(thunk):
    import warnings
    try:
        with warnings.catch_warnings():
            warnings.simplefilter("ignore")
            return ("ok", thunk())
    except Exception as e:  # noqa: BLE001
        return ("raise", type(e).__name__, str(e)[:160])


def slices(T, batch):
    """[(index tuple, 2-D slice)] of a tensor with leading batch dims `batch` (broadcast first)"""
    if not batch:
        return [((), T)]
    res = []
    import itertools
    for idx in itertools.product(*[range(b) for b in batch]):
        res.append((idx, T[idx]))
    return res


class Ext:
    def __init__(self, chk, xseed):
        self.chk, self.xseed, self.lines = chk, xseed, []

    def pay(self, **kw):
        d = {"ext": True, "xseed": self.xseed}
        d.update(kw)
        return d

    # ---- one call: impl vs dense, then model lines per batch slice -------------------------------------------
    def compare(self, cell, what, impl_thunk, dense_thunk, payload, strict_raise=True, accept_ok=False):
        """returns the dense result if implementation and dense torch agree on a value, else None"""
        chk = self.chk
        io, do = outcome(impl_thunk), outcome(dense_thunk)
        chk.case(f"{cell} seed={self.xseed}", nontrivial=io[0] == "ok")
        if do[0] == "raise":
            if io[0] == "ok" and not accept_ok:
                chk.violation(cell + "/accepts", f"{what}: dense torch raises {do[1]} but the operator call returns a value", payload)
            else:
                chk.count("ext:dense-rejects:" + ("impl-ok" if io[0] == "ok" else "impl-raises"))
            return None
        if io[0] == "raise":
            if strict_raise:
                chk.violation(cell + "/raises", f"{what}: the operator call raises {io[1]}: {io[2]} although dense torch returns a value", payload)
            else:
                chk.count("ext:rejected:" + cell.split("/")[2])
            return None
        R, Dn = dense(io[1]), do[1]
        if not isinstance(R, torch.Tensor):
            R = torch.as_tensor(R)
        if tuple(R.shape) != tuple(Dn.shape):
            chk.violation(cell + "/vs-dense:shape", f"{what}: shape {tuple(R.shape)} but dense torch gives {tuple(Dn.shape)}", payload)
            return None
        if R.dtype != Dn.dtype:
            chk.violation(cell + "/vs-dense:dtype", f"{what}: dtype {R.dtype} but dense torch gives {Dn.dtype}", payload)
            return None
        if not torch.equal(R, Dn):
            chk.violation(cell + "/vs-dense:value", f"{what}: values differ from dense torch (max |diff| {(R.double() - Dn.double()).abs().max().item()})", payload)
            return None
        return Dn

    def ms(self, line, impl, cell, payload):
        self.lines.append((line, impl, cell, payload, "ms"))

    # ---- rectangular catalogue ----------------------------------------------------------------------------
    def rect_group(self, rng, batch, n, k):
        chk = self.chk
        ops = rect_ops(rng, batch, n, k)
        bs = "x".join(map(str, batch)) or "0"
        for name, (tok, mk) in ops.items():
            A = mk()
            Ad = A.to_dense()
            if tuple(Ad.shape) != (*batch, n, k):
                chk.proof_break("harness", f"ext: {name} built with shape {tuple(Ad.shape)}")
                continue
            base = f"C15/rect/{{}}/{tok}[b={bs}|n={n}|k={k}]"
            pl = lambda **kw: self.pay(group=[list(batch), n, k], cls=name, **kw)  # noqa: E731
            arg = "op:" + tok
            # --- matmul, operator second and first ---
            p = rng.choice([1, 2, 3])
            q = rng.choice([1, 2, 4])
            for kind, X in (("mat", imat(rng, p, n)), ("bmat", imat(rng, *batch, p, n)), ("vec", imat(rng, n))):
                for form, fn in (("torch.matmul", lambda x, a: torch.matmul(x, a)), ("Tensor.matmul", lambda x, a: x.matmul(a)),
                                 ("@", lambda x, a: x @ a)):
                    cell = base.format(f"{form}/second/{kind}")
                    Dn = self.compare(cell, f"{form}(X{tuple(X.shape)}, {name}{tuple(Ad.shape)})", lambda: fn(X, A), lambda: fn(X, Ad), pl())
                    if Dn is not None and kind != "vec" and form != "@":
                        Xb = X.expand(*batch, p, n) if kind == "mat" else X
                        fkey = "torch.matmul" if form == "torch.matmul" else "torch.Tensor.matmul"
                        for (idx, xs), (_, as_), (_, ds) in zip(slices(Xb, batch), slices(Ad, batch), slices(Dn, batch)):
                            self.ms(f"valr {fkey} t {arg} n {fmtq(xs)} {fmtq(as_)}", "ok " + fmtq(ds), cell + "/model", pl())
            for kind, Y in (("mat", imat(rng, k, q)), ("bmat", imat(rng, *batch, k, q)), ("vec", imat(rng, k))):
                for form, fn in (("torch.matmul", lambda a, y: torch.matmul(a, y)), ("@", lambda a, y: a @ y)):
                    cell = base.format(f"{form}/first/{kind}")
                    Dn = self.compare(cell, f"{form}({name}{tuple(Ad.shape)}, Y{tuple(Y.shape)})", lambda: fn(A, Y), lambda: fn(Ad, Y), pl())
                    if Dn is not None and kind != "vec" and form != "@":
                        Yb = Y.expand(*batch, k, q) if kind == "mat" else Y
                        for (idx, ys), (_, as_), (_, ds) in zip(slices(Yb, batch), slices(Ad, batch), slices(Dn, batch)):
                            self.ms(f"valr torch.matmul {arg} t n {fmtq(as_)} {fmtq(ys)}", "ok " + fmtq(ds), cell + "/model", pl())
            # --- elementwise, both orders ---
            al = float(rng.choice([-2, 2, 3]))
            kinds = [("same", imat(rng, *batch, n, k))]
            if batch:
                kinds.append(("unbatched", imat(rng, n, k)))
            ew = [("torch.add", lambda x, y: torch.add(x, y), None), ("torch.sub", lambda x, y: torch.sub(x, y), None),
                  ("torch.mul", lambda x, y: torch.mul(x, y), None),
                  ("torch.add", lambda x, y: torch.add(x, y, alpha=al), al), ("torch.sub", lambda x, y: torch.sub(x, y, alpha=al), al),
                  ("torch.Tensor.add", lambda x, y: x.add(y), None), ("torch.Tensor.sub", lambda x, y: x.sub(y), None),
                  ("torch.Tensor.mul", lambda x, y: x.mul(y), None), ("torch.Tensor.sub", lambda x, y: x.sub(y, alpha=al), al),
                  ("py:-", lambda x, y: x - y, None), ("py:+", lambda x, y: x + y, None), ("py:*", lambda x, y: x * y, None)]
            # falsy alpha values (0, 0.0, tensor(0.), False) are values: the result is the first operand; also with an operator second
            z = [("int", 0), ("float", 0.0), ("tensor", torch.tensor(0.0)), ("bool", False)]
            from linear_operator.operators import DenseLinearOperator as _D
            Bt = imat(rng, *batch, n, k)
            for znm, zv in z:
                for fkey, fn in (("torch.add", lambda x, y: torch.add(x, y, alpha=zv)), ("torch.sub", lambda x, y: torch.sub(x, y, alpha=zv)),
                                 ("torch.Tensor.add", lambda x, y: x.add(y, alpha=zv)), ("torch.Tensor.sub", lambda x, y: x.sub(y, alpha=zv)),
                                 ("method.add", lambda x, y: x.add(y, alpha=zv)), ("method.sub", lambda x, y: x.sub(y, alpha=zv))):
                    for pos, okind in (("second", "tensor"), ("first", "tensor"), ("first", "op-dense")):
                        if fkey.startswith("torch.Tensor") and pos == "first":
                            continue
                        if fkey.startswith("method") and pos == "second":
                            continue
                        cell = base.format(f"{fkey}+alpha0:{znm}/{pos}/{okind}")
                        what = f"{fkey}(alpha={zv!r}) {pos} {okind} ({name})"
                        if pos == "second":
                            Dn = self.compare(cell, what, lambda: fn(Bt, A), lambda: fn(Bt, Ad), pl(), strict_raise=False, accept_ok=True)
                        elif okind == "tensor":
                            Dn = self.compare(cell, what, lambda: fn(A, Bt), lambda: fn(Ad, Bt), pl(), strict_raise=False, accept_ok=True)
                        else:
                            Dn = self.compare(cell, what, lambda: fn(A, _D(Bt)), lambda: fn(Ad, Bt), pl(), strict_raise=False, accept_ok=True)
                        if Dn is not None:
                            chk.count("ext:alpha0:agree-with-dense")
                            first = Bt if pos == "second" else Ad
                            if not torch.equal(Dn, first):
                                chk.proof_break("harness", f"ext: dense torch {fkey}(alpha=0) is not the first operand")
                            if okind == "tensor" and not fkey.startswith("method"):
                                for (idx, ts), (_, as_), (_, ds) in zip(slices(Bt, batch), slices(Ad, batch), slices(Dn, batch)):
                                    x, y = (ts, as_) if pos == "second" else (as_, ts)
                                    xa, ya = ("t", arg) if pos == "second" else (arg, "t")
                                    self.ms(f"valr {fkey} {xa} {ya} 0 {fmtq(x)} {fmtq(y)}", "ok " + fmtq(ds), cell + "/model", pl())
            for kind, T in kinds:
                Tb = T.expand(*batch, n, k)
                for fkey, fn, a in ew:
                    lab = fkey + ("+alpha" if a is not None else "")
                    for pos in ("second", "first"):
                        if pos == "first" and fkey.startswith("torch.Tensor"):
                            continue
                        cell = base.format(f"{lab}/{pos}/{kind}")
                        if pos == "second":
                            Dn = self.compare(cell, f"{lab}(T{tuple(T.shape)}, {name})", lambda: fn(T, A), lambda: fn(T, Ad), pl(), strict_raise=False)
                        else:
                            Dn = self.compare(cell, f"{lab}({name}, T{tuple(T.shape)})", lambda: fn(A, T), lambda: fn(Ad, T), pl(), strict_raise=False)
                        if Dn is not None and not fkey.startswith("py:"):
                            for (idx, ts), (_, as_), (_, ds) in zip(slices(Tb, batch), slices(Ad, batch), slices(Dn, batch)):
                                x, y = (ts, as_) if pos == "second" else (as_, ts)
                                xa, ya = ("t", arg) if pos == "second" else (arg, "t")
                                self.ms(f"valr {fkey} {xa} {ya} {'n' if a is None else fq(a)} {fmtq(x)} {fmtq(y)}", "ok " + fmtq(ds), cell + "/model", pl())
            # --- div ---
            c = float(rng.choice([2, 4, -2, 8]))
            for form, fn in (("torch.div", lambda a: torch.div(a, c)), ("py:/", lambda a: a / c)):
                cell = base.format(f"{form}/first/scalar")
                Dn = self.compare(cell, f"{form}({name}, {c})", lambda: fn(A), lambda: fn(Ad), pl(), strict_raise=False)
                if Dn is not None and form == "torch.div":
                    for (idx, as_), (_, ds) in zip(slices(Ad, batch), slices(Dn, batch)):
                        self.ms(f"div {fq(c)} {fmtq(as_)}", "ok " + fmtq(ds), cell + "/model", pl())
            # --- isclose: tolerances for which the order of the operands matters ---
            Anz = Ad if name != "Zero" else None
            T3 = Ad * 3
            T2 = Ad + 2
            for lab, T, rt, at in (("rel", T3, 1.0, 0.0), ("abs", T2, 0.0, 2.0), ("mixed", T2, 0.5, 1.0)):
                for formname, kw in (("pos", None), ("kw", True)):
                    for pos in ("second", "first"):
                        cell = base.format(f"torch.isclose/{pos}/{lab}:{formname}")
                        if pos == "second":
                            f = (lambda a: torch.isclose(T, a, rt, at)) if kw is None else (lambda a: torch.isclose(T, a, rtol=rt, atol=at))
                        else:
                            f = (lambda a: torch.isclose(a, T, rt, at)) if kw is None else (lambda a: torch.isclose(a, T, atol=at, rtol=rt))
                        Dn = self.compare(cell, f"isclose[{pos}] rtol={rt} atol={at} ({name})", lambda: f(A), lambda: f(Ad), pl())
                        if Dn is not None:
                            sym = torch.equal(torch.isclose(T, Ad, rt, at), torch.isclose(Ad, T, rt, at))
                            chk.count("ext:isclose:" + ("order-matters" if not sym else "order-irrelevant"))
                            for (idx, ts), (_, as_), (_, ds) in zip(slices(T, batch), slices(Ad, batch), slices(Dn, batch)):
                                x, y = (ts, as_) if pos == "second" else (as_, ts)
                                xa, ya = ("t", arg) if pos == "second" else (arg, "t")
                                self.ms(f"close {xa} {ya} {fq(rt)} {fq(at)} {fmtq(x)} {fmtq(y)}", "ok " + fmtb(ds), cell + "/model", pl())
            del Anz
            # --- sum over every dim, in and out of range ---
            nd = len(batch) + 2
            shape = [*batch, n, k]
            for d in [None] + list(range(-nd - 2, nd + 2)):
                rng_kind = "none" if d is None else ("in-range" if -nd <= d < nd else ("below-range" if d < -nd else "above-range"))
                cell = base.format(f"torch.sum/first/dim:{rng_kind}")
                io = outcome(lambda: torch.sum(A) if d is None else torch.sum(A, d))
                do = outcome(lambda: torch.sum(Ad) if d is None else torch.sum(Ad, d))
                chk.case(f"{cell} d={d} seed={self.xseed}", nontrivial=io[0] == "ok")
                impl_s = ("ok " + ",".join(map(str, dense(io[1]).shape))) if io[0] == "ok" else "raise " + io[1]
                if do[0] == "raise":
                    if io[0] == "ok":
                        chk.violation(cell + "/accepts", f"torch.sum({name}{tuple(Ad.shape)}, {d}) returns shape {tuple(dense(io[1]).shape)}; dense torch raises {do[1]}", pl(dim=d))
                elif io[0] == "raise":
                    chk.violation(cell + "/raises", f"torch.sum({name}{tuple(Ad.shape)}, {d}) raises {io[1]}: {io[2]}", pl(dim=d))
                else:
                    R = dense(io[1])
                    if tuple(R.shape) != tuple(do[1].shape):
                        chk.violation(cell + "/vs-dense:shape", f"torch.sum({name}{tuple(Ad.shape)}, {d}): shape {tuple(R.shape)} vs {tuple(do[1].shape)}", pl(dim=d))
                    elif not torch.equal(R, do[1]):
                        chk.violation(cell + "/vs-dense:value", f"torch.sum({name}{tuple(Ad.shape)}, {d}): values differ", pl(dim=d))
                    elif not batch:
                        self.lines.append((f"sumv {'n' if d is None else d} {fmtq(Ad)}", "ok " + (fq(R) if R.dim() == 0 else fmtq(R)), cell + "/model-value", pl(dim=d), "plain"))
                # the branch model: what the implementation did (shape / ValueError / a value for a dim below range)
                own_error = io[0] == "raise" and io[1] == "ValueError" and io[2].startswith("Invalid dim")
                if rng_kind == "below-range" and not own_error:
                    # `_sum_batch` ran with a negative dim: whatever it did (a value, or an error from inside), the branch is `below`
                    impl_m = "below"
                    chk.count("ext:sum:below-range:" + ("value" if io[0] == "ok" else "error-inside-_sum_batch:" + io[1]))
                else:
                    impl_m = impl_s if io[0] == "ok" else ("raise ValueError" if own_error else "raise " + io[1])
                self.lines.append((f"sumshape {','.join(map(str, shape))} {'n' if d is None else d}", impl_m, cell + "/model-branch", pl(dim=d), "msmodel"))

    # ---- call forms of the functions whose parameter names differ ------------------------------------------
    def renamed_forms(self, rng):
        from linear_operator import operators as O
        chk = self.chk
        n = 3
        def spd(b):
            M = imat(rng, *b, n, n, lo=-2, hi=2)
            return M @ M.transpose(-1, -2) + n * torch.eye(n, dtype=torch.float64)

        for cname, mk in (("DenseLinearOperator", lambda b: O.DenseLinearOperator(spd(b))),
                          ("DiagLinearOperator", lambda b: O.DiagLinearOperator(imat(rng, *b, n, lo=1, hi=4))),
                          ("TriangularLinearOperator", lambda b: O.TriangularLinearOperator(torch.tril(imat(rng, *b, n, n, lo=1, hi=3))))):
            for batch in ((), (2,), (2, 3)):
                A = mk(batch)
                Ad = A.to_dense()
                nd = len(batch) + 2
                B = imat(rng, *batch, n, 2)
                perm = tuple(list(reversed(range(nd - 2))) + [nd - 2, nd - 1])
                forms = [
                    ("torch.transpose", "transpose", 1, torch.transpose, [], (-1, -2), {}),
                    ("torch.transpose", "transpose", 1, torch.transpose, [], (nd - 2, -1), {}),
                    ("torch.transpose", "transpose", 1, torch.transpose, [], (), {"dim0": -1, "dim1": -2}),
                    ("torch.transpose", "transpose", 1, torch.transpose, [], (-1,), {"dim1": -2}),
                    ("torch.transpose", "transpose", 1, torch.transpose, [], (), {"dim1": -1, "dim2": -2}),
                    ("torch.transpose", "transpose", 1, torch.transpose, [], (-1,), {"dim2": -2}),
                    ("torch.transpose", "transpose", 1, torch.transpose, [], (-1,), {}),
                    ("torch.transpose", "transpose", 1, torch.transpose, [], (-1, -2, 0), {}),
                    ("torch.linalg.solve", "solve", 2, torch.linalg.solve, [B], (), {}),
                    ("torch.linalg.solve", "solve", 2, torch.linalg.solve, [B], (), {"left": True}),
                    ("torch.linalg.solve", "solve", 2, torch.linalg.solve, [B], (), {"left_tensor": None}),
                    ("torch.linalg.solve", "solve", 2, torch.linalg.solve, [B], (True,), {}),
                    ("torch.permute", "permute", 1, torch.permute, [], (perm,), {}),
                    ("torch.permute", "permute", 1, torch.permute, [], (), {"dims": perm}),
                    ("torch.permute", "permute", 1, torch.permute, [], (), {}),
                ]
                if len(batch) == 2:
                    forms.append(("torch.transpose", "transpose", 1, torch.transpose, [], (0, 1), {}))
                    forms.append(("torch.transpose", "transpose", 1, torch.transpose, [], (-3,), {"dim1": 0}))
                tok = c15_sigs.token
                for fkey, meth, nops, fn, others, pos, kw in forms:
                    lab = "pos" + str(len(pos)) + ("" if not kw else "+kw:" + ",".join(sorted(kw)))
                    bs = "x".join(map(str, batch)) or "0"
                    cell = f"C15/forms/{fkey}/{cname}[b={bs}]/{lab}"
                    pl = self.pay(forms=[cname, list(batch)])
                    io = outcome(lambda: fn(A, *others, *pos, **kw))
                    do = outcome(lambda: fn(Ad, *others, *pos, **kw))
                    chk.case(f"{cell} seed={self.xseed}", nontrivial=io[0] == "ok")
                    ptoks = [tok(v) for v in pos]
                    ktoks = [f"{k_}={tok(v)}" for k_, v in kw.items()]
                    # torch's own binding: err <-> dense torch raises TypeError
                    texp = "err" if (do[0] == "raise" and do[1] == "TypeError") else "ok"
                    self.lines.append((f"bindt {fkey} {';'.join(ptoks) or '-'} {';'.join(ktoks) or '-'}", texp, cell + "/torch-binding", pl, "okerr"))
                    # the handler's binding (Python's own, on the real method)
                    import inspect
                    try:
                        inspect.signature(getattr(type(A), meth)).bind(A, *others, *pos, **kw)
                        mexp = "ok"
                    except TypeError:
                        mexp = "err"
                    self.lines.append((f"bind {cname} {meth} {';'.join(['op'] + ['t'] * len(others) + ptoks)} {';'.join(ktoks) or '-'}", mexp, cell + "/method-binding", pl, "okerr"))
                    # the operator call: TypeError iff one of the two bindings fails; else torch's dense value (or the method's own refusal)
                    predicted_type_error = texp == "err" or mexp == "err"
                    if predicted_type_error:
                        if io[0] == "ok":
                            chk.violation(cell + "/accepts", f"{fkey}({cname}, {pos}, {kw}) returns a value although "
                                          f"{'torch' if texp == 'err' else 'the handler'} cannot bind the arguments", pl)
                        elif io[1] != "TypeError":
                            chk.corr_break(cell + "/raise-kind", f"{fkey}({cname}, {pos}, {kw}) raises {io[1]}, predicted TypeError", pl)
                        else:
                            chk.traces_validated += 1
                            chk.count("ext:forms:TypeError:" + ("torch-side" if texp == "err" else "handler-side"))
                    else:
                        if io[0] == "raise":
                            if io[1] == "TypeError":
                                chk.corr_break(cell + "/raise-kind", f"{fkey}({cname}, {pos}, {kw}) raises TypeError ({io[2]}) although both bindings succeed", pl)
                            else:
                                chk.count(f"ext:forms:declined:{io[1]}")
                        elif do[0] == "ok":
                            R = dense(io[1])
                            if tuple(R.shape) != tuple(do[1].shape):
                                chk.violation(cell + "/vs-dense:shape", f"{fkey}({cname}{tuple(Ad.shape)}, {pos}, {kw}): shape {tuple(R.shape)} vs {tuple(do[1].shape)}", pl)
                            elif not torch.allclose(R, do[1], rtol=1e-6, atol=1e-8):
                                chk.violation(cell + "/vs-dense:value", f"{fkey}({cname}{tuple(Ad.shape)}, {pos}, {kw}): values differ from dense torch", pl)
                            else:
                                chk.traces_validated += 1
                                chk.count("ext:forms:bound-both-sides")

    # ---- run ------------------------------------------------------------------------------------------------
    def run(self):
        rng = random.Random(self.xseed)
        chk = self.chk
        shapes = [((), 2, 3), ((2,), 3, 2), ((2,), 1, 4)]
        if chk.tier == "thorough":
            shapes += [((2, 3), 2, 3), ((), 4, 2), ((3,), 2, 6), ((1,), 3, 1)]
        for batch, n, k in shapes:
            try:
                self.rect_group(rng, batch, n, k)
            except Exception as e:  # noqa: BLE001
                chk.proof_break("harness", f"ext rect group {batch} {n}x{k} seed {self.xseed}: {type(e).__name__}: {e}")
        try:
            self.renamed_forms(rng)
        except Exception as e:  # noqa: BLE001
            chk.proof_break("harness", f"ext renamed forms seed {self.xseed}: {type(e).__name__}: {e}")
        self.check_lines()

    def check_lines(self):
        chk = self.chk
        if not self.lines:
            return
        outs = chk.run_driver("C15", [ln[0] for ln in self.lines])
        if outs is None:
            return
        for (line, impl, cell, payload, kind), out in zip(self.lines, outs):
            out, impl = out.strip(), impl.strip()
            if kind in ("ms", "msmodel"):
                if not out.startswith("model=") or " spec=" not in out:
                    chk.corr_break(cell, f"`{line}`: driver said `{out}`", payload)
                    continue
                model, spec = [t.strip() for t in out[len("model="):].split(" spec=", 1)]
                if kind == "ms" and impl != spec:
                    # the Lean spec and dense torch (already compared in Python) disagree: the spec side of the model is off
                    chk.corr_break(cell, f"`{line}`: Lean spec {spec} but dense torch {impl}", payload)
                elif impl != model:
                    chk.corr_break(cell, f"`{line}`: model {model} implementation {impl}", payload)
                else:
                    chk.traces_validated += 1
            elif kind == "okerr":
                got = "ok" if out.startswith("ok") else ("err" if out == "err" else out)
                if got != impl:
                    chk.corr_break(cell, f"`{line}`: model `{out}` run time `{impl}`", payload)
                else:
                    chk.traces_validated += 1
            else:
                if out != impl:
                    chk.corr_break(cell, f"`{line}`: model `{out}` implementation `{impl}`", payload)
                else:
                    chk.traces_validated += 1


def extra(chk, xseed=None):
    if xseed is None:
        xseed = chk.rng.randrange(2 ** 31)
    Ext(chk, xseed).run()


def replay(chk, p):
    extra(chk, p["xseed"])
