"""C07 — gradients through operators equal gradients through the dense computation."""
import itertools
import json
import random
from contextlib import ExitStack
from fractions import Fraction
from unittest import mock

import torch

from ..extract import c07_ops as ops


# ---------------------------------------------------------------------------------------------- helpers
def fr(v):
    f = Fraction(float(v))
    return str(f.numerator) if f.denominator == 1 else f"{f.numerator}/{f.denominator}"


def flat(t):
    vals = t.reshape(-1).tolist()
    return ",".join(fr(v) for v in vals) if vals else "-"


def close(a, b, exact, tol):
    if a.shape != b.shape:
        return False
    if exact:
        return bool(torch.equal(a, b))
    scale = max(1.0, float(b.abs().max()) if b.numel() else 1.0)
    return bool((a - b).abs().max() <= tol * scale) if a.numel() else True


def zeros_like_none(g, ref):
    return torch.zeros_like(ref) if g is None else g


def subset_of(rng, names, kind):
    if kind == "all" or len(names) <= 1:
        return set(names)
    if kind == "single":
        return {rng.choice(names)}
    k = rng.randrange(1, len(names))
    return set(rng.sample(names, k))


def to_leaves(rep, grads, leaves, names):
    """Pull gradients w.r.t. representation() tensors back to the leaves (plain-torch autograd through the
    expand/reshape views between leaves and constructor arguments)."""
    outs, gouts = [], []
    for r, g in zip(rep, grads):
        if torch.is_tensor(r) and r.dtype.is_floating_point and r.requires_grad and g is not None:
            outs.append(r)
            gouts.append(g)
    res = {k: torch.zeros_like(leaves[k]) for k in names}
    if outs:
        gl = torch.autograd.grad(outs, [leaves[k] for k in names], grad_outputs=gouts, allow_unused=True, retain_graph=True)
        for k, g in zip(names, gl):
            if g is not None:
                res[k] = g
    return res


def check_tuple(rep, grads):
    """Tuple discipline of a `_bilinear_derivative` result against representation(): returns (error | None, reduced grads)."""
    if not isinstance(grads, (tuple, list)):
        return f"result is {type(grads).__name__}, not a tuple", None
    if len(grads) != len(rep):
        return f"tuple length {len(grads)} != len(representation()) {len(rep)}", None
    red = []
    for i, (r, g) in enumerate(zip(rep, grads)):
        if g is None:
            red.append(None)
            continue
        if not torch.is_tensor(g):
            return f"slot {i} is {type(g).__name__}", None
        if not r.dtype.is_floating_point:
            if float(g.abs().sum()) != 0.0:
                return f"slot {i} (non-float tensor) got a non-zero gradient", None
            red.append(None)
            continue
        try:
            torch.broadcast_shapes(r.shape, g.shape)
            ok = torch.broadcast_shapes(r.shape, g.shape) == g.shape and g.dim() >= r.dim()
        except RuntimeError:
            ok = False
        if not ok:
            return f"slot {i}: gradient shape {tuple(g.shape)} not reducible to tensor shape {tuple(r.shape)}", None
        red.append(g.sum_to_size(r.shape) if g.shape != r.shape else g)
    return None, red


def sym_leaf(g, name, inst):
    return (g + g.mT) / 2 if name in inst.sym else g


# ---------------------------------------------------------------------------------------------- (a) bilinear derivative
def bilinear_cases(chk, insts_by, lean_jobs, only=None):
    from linear_operator.operators import LinearOperator, InterpolatedLinearOperator
    quick = chk.tier == "quick"
    for (batch, mode), insts in insts_by.items():
        for inst in insts:
            n, m = inst.shape()
            for d in ((1, 2) if quick else (1, 2, 3)):
                for sk in (("all", "partial") if quick else ("all", "partial", "single")):
                    if quick and d == 1 and sk == "partial":
                        continue
                    cell = f"C07/bilinear/{inst.name}<b={batch}|{mode}>/d={d}/req={sk}"
                    if only and not cell.startswith(only):
                        continue
                    req = subset_of(chk.rng, inst.names, sk)
                    U = ops.ri(chk.rng, (*inst.nb, n, d), -2, 2)
                    V = ops.ri(chk.rng, (*inst.nb, m, d), -2, 2)
                    payload = {"cell": cell, "seed": chk.seed, "tier": chk.tier}
                    try:
                        one_bilinear(chk, inst, cell, req, U, V, d, payload, lean_jobs)
                    except Exception as e:  # noqa
                        chk.violation(cell + "/exception", f"{type(e).__name__}: {str(e)[:300]}", payload)
                    if n == m and sk == "all" and d == 2 and len(inst.nb) <= 1 and inst.node.kind != "brep":
                        # the factors of Solve.backward: _bilinear_derivative(cat[L, R], -1/2 cat[R, L]) vs the model's symmetrisedDeriv
                        cell2 = f"C07/bilinear-sym/{inst.name}<b={batch}|{mode}>/d={d}"
                        if only and not cell2.startswith(only):
                            continue
                        L = ops.ri(chk.rng, (*inst.nb, n, d), -2, 2)
                        R = ops.ri(chk.rng, (*inst.nb, n, d), -2, 2)
                        p2 = {"cell": cell2, "seed": chk.seed, "tier": chk.tier}
                        try:
                            one_bilinear(chk, inst, cell2, req, torch.cat([L, R], -1), torch.cat([R, L], -1).mul(-0.5), d, p2, lean_jobs, sym=(L, R))
                        except Exception as e:  # noqa
                            chk.violation(cell2 + "/exception", f"{type(e).__name__}: {str(e)[:300]}", p2)


def one_bilinear(chk, inst, cell, req, U, V, d, payload, lean_jobs, sym=None):
    from linear_operator.operators import LinearOperator
    names = [k for k in inst.names if k in req]
    P = inst.params(req)
    op = inst.build(P)
    rep = op.representation()
    chk.case(f"{cell}|{sorted(req)}|U={U.flatten()[:6].tolist()}", nontrivial=True)
    chk.count("bilinear:" + type(op).__name__)
    # spec: dense function
    Pd = inst.params(req)
    D = inst.dense(Pd)
    if tuple(D.shape) != tuple(op.shape):
        chk.violation(cell + "/shape", f"operator shape {tuple(op.shape)} vs dense {tuple(D.shape)}", payload)
        return
    loss = (U * (D @ V)).sum()
    gs = torch.autograd.grad(loss, [Pd[k] for k in names], allow_unused=True)
    spec = {k: zeros_like_none(g, Pd[k]) for k, g in zip(names, gs)}
    # impl: hand-written derivative
    grads = op._bilinear_derivative(U, V)
    err, red = check_tuple(rep, grads)
    if err:
        chk.violation(cell + "/tuple", err, payload)
        return
    impl = to_leaves(rep, red, P, names)
    tol = 1e-9
    bad = [k for k in names if not close(impl[k], spec[k], inst.exact, tol)]
    if bad:
        k = bad[0]
        chk.violation(cell + "/value", f"_bilinear_derivative gradient of leaf {k} {tuple(P[k].shape)}: impl {impl[k].flatten()[:6].tolist()} "
                      f"vs dense reference {spec[k].flatten()[:6].tolist()}", payload)
        return
    # impl: autograd of its own multiplication (base-class default on a detached rebuild)
    skip_auto = _has_interp(inst)  # autograd of Interpolated._matmul drops (part of) the graph of the interpolation values
    if not skip_auto:
        P2 = inst.params(req)
        op2 = inst.build(P2)
        g2 = LinearOperator._bilinear_derivative(op2, U, V)
        err2, red2 = check_tuple(op2.representation(), g2)
        if err2:
            chk.violation(cell + "/default-tuple", err2, payload)
            return
        auto = to_leaves(op2.representation(), red2, P2, names)
        bad = [k for k in names if not close(auto[k], spec[k], inst.exact, 1e-9)]
        if bad:
            k = bad[0]
            chk.violation(cell + "/autograd-of-matmul", f"autograd of (U * op._matmul(V)).sum() for leaf {k}: {auto[k].flatten()[:6].tolist()} vs dense "
                          f"reference {spec[k].flatten()[:6].tolist()}", payload)
            return
    # model: Lean dual-number model, member by member
    # (the un-memoised Lean model is slow on large trees: the driver gets the base catalogue only — batch rank <= 1, d <= 2)
    if inst.lean:
        lean_jobs.append(make_lean_job(inst, cell, P, U, V, d, names, impl, payload, sym))


def _has_interp(inst):
    def rec(node, nb):
        if node.kind == "interp":
            return True
        for kid in node.kids:
            kb = nb + (node.x["k"],) if node.kind in ("bdiag", "binter", "sbatch") else nb
            if rec(kid, kb):
                return True
        return False
    return rec(inst.node, tuple(inst.nb))


def make_lean_job(inst, cell, P, U, V, d, names, impl, payload, sym=None):
    lines, tags = [], []
    node = inst.node
    Pv = {k: v.detach() for k, v in P.items()}
    if node.kind == "brep":
        inner = tuple(node.x["inner"])
        rep = node.x["rep"]
        r = rep[0]
        for j in itertools.product(*[range(s) for s in inner]):
            toks, sc = ops.emit(node.kids[0], Pv, inner, j)
            tail = j if len(rep) == len(inner) + 1 else j[1:]
            Us = torch.stack([U[(q,) + tuple(tail)] for q in range(r)])
            Vs = torch.stack([V[(q,) + tuple(tail)] for q in range(r)])
            lines.append(f"brep {r} {d} {' '.join(toks)} {','.join(fr(s[0]) for s in sc) or '-'} {flat(Us)} {flat(Vs)}")
            tags.append(sc)
    else:
        for midx in itertools.product(*[range(s) for s in inst.nb]):
            toks, sc = ops.emit(node, Pv, inst.nb, midx)
            if sym is not None:
                Um, Vm = (sym[0][midx], sym[1][midx]) if inst.nb else sym
            else:
                Um = U[midx] if inst.nb else U
                Vm = V[midx] if inst.nb else V
            lines.append(f"{'bdsym' if sym is not None else 'bd'} {d} {' '.join(toks)} {','.join(fr(s[0]) for s in sc) or '-'} {flat(Um)} {flat(Vm)}")
            tags.append(sc)
    return {"cell": cell, "lines": lines, "tags": tags, "impl": {k: impl[k].detach().clone() for k in names},
            "shapes": {k: tuple(P[k].shape) for k in names}, "exact": inst.exact, "payload": payload}


def finish_lean_jobs(chk, lean_jobs):
    lines = [ln for job in lean_jobs for ln in job["lines"]]
    outs = chk.run_driver("C07", lines)
    if outs is None:
        return
    pos = 0
    for job in lean_jobs:
        acc = {k: torch.zeros(int(torch.Size(s).numel()) if len(s) else 1, dtype=torch.float64) for k, s in job["shapes"].items()}
        ok = True
        for sc in job["tags"]:
            o = outs[pos]
            pos += 1
            if o.startswith("bad"):
                chk.corr_break(job["cell"] + "/model", f"driver rejected the case: {o}", job["payload"])
                ok = False
                continue
            vals = [float(Fraction(x)) for x in o.split(",")] if o != "-" else []
            if len(vals) != len(sc):
                chk.corr_break(job["cell"] + "/model", f"driver returned {len(vals)} gradient entries for {len(sc)} parameters", job["payload"])
                ok = False
                continue
            for v, (_, name, idx) in zip(vals, sc):
                if name in acc:
                    acc[name][idx] += v
        if not ok:
            continue
        bad = None
        for k, a in acc.items():
            want = job["impl"][k].reshape(-1)
            if not close(a, want, job["exact"], 1e-9):
                bad = (k, a, want)
                break
        if bad:
            chk.corr_break(job["cell"] + "/model", f"Lean bilinDeriv (summed over batch members) for leaf {bad[0]}: {bad[1][:6].tolist()} vs impl {bad[2][:6].tolist()}",
                           job["payload"])
        else:
            chk.traces_validated += 1


# ---------------------------------------------------------------------------------------------- dual-number denote vs dense_fn
def denote_cases(chk, insts_by, only=None):
    """`denote` of the Lean model vs dense_fn, and its ε-part vs the JVP of dense_fn (validates the dual-number semantics
    that the theorems are stated against)."""
    lines, expect = [], []
    for (batch, mode), insts in insts_by.items():
        if mode not in ("full", "cpat"):
            continue
        for inst in insts:
            if not inst.lean or inst.node.kind == "brep":
                continue
            cell = f"C07/denote/{inst.name}<b={batch}>"
            if only and not cell.startswith(only):
                continue
            P = {k: v.clone() for k, v in inst.leaves.items()}
            dP = {k: ops.ri(chk.rng, v.shape, -2, 2) for k, v in inst.leaves.items()}
            names = inst.names
            D, JD = torch.autograd.functional.jvp(lambda *ts: inst.dense(dict(zip(names, ts))), tuple(P[k] for k in names), tuple(dP[k] for k in names))
            for midx in itertools.product(*[range(s) for s in inst.nb]):
                toks, sc = ops.emit(inst.node, P, inst.nb, midx)
                _, dsc = ops.emit(inst.node, dP, inst.nb, midx)
                ps = ",".join(fr(s[0]) for s in sc) or "-"
                ds = ",".join(fr(s[0]) for s in dsc) or "-"
                lines.append(f"den {' '.join(toks)} {ps}")
                expect.append((cell, (D[midx] if inst.nb else D).reshape(-1)))
                lines.append(f"dden {' '.join(toks)} {ps} {ds}")
                expect.append((cell, (JD[midx] if inst.nb else JD).reshape(-1)))
                n_, m_ = inst.shape()
                lines.append(f"dbil 2 {' '.join(toks)} {ps} {ds} {flat(ops.ri(chk.rng, (n_, 2), -2, 2))} {flat(ops.ri(chk.rng, (m_, 2), -2, 2))}")
                expect.append((cell + "/dbil", None))
            chk.case(cell, nontrivial=True, sample=False)
    outs = chk.run_driver("C07", lines)
    if outs is None:
        return
    for o, (cell, want) in zip(outs, expect):
        if o.startswith("bad"):
            chk.corr_break(cell, f"driver rejected: {o}", {"cell": cell})
            continue
        if want is None:  # model-internal: pair(bilinDeriv) vs bil(dDenote) (the statement of the main theorem, all classes)
            a, b = o.split(" ")
            if a == b:
                chk.traces_validated += 1
            else:
                chk.corr_break(cell, f"model: pair(bilinDeriv o θ U V, δ) = {a} but bil(dDenote o θ δ, U, V) = {b}", {"cell": cell})
            continue
        got = torch.tensor([float(Fraction(x)) for x in o.split(",")], dtype=torch.float64) if o != "-" else torch.zeros(0, dtype=torch.float64)
        if got.shape == want.shape and torch.equal(got, want.double()):
            chk.traces_validated += 1
        else:
            chk.corr_break(cell, f"Lean denote / dual-number derivative {got[:6].tolist()} vs dense_fn (JVP) {want[:6].tolist()}", {"cell": cell})


# ---------------------------------------------------------------------------------------------- (b) entry points
def eye_probes(self):
    n = self.shape[-1]
    pv = torch.eye(n, dtype=self.dtype).expand(*self.batch_shape, n, n).contiguous()
    norms = torch.full((*self.batch_shape, 1, n), float(n) ** 0.5, dtype=self.dtype)
    return pv, norms


def W(chk, shape):
    return ops.ri(chk.rng, tuple(shape), -2, 2)


def rhs_patterns(nb):
    """Every broadcast pattern of a rhs batch against a 2-dim operator batch (a,b) [or (a,1) against rhs batch (a,3)]."""
    a, b = nb[0], (nb[1] if nb[1] > 1 else 3)
    pats = [(a, b), (b,), (), (1, b), (a, 1), (1, 1), (4, a, b)]
    return ["pat" + str(p).replace(" ", "") for p in dict.fromkeys(pats) if p != tuple(nb)]


def rhs_shapes(batch, n, kind):
    if kind.startswith("pat"):
        return (*eval(kind[3:]), n, 2)
    if kind == "vec":
        return (n,)
    if kind == "mat":
        return (*batch, n, 2)
    if kind == "nobatch":
        return (n, 2)
    if kind == "extra":
        return (3, *batch, n, 2)
    if kind == "one":
        return (*((1,) * len(batch)), n, 1) if batch else (1, n, 1)
    raise KeyError(kind)


ENTRY_GENERIC = ["matmul", "rmatmul", "to_dense", "diagonal", "getitem", "sum", "t_matmul", "mul_const", "add_dense"]
ENTRY_PSD = ["solve", "solve_left", "inv_quad", "logdet", "inv_quad_logdet", "root", "root_inv", "pivoted_cholesky", "sqrt_inv_matmul"]
# factor-sensitive losses: the weighted output is the FACTOR itself (eigenvectors, Cholesky / pivoted Cholesky factor, Lanczos
# root and inverse root), so the incoming gradient of the factor is a full random matrix (U^T dL/dU is neither diagonal nor symmetric)
ENTRY_FACTOR = ["diag_fn", "diag_evecs", "rootdec_both", "chol_factor", "root_dense", "root_inv_dense", "pivchol_factor"]


def dense_like(inst):
    """the representation is the dense matrix itself (Dense, BatchRepeat over Dense)"""
    k = inst.node
    return k.kind == "dense" or (k.kind == "brep" and k.kids[0].kind == "dense")


def eig_aligned(A, hold):
    """eigh of the symmetrised dense matrix with columns ordered / signed like the implementation's eigenvectors (a piecewise
    constant choice: the eigenvector matrix is defined up to column order and signs)."""
    ev, Q = torch.linalg.eigh((A + A.mT) / 2)
    Qi = hold["Q"]
    C = Q.detach().mT @ Qi  # (ref column, impl column)
    idx = C.abs().argmax(-2)
    sgn = torch.sign(torch.gather(C, -2, idx.unsqueeze(-2)))
    Qa = torch.gather(Q, -1, idx.unsqueeze(-2).expand_as(Q)) * sgn
    return torch.gather(ev, -1, idx), Qa


def pivchol_ref(A, piv, rank):
    """Plain-torch pivoted Cholesky factor for GIVEN pivots (row order), differentiable in A: column m =
    (A[:, p_m] - L[:, :m] L[p_m, :m]^T) / sqrt(residual diagonal at p_m)."""
    A = (A + A.mT) / 2
    bs = A.shape[:-2]
    n = A.shape[-1]
    Af = A.reshape(-1, n, n)
    pf = piv.reshape(-1, n)
    outs = []
    for b in range(Af.shape[0]):
        cols = []
        for m in range(rank):
            pm = int(pf[b, m])
            col = Af[b, :, pm]
            for c in cols:
                col = col - c * c[pm]
            cols.append(col / torch.sqrt(col[pm]))
        outs.append(torch.stack(cols, -1))
    return torch.stack(outs, 0).reshape(*bs, n, rank)


def entry_fn(entry, op_or_dense, is_op, rhs, aux):
    """Returns the tensor output of the entry point (impl on the operator, reference on the dense matrix)."""
    A = op_or_dense
    if entry == "matmul":
        return A @ rhs if is_op else A @ rhs
    if entry == "t_matmul":
        return A.mT @ rhs
    if entry == "rmatmul":
        return rhs @ A
    if entry == "to_dense":
        return A.to_dense() if is_op else A
    if entry == "diagonal":
        return A.diagonal() if is_op else A.diagonal(dim1=-2, dim2=-1)
    if entry == "getitem":
        idx = aux["idx"]
        r = A[idx]
        return r.to_dense() if is_op and not torch.is_tensor(r) else r
    if entry == "sum":
        r = A.sum(aux["dim"])
        return r.to_dense() if is_op and not torch.is_tensor(r) else r
    if entry == "mul_const":
        r = A * aux["c"]
        r = r @ rhs
        return r
    if entry == "add_dense":
        r = A + aux["E"]
        return (r @ rhs)
    if entry == "solve":
        return A.solve(rhs) if is_op else torch.linalg.solve(A, rhs.unsqueeze(-1) if rhs.dim() == 1 else rhs).reshape(aux["outshape"])
    if entry == "solve_left":
        return A.solve(rhs, aux["left"]) if is_op else aux["left"] @ torch.linalg.solve(A, rhs)
    if entry == "inv_quad":
        if is_op:
            return A.inv_quad(rhs)
        r2 = rhs.unsqueeze(-1) if rhs.dim() == 1 else rhs
        return (r2 * torch.linalg.solve(A, r2)).sum((-2, -1))
    if entry == "logdet":
        return A.logdet() if is_op else torch.logdet(A)
    if entry == "inv_quad_logdet":
        if is_op:
            iq, ld = A.inv_quad_logdet(rhs, logdet=True)
            return iq * aux["w1"] + ld * aux["w2"]
        return (rhs * torch.linalg.solve(A, rhs)).sum((-2, -1)) * aux["w1"] + torch.logdet(A) * aux["w2"]
    if entry == "root":
        if is_op:
            R = A.root_decomposition().root
            return R.matmul(R.mT.matmul(rhs)) if not torch.is_tensor(R) else R @ (R.mT @ rhs)
        return A @ rhs
    if entry == "root_inv":
        if is_op:
            R = A.root_inv_decomposition().root
            return R.matmul(R.mT.matmul(rhs)) if not torch.is_tensor(R) else R @ (R.mT @ rhs)
        return torch.linalg.solve(A, rhs)
    if entry == "pivoted_cholesky":
        if is_op:
            L = A.pivoted_cholesky(rank=A.shape[-1])
            return L @ (L.mT @ rhs)
        return A @ rhs
    if entry in ("diag_fn", "diag_evecs"):
        hold = aux["_hold"]
        if is_op:
            ev, Q = A.diagonalization(method=aux.get("method"))
            Q = Q if torch.is_tensor(Q) else Q.to_dense()
            hold["Q"] = Q.detach()
        elif entry == "diag_evecs":
            ev, Q = eig_aligned(A, hold)
        else:
            ev, Q = torch.linalg.eigh((A + A.mT) / 2)
        if entry == "diag_evecs":  # the eigenvector matrix itself (and the eigenvalues)
            return torch.cat([Q, ev.unsqueeze(-2)], -2)
        f = torch.log if aux["f"] == "log" else torch.sqrt
        return Q @ torch.diag_embed(f(ev)) @ Q.mT  # weighted with a random NON-symmetric W by the caller
    if entry == "rootdec_both":
        hold = aux["_hold"]
        if is_op:
            from linear_operator.functions._root_decomposition import RootDecomposition
            R, Ri = RootDecomposition.apply(A.representation_tree(), A._root_decomposition_size(), A.dtype, A.device, A.batch_shape,
                                            A.matrix_shape, True, True, None, *A.representation())
            hold["R"], hold["W"], hold["A"] = R.detach(), Ri.detach(), A.to_dense().detach()
            return torch.cat([R, Ri], -2)
        # the root is defined up to an orthogonal factor; the reference follows the symmetric gauge dR = 1/2 dA R^-T of the
        # implementation's own root (Lean: rootDecomposition_backward shows this IS a first-order root and inverse root)
        R0, W0, A0 = hold["R"], hold["W"], hold["A"]
        dA = (A + A.mT) / 2 - (A0 + A0.mT) / 2
        dR = 0.5 * dA @ W0
        return torch.cat([R0 + dR, W0 - W0 @ dR.mT @ W0], -2)
    if entry == "chol_factor":
        return A.cholesky().to_dense() if is_op else torch.linalg.cholesky((A + A.mT) / 2)
    if entry == "root_dense":
        if is_op:
            R = A.root_decomposition().root
            return R if torch.is_tensor(R) else R.to_dense()
        return torch.linalg.cholesky((A + A.mT) / 2)
    if entry == "root_inv_dense":
        if is_op:
            R = A.root_inv_decomposition().root
            return R if torch.is_tensor(R) else R.to_dense()
        L = torch.linalg.cholesky((A + A.mT) / 2)
        return torch.linalg.solve_triangular(L, torch.eye(L.shape[-1], dtype=L.dtype).expand_as(L), upper=False).mT
    if entry == "pivchol_factor":
        hold = aux["_hold"]
        if is_op:
            L, piv = A.pivoted_cholesky(rank=aux["rank"], return_pivots=True)
            hold["piv"] = piv.detach().clone()
            return L
        return pivchol_ref(A, hold["piv"], aux["rank"])
    if entry == "sqrt_inv_matmul":
        if is_op:
            return A.sqrt_inv_matmul(rhs)
        ev, Q = torch.linalg.eigh((A + A.mT) / 2)
        return Q @ ((Q.mT @ rhs) / ev.sqrt().unsqueeze(-1))
    raise KeyError(entry)


def entry_cases(chk, insts_by, only=None):
    from linear_operator import settings
    quick = chk.tier == "quick"
    for (batch, mode), insts in insts_by.items():
        for inst in insts:
            n, m = inst.shape()
            entries = list(ENTRY_GENERIC)
            if inst.psd:
                entries += ENTRY_PSD
            if mode in ("cpat", "rpat1"):
                entries = ["matmul", "rmatmul", "t_matmul"] + (["solve", "solve_left", "inv_quad", "logdet"] if inst.psd else [])
            if inst.light:
                entries = ["matmul", "to_dense"] + (["solve", "inv_quad_logdet"] if inst.psd else [])
            if inst.psd and mode in ("full", "bcast") and not (quick and mode == "bcast"):
                entries += ENTRY_FACTOR
            for entry in entries:
                if entry in ("diagonal",) and n != m:
                    continue
                if quick and mode == "bcast" and entry in ("t_matmul", "mul_const", "add_dense", "sum", "getitem", "root_inv", "pivoted_cholesky", "sqrt_inv_matmul", "logdet"):
                    continue
                if quick and batch == (2,) and mode == "full" and entry in ("mul_const", "add_dense", "root_inv", "sqrt_inv_matmul"):
                    continue
                if entry == "sum" and False:
                    continue
                cfgs = [("default", False, None)]
                if entry in ("diag_fn", "diag_evecs"):  # default: symeig (eigh); chol0: the Lanczos `Diagonalization` function
                    cfgs = [("default", False, None), ("chol0", False, 0), ("lanczos", False, None)] + ([("chol0+memeff", True, 0)] if not quick else [])
                if entry == "rootdec_both":  # the Lanczos `RootDecomposition` function called directly (root AND inverse root)
                    cfgs = [("chol0", False, 0), ("chol0+memeff", True, 0)]
                if entry in ("matmul", "solve", "inv_quad", "root", "solve_left"):
                    cfgs.append(("memeff", True, None))
                if entry in ("solve", "solve_left", "inv_quad", "logdet", "inv_quad_logdet", "root", "root_inv"):
                    cfgs.append(("chol0", False, 0))
                    if not quick:
                        cfgs.append(("chol0+memeff", True, 0))
                if entry in ("matmul", "t_matmul"):
                    rkinds = ["vec", "mat", "extra", "one"] + (["nobatch"] if inst.nb else [])
                elif entry in ("solve", "inv_quad"):
                    rkinds = (["vec"] if not inst.nb else []) + ["mat"] + (["nobatch"] if inst.nb and not quick else [])
                else:
                    rkinds = ["mat"]
                pat_entry = len(inst.nb) == 2 and entry in ("matmul", "t_matmul", "rmatmul", "solve", "solve_left", "inv_quad")
                if pat_entry:  # right-hand sides / left factors with every broadcast pattern against the 2-dim operator batch
                    rkinds = rkinds + rhs_patterns(inst.nb)
                for (cname, memeff, cholsz), rk in itertools.product(cfgs, rkinds):
                    if rk.startswith("pat") and quick and cname not in ("default", "memeff"):
                        continue
                    if quick and mode == "bcast" and (cname != "default" or rk not in ("mat", "vec")):
                        continue
                    if quick and cname == "memeff" and rk not in ("mat",) and not rk.startswith("pat"):
                        continue
                    sks = ("all", "partial") if (quick or entry not in ("matmul", "solve")) else ("all", "partial", "single")
                    # (leaf subset kind, rhs requires grad, left factor requires grad); None = seed-random
                    combos = [(sk, True if sk == "all" else None, True if sk == "all" else None) for sk in sks]
                    has_rhs = entry not in ("to_dense", "diagonal", "getitem", "sum", "logdet") and entry not in ENTRY_FACTOR
                    if entry == "solve_left":  # ALL requires_grad subsets of {L, R, operator leaves}
                        combos = [(lk, r, l) for lk in ("all", "none", "partial") for r in (True, False) for l in (True, False)
                                  if not (lk == "none" and not r and not l)]
                    elif rk.startswith("pat"):
                        combos = [("all", True, None), ("none", True, None)]
                    elif has_rhs and (not quick or (cname == "default" and rk == "mat")):
                        combos += [("none", True, None), ("all", False, None)]  # only the rhs / only the leaves
                    for sk, rreq, lreq in combos:
                        if quick and sk == "partial" and (cname != "default" or rk != "mat") and entry not in ("solve", "inv_quad_logdet", "solve_left"):
                            continue
                        if rk.startswith("pat") and entry == "solve_left" and not (rreq or lreq):
                            continue
                        if rk.startswith("pat") and entry == "solve_left" and quick and sk == "partial":
                            continue
                        if quick and entry == "solve_left" and cname == "memeff" and sk == "partial":
                            continue
                        rkl = "vec@batched" if rk == "vec" and inst.nb else rk
                        tag = sk if (rreq is None or (rreq and sk == "all" and lreq in (None, True) and entry != "solve_left")) else \
                            f"{sk}+R{int(bool(rreq))}" + (f"L{int(bool(lreq))}" if entry == "solve_left" else "")
                        elab = entry
                        if entry in ("diag_fn", "diag_evecs"):  # Diagonalization.backward returns ONE dense gradient: see D37
                            elab = f"{entry}<rep={'dense' if dense_like(inst) else 'structured'}>"
                        cell = f"C07/entry/{elab}/{inst.name}<b={batch}|{mode}>/rhs={rkl}/cfg={cname}/req={tag}"
                        if only and not cell.startswith(only):
                            continue
                        payload = {"cell": cell, "seed": chk.seed, "tier": chk.tier}
                        try:
                            one_entry(chk, inst, entry, rk, cname, memeff, cholsz, sk, cell, payload, settings, rreq, lreq)
                        except Exception as e:  # noqa
                            chk.violation(cell + "/exception", f"{type(e).__name__}: {str(e)[:300]}", payload)


def one_entry(chk, inst, entry, rk, cname, memeff, cholsz, sk, cell, payload, settings, rreq=None, lreq=None):
    n, m = inst.shape()
    nb = inst.nb
    req = set() if sk == "none" else subset_of(chk.rng, inst.names, sk)
    rhs_req = (chk.rng.random() < 0.7) if rreq is None else bool(rreq)
    left_req = rhs_req if lreq is None else bool(lreq)
    names = [k for k in inst.names if k in req]
    aux = {}
    rows = n if entry in ("rmatmul", "t_matmul") else m
    if entry == "rmatmul":
        rshape = (*nb, 2, n) if rk == "mat" else ((*eval(rk[3:]), 2, n) if rk.startswith("pat") else (n,))
    else:
        rshape = rhs_shapes(nb, rows, rk)
    rhs0 = ops.ri(chk.rng, rshape, -2, 2)
    if entry in ("to_dense", "diagonal", "getitem", "sum", "logdet") or entry in ENTRY_FACTOR:
        rhs0 = None
        rhs_req = False
    if entry in ENTRY_FACTOR:
        aux["_hold"] = {}  # values of the implementation side that fix a piecewise-constant choice of the reference (signs, pivots, gauge)
        aux["f"] = chk.rng.choice(["log", "sqrt"])
        aux["rank"] = chk.rng.choice([n, max(1, n - 1)])
        # eigenvector / factor gradients scale with 1 / eigenvalue gap: only well-separated spectra
        ev = torch.linalg.eigvalsh(inst.dense(inst.params()).detach())
        gap = float(((ev[..., 1:] - ev[..., :-1]).min(-1).values / ev.max(-1).values).min()) if ev.shape[-1] > 1 else 1.0
        if entry in ("diag_fn", "diag_evecs") and gap < 3e-2:
            chk.count("skipped:eigengap:" + entry)
            return
        if float(ev.min()) <= 1e-6:
            chk.count("skipped:not-pd:" + entry)
            return
    if entry == "getitem":
        choices = [(Ellipsis, slice(0, max(1, n - 1)), slice(None)), (Ellipsis, slice(None), slice(1, m)), (Ellipsis, slice(0, n, 2), slice(0, m, 2))]
        if nb:
            choices += [(0,), (slice(0, 1),)]
        aux["idx"] = chk.rng.choice(choices)
    if entry == "sum":
        aux["dim"] = chk.rng.choice([-1, -2] + ([0] if nb else []))
    if entry == "mul_const":
        aux["c"] = float(chk.rng.choice([-2, 2, 3]))
    if entry == "add_dense":
        aux["E"] = ops.ri(chk.rng, (*nb, n, m), -2, 2)
    if entry == "solve_left":
        lb = eval(chk.rng.choice(rhs_patterns(nb))[3:]) if rk.startswith("pat") else nb  # the left factor gets a pattern of its own
        aux["left"] = ops.ri(chk.rng, (*lb, 2, n), -2, 2)
    if entry == "inv_quad_logdet":
        aux["w1"], aux["w2"] = float(chk.rng.randint(1, 3)), float(chk.rng.randint(1, 3))
    exact = inst.exact and entry in ENTRY_GENERIC and entry != "mul_const"
    if cname == "lanczos":
        aux["method"] = "lanczos"  # the Diagonalization function requested explicitly, default max_cholesky_size
    iterative = (cholsz == 0 and entry != "rootdec_both") or cname == "lanczos" or entry in ("sqrt_inv_matmul", "pivoted_cholesky", "root", "root_inv")
    tol = 1e-9 if exact else (2e-4 if iterative else 1e-7)
    if entry == "sqrt_inv_matmul":
        tol = 5e-3
    if entry in ("root", "root_inv") and cholsz == 0:  # Lanczos (random start vector, FFT noise for Toeplitz): approximate factor
        tol = 2e-2

    def run_side(is_op):
        P = inst.params(req)
        rhs = None if rhs0 is None else rhs0.clone().requires_grad_(rhs_req)
        a2 = dict(aux)
        if "left" in a2:
            a2["left"] = a2["left"].clone().requires_grad_(left_req)
        A = inst.build(P) if is_op else inst.dense(P)
        if entry == "solve":
            a2["outshape"] = None
        if not is_op and entry == "solve":
            r2 = rhs.unsqueeze(-1) if rhs.dim() == 1 else rhs
            out = torch.linalg.solve(A, r2)
            out = out.squeeze(-1) if rhs.dim() == 1 else out
        elif not is_op and entry in ("matmul", "t_matmul", "rmatmul", "mul_const", "add_dense") and rhs.dim() == 1:
            AA = A.mT if entry == "t_matmul" else A
            if entry == "mul_const":
                AA = AA * a2["c"]
            if entry == "add_dense":
                AA = AA + a2["E"]
            out = (rhs.unsqueeze(-2) @ AA).squeeze(-2) if entry == "rmatmul" else (AA @ rhs.unsqueeze(-1)).squeeze(-1)
        else:
            out = entry_fn(entry, A, is_op, rhs, a2)
        inputs = [P[k] for k in names] + ([rhs] if rhs_req and rhs is not None else []) + ([a2["left"]] if "left" in a2 and left_req else [])
        return out, inputs, P

    with ExitStack() as st:
        if memeff:
            st.enter_context(settings.memory_efficient(True))
        if cholsz is not None:
            st.enter_context(settings.max_cholesky_size(cholsz))
            st.enter_context(settings.cg_tolerance(1e-10))
            st.enter_context(settings.max_cg_iterations(200))
            st.enter_context(settings.max_lanczos_quadrature_iterations(50))
            st.enter_context(settings.num_trace_samples(8))
        if entry == "sqrt_inv_matmul":
            st.enter_context(settings.minres_tolerance(1e-9))
            st.enter_context(settings.num_contour_quadrature(40))
            st.enter_context(settings.max_cg_iterations(400))
        if entry in ("logdet", "inv_quad_logdet") and cholsz == 0:
            from linear_operator.operators import LinearOperator
            st.enter_context(mock.patch.object(LinearOperator, "_probe_vectors_and_norms", eye_probes))
        torch.manual_seed(chk.rng.randrange(2 ** 31))
        try:
            out_i, in_i, P_i = run_side(True)
        except Exception as e:  # the FORWARD computation fails: not a gradient question (C01-C06, C19)
            chk.count("skipped:forward-raises")
            chk.count(f"skipped:forward-raises:{entry}:{type(e).__name__}")
            return
        w = W(chk, out_i.shape)
        lanczos = entry in ("root", "root_inv", "rootdec_both") and cholsz == 0
        try:
            gi = torch.autograd.grad((out_i * w).sum(), in_i, allow_unused=True) if in_i else []
        except Exception as e:
            if lanczos and ("nan" in str(e).lower() or "ambiguous" in str(e)):  # (Toeplitz: NaN != NaN trips the c[0] == r[0] guard)  # Lanczos breakdown (spurious zero Ritz value -> NaN inverse root): C09's concern
                chk.count("skipped:lanczos-breakdown")
                return
            raise
        if lanczos and any(g is not None and bool(torch.isnan(g).any()) for g in gi):
            chk.count("skipped:lanczos-breakdown")
            return
    out_r, in_r, P_r = run_side(False)
    if entry == "sqrt_inv_matmul":  # the eigh-based reference gradient is unreliable for (nearly) repeated eigenvalues
        ev = torch.linalg.eigvalsh(inst.dense(inst.params()).detach())
        if ev.shape[-1] > 1 and float(((ev[..., 1:] - ev[..., :-1]).min(-1).values / ev.max(-1).values).min()) < 2e-2:
            chk.count("skipped:reference-eigengap")
            return
    chk.case(f"{cell}|{sorted(req)}|rhsreq={rhs_req}|w={w.flatten()[:4].tolist()}", nontrivial=True)
    chk.count("entry:" + entry)
    chk.count("cfg:" + cname)
    if tuple(out_i.shape) != tuple(out_r.shape):
        chk.count("skipped:forward-shape")
        return
    stochastic_value = entry in ("logdet", "inv_quad_logdet") and cholsz == 0
    ftol = 2e-3 if (entry in ("root", "root_inv") and cholsz == 0) else tol * 10  # an inaccurate Lanczos root is a forward question
    if not stochastic_value and not close(out_i.detach(), out_r.detach(), exact, ftol):
        chk.count("skipped:forward-value")
        chk.count(f"skipped:forward-value:{entry}")
        return
    gr = torch.autograd.grad((out_r * w).sum(), in_r, allow_unused=True) if in_r else []
    labels = names + (["<rhs>"] if rhs_req and rhs0 is not None else []) + (["<left>"] if "left" in aux and left_req else [])
    for lab, a, b, ref_t in zip(labels, gi, gr, in_r):
        if a is None and b is not None and bool((b != 0).any()):
            chk.violation(cell + "/grad-none", f"{lab} {tuple(ref_t.shape)} requires grad but backpropagation delivers None; the dense reference "
                          f"gradient is {b.flatten()[:6].tolist()}", payload)
            return
        a = zeros_like_none(a, ref_t)
        b = zeros_like_none(b, ref_t)
        if bool(torch.isnan(b).any()):  # the plain-torch reference is not differentiable here (eigh with repeated eigenvalues)
            chk.count("skipped:reference-nan")
            continue
        if lab in inst.sym and (entry in ENTRY_PSD or entry in ENTRY_FACTOR):
            a, b = (a + a.mT) / 2, (b + b.mT) / 2
        if not close(a, b, exact, tol):
            chk.violation(cell + "/grad", f"gradient w.r.t. {lab} {tuple(ref_t.shape)}: impl {a.flatten()[:6].tolist()} vs dense reference {b.flatten()[:6].tolist()} "
                          f"(max abs diff {float((a - b).abs().max()):.3e})", payload)
            return


# ---------------------------------------------------------------------------------------------- memory_efficient / slots
def slots_cases(chk, insts_by):
    """representation() kinds and the gradient-tuple kinds of the model vs the implementation."""
    lines, expect = [], []
    for (batch, mode), insts in insts_by.items():
        if mode != "full" or batch != ():
            continue
        for inst in insts:
            if not inst.lean or inst.node.kind == "brep":
                continue
            P = inst.params()
            op = inst.build(P)
            rep = op.representation()
            n, m = inst.shape()
            try:
                g = op._bilinear_derivative(torch.ones(n, 1, dtype=torch.float64), torch.ones(m, 1, dtype=torch.float64))
            except Exception:  # reported by the bilinear cells
                continue
            srep = "".join("f" if r.dtype.is_floating_point else ("m" if r.dtype == torch.bool else "i") for r in rep)
            sg = "".join("n" if x is None else ("z" if not r.dtype.is_floating_point else "g") for x, r in zip(g, rep))
            toks, _ = ops.emit(inst.node, {k: v.detach() for k, v in P.items()}, inst.nb, ())
            lines.append("slots " + " ".join(toks))
            expect.append((f"C07/slots/{inst.name}", f"{srep} {sg}"))
            chk.case(f"C07/slots/{inst.name}", nontrivial=True, sample=False)
    outs = chk.run_driver("C07", lines)
    if outs is None:
        return
    for o, (cell, want) in zip(outs, expect):
        if o == want:
            chk.traces_validated += 1
        else:
            chk.corr_break(cell, f"model representation/gradient kinds `{o}` vs implementation `{want}`", {"cell": cell})


def bcast_cases(chk):
    """Lean `bcastSum` (gradient of a broadcast parameter, arbitrary pattern) vs torch's reduction of an expanded gradient
    (`sum_to_size`, what autograd applies and what the hand-written reduction loops must equal)."""
    lines, expect = [], []
    for full in ((2, 3), (3, 2, 2), (4,)):
        pats = [()] + [full[i:] for i in range(len(full))]
        for mask in itertools.product((0, 1), repeat=len(full)):
            pats.append(tuple(1 if z else f for f, z in zip(full, mask)))
        for pat in sorted(set(pats), key=str):
            g = ops.ri(chk.rng, full, -3, 3)
            small = torch.arange(int(torch.Size(pat).numel()) if pat else 1).reshape(pat)
            pi = small.expand(full).reshape(-1).tolist()
            want = (g.sum_to_size(pat) if pat else g.sum()).reshape(-1)
            lines.append(f"bsum {small.numel()} {','.join(map(str, pi))} {flat(g)}")
            expect.append((f"C07/bcast/full={full}/pattern={pat}", want))
            chk.case(f"C07/bcast/full={full}/pattern={pat}|{g.flatten()[:4].tolist()}", nontrivial=True, sample=False)
    outs = chk.run_driver("C07", lines)
    if outs is None:
        return
    for o, (cell, want) in zip(outs, expect):
        got = torch.tensor([float(Fraction(x)) for x in o.split(",")], dtype=torch.float64) if not o.startswith("bad") else None
        if got is not None and got.shape == want.shape and torch.equal(got, want):
            chk.traces_validated += 1
        else:
            chk.corr_break(cell, f"model bcastSum `{o[:80]}` vs torch sum_to_size {want.tolist()[:8]}", {"cell": cell})


# ---------------------------------------------------------------------------------------------- (session 5) entry points vs the model
ENTRY_MODEL = ["to_dense", "diagonal", "getitem", "sum-1", "sum-2"]


def entry_model_cases(chk, insts_by, only=None):
    """Entry points that reach `_bilinear_derivative` through Matmul with a special right-hand side, against the Lean model's
    `toDenseBackward` / `diagonalBackward` / `getitemBackward` / `sumLastBackward` / `sumFirstBackward` (= `bilinDeriv` with the
    factors (G, eye), (diag g, eye), (g e_i, e_j), (g, ones), (ones, g); theorems toDense_backward .. sum_backward): backprop of the
    weighted output on the implementation = dense reference = Lean model summed over batch members (exact on integer data).
    Own random stream (does not shift the values of the older cells)."""
    rng = random.Random(f"C07x:{chk.seed}")
    quick = chk.tier == "quick"
    lean_jobs = []
    for (batch, mode), insts in insts_by.items():
        if mode not in ("full", "bcast") or len(batch) > 1:
            continue
        if quick and (batch, mode) == ((2,), "full"):
            continue
        for inst in insts:
            if not inst.lean:
                continue
            n, m = inst.shape()
            nb = tuple(inst.nb)
            entries = list(ENTRY_MODEL)
            if quick and mode == "bcast":
                entries = ["to_dense", rng.choice(ENTRY_MODEL[1:])]
            for entry in entries:
                if entry == "diagonal" and n != m:
                    continue
                for sk in (("all", "partial") if entry == "to_dense" and not (quick and mode == "bcast") else ("all",)):
                    cell = f"C07/entry-model/{entry}/{inst.name}<b={batch}|{mode}>/req={sk}"
                    if only and not cell.startswith(only):
                        continue
                    payload = {"cell": cell, "seed": chk.seed, "tier": chk.tier}
                    try:
                        one_entry_model(chk, rng, inst, entry, sk, cell, payload, lean_jobs, n, m, nb)
                    except Exception as e:  # noqa
                        chk.violation(cell + "/exception", f"{type(e).__name__}: {str(e)[:300]}", payload)
    finish_lean_jobs(chk, lean_jobs)


def one_entry_model(chk, rng, inst, entry, sk, cell, payload, lean_jobs, n, m, nb):
    req = subset_of(rng, inst.names, sk)
    names = [k for k in inst.names if k in req]
    eye = lambda k: torch.eye(k, dtype=torch.float64).expand(*nb, k, k).contiguous()  # noqa
    ones = lambda k: torch.ones(*nb, k, 1, dtype=torch.float64)  # noqa
    if entry == "to_dense":
        Wt = ops.ri(rng, (*nb, n, m), -2, 2)
        U, V, d = Wt, eye(m), m
        f = lambda A, is_op: ((A.to_dense() if is_op else A) * Wt).sum()  # noqa
    elif entry == "diagonal":
        g = ops.ri(rng, (*nb, n), -2, 2)
        U, V, d = torch.diag_embed(g), eye(n), n
        f = lambda A, is_op: ((A.diagonal() if is_op else A.diagonal(dim1=-2, dim2=-1)) * g).sum()  # noqa
    elif entry == "getitem":
        i, j = rng.randrange(n), rng.randrange(m)
        g = ops.ri(rng, (*nb,), 1, 3) if nb else torch.tensor(float(rng.randint(1, 3)), dtype=torch.float64)
        U = torch.zeros(*nb, n, 1, dtype=torch.float64)
        U[..., i, 0] = g
        V = torch.zeros(*nb, m, 1, dtype=torch.float64)
        V[..., j, 0] = 1.0
        d = 1
        cell_ij = (i, j)

        def f(A, is_op):
            r = A[..., cell_ij[0], cell_ij[1]]
            r = r.to_dense() if not torch.is_tensor(r) else r
            return (r * g).sum()
    elif entry == "sum-1":
        g = ops.ri(rng, (*nb, n), -2, 2)
        U, V, d = g.unsqueeze(-1).contiguous(), ones(m), 1

        def f(A, is_op):
            r = A.sum(-1)
            r = r.to_dense() if not torch.is_tensor(r) else r
            return (r * g).sum()
    else:
        g = ops.ri(rng, (*nb, m), -2, 2)
        U, V, d = ones(n), g.unsqueeze(-1).contiguous(), 1

        def f(A, is_op):
            r = A.sum(-2)
            r = r.to_dense() if not torch.is_tensor(r) else r
            return (r * g).sum()
    U, V = U.double(), V.double()
    chk.case(f"{cell}|{sorted(req)}|U={U.flatten()[:6].tolist()}", nontrivial=True)
    chk.count("entry-model:" + entry)
    Pd = inst.params(req)
    gs = torch.autograd.grad(f(inst.dense(Pd), False), [Pd[k] for k in names], allow_unused=True) if names else []
    spec = {k: zeros_like_none(x, Pd[k]) for k, x in zip(names, gs)}
    P = inst.params(req)
    op = inst.build(P)
    try:
        val = f(op, True)
    except Exception:  # forward failure: not a gradient question
        chk.count("skipped:forward-raises")
        return
    gi = torch.autograd.grad(val, [P[k] for k in names], allow_unused=True) if (names and val.requires_grad) else [None] * len(names)
    impl = {k: zeros_like_none(x, P[k]) for k, x in zip(names, gi)}
    bad = [k for k in names if not close(impl[k], spec[k], inst.exact, 1e-9)]
    if bad:
        k = bad[0]
        chk.violation(cell + "/grad", f"gradient of the weighted {entry} output w.r.t. leaf {k} {tuple(P[k].shape)}: impl {impl[k].flatten()[:6].tolist()} "
                      f"vs dense reference {spec[k].flatten()[:6].tolist()}", payload)
        return
    lean_jobs.append(make_lean_job(inst, cell, P, U, V, d, names, impl, payload))


def bilinear_mixed_cases(chk, insts_by, only=None):
    """Direct `_bilinear_derivative(U, V)` calls with the MIXED batch shapes that the Functions' backward passes produce
    (`Matmul.backward`: grad_output carries the full broadcast batch, the saved rhs may have fewer / size-1 / no batch dims; an
    extra leading batch dim on both): implementation (tuple discipline, values pulled back to the leaves) = dense reference
    `autograd((U * (D @ V)).sum())` = Lean `bilinDeriv` per (broadcast) batch member, summed — exact.  U always carries the
    full batch (the only shape reachable through the entry points)."""
    rng = random.Random(f"C07m:{chk.seed}")
    quick = chk.tier == "quick"
    lean_jobs = []
    for (batch, mode), insts in insts_by.items():
        if mode not in ("full", "bcast") or len(batch) > 1 or (quick and mode == "bcast"):
            continue
        for inst in insts:
            if not inst.lean or inst.node.kind == "brep":
                continue
            n, m = inst.shape()
            nb = tuple(inst.nb)
            # V = the saved rhs (any batch broadcastable against the operator's), U = grad_output: batch = broadcast(op batch, rhs batch)
            vbs = [(), (1,) * len(nb), (3,) + nb, (3,) + (1,) * len(nb)] if nb else [(3,), (2, 3), (1,)]
            pats = [(tuple(torch.broadcast_shapes(nb, vb)), vb) for vb in vbs]
            if quick:
                pats = [pats[0], rng.choice(pats[1:])]
            for ub, vb in pats:
                cell = f"C07/bilinear-mixed/{inst.name}<b={batch}|{mode}>/U={ub}/V={vb}".replace(" ", "")
                if only and not cell.startswith(only):
                    continue
                payload = {"cell": cell, "seed": chk.seed, "tier": chk.tier}
                d = 2
                U = ops.ri(rng, (*ub, n, d), -2, 2).double()
                V = ops.ri(rng, (*vb, m, d), -2, 2).double()
                try:
                    one_bilinear_mixed(chk, inst, cell, U, V, ub, vb, d, n, m, nb, payload, lean_jobs)
                except Exception as e:  # noqa
                    chk.violation(cell + "/exception", f"{type(e).__name__}: {str(e)[:300]}", payload)
    finish_lean_jobs(chk, lean_jobs)


def one_bilinear_mixed(chk, inst, cell, U, V, ub, vb, d, n, m, nb, payload, lean_jobs):
    names = list(inst.names)
    req = set(names)
    chk.case(f"{cell}|U={U.flatten()[:6].tolist()}", nontrivial=True)
    chk.count("bilinear-mixed:" + str(len(ub)) + "/" + str(len(vb)))
    Pd = inst.params(req)
    D = inst.dense(Pd)
    gs = torch.autograd.grad((U * (D @ V)).sum(), [Pd[k] for k in names], allow_unused=True)
    spec = {k: zeros_like_none(g, Pd[k]) for k, g in zip(names, gs)}
    P = inst.params(req)
    op = inst.build(P)
    rep = op.representation()
    grads = op._bilinear_derivative(U, V)
    err, red = check_tuple(rep, grads)
    if err:
        chk.violation(cell + "/tuple", err, payload)
        return
    impl = to_leaves(rep, red, P, names)
    bad = [k for k in names if not close(impl[k], spec[k], inst.exact, 1e-9)]
    if bad:
        k = bad[0]
        chk.violation(cell + "/value", f"_bilinear_derivative(U batch {ub}, V batch {vb}) gradient of leaf {k} {tuple(P[k].shape)}: impl "
                      f"{impl[k].flatten()[:6].tolist()} vs dense reference {spec[k].flatten()[:6].tolist()}", payload)
        return
    full = torch.broadcast_shapes(tuple(ub), tuple(vb), nb)
    Ub = U.expand(*full, n, d)
    Vb = V.expand(*full, m, d)
    Pv = {k: v.detach() for k, v in P.items()}
    lines, tags = [], []
    for idx in itertools.product(*[range(s) for s in full]):
        midx = idx[len(full) - len(nb):] if nb else ()
        toks, sc = ops.emit(inst.node, Pv, inst.nb, midx)
        lines.append(f"bd {d} {' '.join(toks)} {','.join(fr(s[0]) for s in sc) or '-'} {flat(Ub[idx])} {flat(Vb[idx])}")
        tags.append(sc)
    lean_jobs.append({"cell": cell, "lines": lines, "tags": tags, "impl": {k: impl[k].detach().clone() for k in names},
                      "shapes": {k: tuple(P[k].shape) for k in names}, "exact": inst.exact, "payload": payload})


def skip_logdet_cases(chk, insts_by, only=None):
    """`settings.skip_logdet_forward` must not change any gradient of inv_quad_logdet (InvQuadLogdet function, CG path with the
    complete orthonormal probe set): flag on vs off identical, and both equal to the dense reference; theorem
    invQuadLogdet_settings_irrelevant.  Crossed with memory_efficient."""
    from linear_operator import settings
    from linear_operator.operators import LinearOperator
    rng = random.Random(f"C07s:{chk.seed}")
    quick = chk.tier == "quick"
    for (batch, mode), insts in insts_by.items():
        if mode != "full" or len(batch) > 1:
            continue
        for inst in insts:
            if not inst.psd or (quick and inst.light and batch != ()):
                continue
            n, _ = inst.shape()
            for memeff in ((False,) if quick and batch != () else (False, True)):
                cell = f"C07/entry-skiplogdet/{inst.name}<b={batch}|{mode}>/memeff={int(memeff)}"
                if only and not cell.startswith(only):
                    continue
                payload = {"cell": cell, "seed": chk.seed, "tier": chk.tier}
                rhs0 = ops.ri(rng, (*inst.nb, n, 2), -2, 2).double()
                w1, w2 = float(rng.randint(1, 3)), float(rng.randint(1, 3))
                names = list(inst.names)
                res = {}
                tseed = rng.randrange(2 ** 31)
                try:
                    for skip in (False, True):
                        with ExitStack() as st:
                            st.enter_context(settings.skip_logdet_forward(skip))
                            st.enter_context(settings.memory_efficient(memeff))
                            st.enter_context(settings.max_cholesky_size(0))
                            st.enter_context(settings.cg_tolerance(1e-10))
                            st.enter_context(settings.max_cg_iterations(200))
                            st.enter_context(settings.max_lanczos_quadrature_iterations(50))
                            st.enter_context(mock.patch.object(LinearOperator, "_probe_vectors_and_norms", eye_probes))
                            P = inst.params(set(names))
                            rhs = rhs0.clone().requires_grad_(True)
                            torch.manual_seed(tseed)  # same random start vectors (Lanczos / preconditioner) under both flag values
                            iq, ld = inst.build(P).inv_quad_logdet(rhs, logdet=True)
                            out = (iq * w1 + ld * w2).sum()
                            gi = torch.autograd.grad(out, [P[k] for k in names] + [rhs], allow_unused=True)
                            res[skip] = ([zeros_like_none(x, t) for x, t in zip(gi, [P[k] for k in names] + [rhs])], ld.detach())
                except Exception as e:  # noqa
                    chk.count("skipped:forward-raises")
                    chk.count(f"skipped:forward-raises:skiplogdet:{type(e).__name__}")
                    continue
                chk.case(f"{cell}|rhs={rhs0.flatten()[:4].tolist()}", nontrivial=True)
                chk.count("entry:skip_logdet_forward")
                Pd = inst.params(set(names))
                rd = rhs0.clone().requires_grad_(True)
                A = inst.dense(Pd)
                outd = ((rd * torch.linalg.solve(A, rd)).sum((-2, -1)) * w1 + torch.logdet(A) * w2).sum()
                gr = torch.autograd.grad(outd, [Pd[k] for k in names] + [rd], allow_unused=True)
                labels = names + ["<rhs>"]
                failed = False
                for lab, a0, a1, b, t in zip(labels, res[False][0], res[True][0], gr, [Pd[k] for k in names] + [rd]):
                    b = zeros_like_none(b, t)
                    if lab in inst.sym:
                        a0, a1, b = (a0 + a0.mT) / 2, (a1 + a1.mT) / 2, (b + b.mT) / 2
                    if not close(a1, a0, False, 1e-6):  # two runs of an iterative solve (cg_tolerance 1e-10); not bitwise
                        chk.violation(cell + "/flag-dependence", f"gradient w.r.t. {lab} differs with skip_logdet_forward on vs off: "
                                      f"{a1.flatten()[:6].tolist()} vs {a0.flatten()[:6].tolist()}", payload)
                        failed = True
                        break
                    if not close(a1, b, False, 2e-4):
                        chk.violation(cell + "/grad", f"skip_logdet_forward(True): gradient w.r.t. {lab} {tuple(t.shape)}: impl {a1.flatten()[:6].tolist()} vs dense "
                                      f"reference {b.flatten()[:6].tolist()}", payload)
                        failed = True
                        break
                if not failed:
                    chk.traces_validated += 1


MULTI_CLASSES = ["Dense<psd>", "AddedDiag(Dense<psd>,Diag)", "Kronecker(Dense<psd>,Dense<psd>)", "Toeplitz", "Sum(Toeplitz,Diag)",
                 "ConstantMul(Dense<psd>)", "LowRankRootAddedDiag"]


def multi_output_cases(chk, only=None):
    """Entry points that return SEVERAL outputs / one output per column, with a NON-TRIVIAL upstream gradient on every output
    (per-batch, per-row / per-column integer weights — never `.sum()`), on BATCHED operators whose batch size is (a) different
    from N and (b) EQUAL to N (a mis-aligned unsqueeze of the upstream gradient then broadcasts silently), float64:
      * sqrt_lhs  — `op.sqrt_inv_matmul(rhs, lhs)` -> (lhs A^-1/2 rhs, diag(lhs A^-1 lhs^T)); number of lhs rows l in {2, N};
                    theorem sqrtInvMatmul_backward_lhs (sqrt block + weighted inv_quad block);
      * iq_cols   — `op.inv_quad(rhs, reduce_inv_quad=False)` (one value per column; theorem invQuad_backward_weighted);
      * iql_cols  — `op.inv_quad_logdet(rhs, logdet=True, reduce_inv_quad=False)` (per-column inv_quad AND per-batch logdet),
                    Cholesky path and CG path (complete orthonormal probe set);
    gradients w.r.t. lhs, rhs and every operator tensor (and each of them alone: the needs_input_grad branches) against the dense
    reference (eigh-based inverse square root / torch.linalg.solve / logdet).  Own random stream."""
    from linear_operator import settings
    from linear_operator.operators import LinearOperator
    rng = random.Random(f"C07q:{chk.seed}")
    quick = chk.tier == "quick"
    by_batch = {b: {i.name: i for i in ops.instances(rng, (b,), 3, mode="full", psd=True)} for b in (2, 3, 6)}
    for cname in MULTI_CLASSES:
        if cname not in by_batch[2]:
            continue
        N = by_batch[2][cname].shape()[0]
        for b in (2, N):
            inst = by_batch.get(b, {}).get(cname)
            if inst is None:
                continue
            kinds = [("sqrt_lhs", l_) for l_ in ((N if b == N else 2,) if quick else (2, N))] + [("iq_cols", 0), ("iql_cols", 0)]
            for kind, l_ in kinds:
                cfgs = ["default", "chol0"] if kind == "iql_cols" else ["default"]
                reqs = ["all", "lhs", "rhs", "leaves"] if kind == "sqrt_lhs" else ["all", "rhs", "leaves"]
                if quick:
                    reqs = ["all", rng.choice(reqs[1:])]
                for cfg, rq in itertools.product(cfgs, reqs):
                    cell = f"C07/entry-multi/{kind}/{cname}<b=({b},)|N={N}>/l={l_}/cfg={cfg}/req={rq}"
                    if only and not cell.startswith(only):
                        continue
                    payload = {"cell": cell, "seed": chk.seed, "tier": chk.tier}
                    try:
                        one_multi_output(chk, rng, inst, kind, l_, N, b, cfg, rq, cell, payload, settings, LinearOperator)
                    except Exception as e:  # noqa
                        chk.violation(cell + "/exception", f"{type(e).__name__}: {str(e)[:300]}", payload)


def one_multi_output(chk, rng, inst, kind, l_, N, b, cfg, rq, cell, payload, settings, LinearOperator):
    nb = tuple(inst.nb)
    c = 2 if b != 2 else 3  # number of columns different from the batch size unless the batch size is N
    rhs0 = ops.ri(rng, (*nb, N, c), -2, 2).double()
    lhs0 = ops.ri(rng, (*nb, l_, N), -2, 2).double() if kind == "sqrt_lhs" else None
    leaf_req = rq in ("all", "leaves")
    names = list(inst.names) if leaf_req else []
    rhs_req = rq in ("all", "rhs")
    lhs_req = rq in ("all", "lhs") and lhs0 is not None
    ev = torch.linalg.eigvalsh(inst.dense(inst.params()).detach())
    if float(ev.min()) <= 1e-6:
        chk.count("skipped:not-pd:multi")
        return
    # float64: eigh's backward loses eps/gap digits, so the eigh-based reference is used down to a relative gap of 1e-3; for
    # (nearly) repeated eigenvalues (integer Toeplitz columns produce them exactly) the reference inverse square root is the
    # Denman-Beavers iteration (plain torch, smooth in A, no eigenvalue gaps involved)
    use_db = kind == "sqrt_lhs" and ev.shape[-1] > 1 and float(((ev[..., 1:] - ev[..., :-1]).min(-1).values / ev.max(-1).values).min()) < 1e-3
    if use_db:
        chk.count("entry-multi:reference=denman-beavers")
    weights = {}

    def wfor(key, shape):  # the same non-uniform integer weights on both sides
        if key not in weights:
            w = ops.ri(rng, tuple(shape), 1, 4).double()
            w = w + torch.arange(w.numel(), dtype=torch.float64).reshape(w.shape) % 3  # never constant along any axis of size > 1
            weights[key] = w
        return weights[key]

    def side(is_op):
        P = inst.params(set(names))
        rhs = rhs0.clone().requires_grad_(rhs_req)
        lhs = None if lhs0 is None else lhs0.clone().requires_grad_(lhs_req)
        A = inst.build(P) if is_op else inst.dense(P)
        if kind == "sqrt_lhs":
            if is_op:
                res, iq = A.sqrt_inv_matmul(rhs, lhs)
            else:
                As = (A + A.mT) / 2
                if use_db:
                    Y, Z = As, torch.eye(N, dtype=As.dtype).expand_as(As)
                    for _ in range(40):
                        Y, Z = (Y + torch.linalg.inv(Z)) / 2, (Z + torch.linalg.inv(Y)) / 2
                    res = lhs @ (Z @ rhs)
                else:
                    lam, Q = torch.linalg.eigh(As)
                    res = lhs @ (Q @ ((Q.mT @ rhs) / lam.sqrt().unsqueeze(-1)))
                iq = (lhs * torch.linalg.solve(As, lhs.mT).mT).sum(-1)
            outs = [("sqrt", res), ("inv_quad", iq)]
        elif kind == "iq_cols":
            iq = A.inv_quad(rhs, reduce_inv_quad=False) if is_op else (rhs * torch.linalg.solve(A, rhs)).sum(-2)
            outs = [("inv_quad", iq)]
        else:
            if is_op:
                iq, ld = A.inv_quad_logdet(rhs, logdet=True, reduce_inv_quad=False)
            else:
                iq, ld = (rhs * torch.linalg.solve(A, rhs)).sum(-2), torch.logdet(A)
            outs = [("inv_quad", iq), ("logdet", ld)]
        inputs = [P[k] for k in names] + ([rhs] if rhs_req else []) + ([lhs] if lhs_req else [])
        return outs, inputs

    with ExitStack() as st:
        if kind == "sqrt_lhs":
            st.enter_context(settings.minres_tolerance(1e-9))
            st.enter_context(settings.num_contour_quadrature(40))
            st.enter_context(settings.max_cg_iterations(400))
        if cfg == "chol0":
            st.enter_context(settings.max_cholesky_size(0))
            st.enter_context(settings.cg_tolerance(1e-10))
            st.enter_context(settings.max_cg_iterations(200))
            st.enter_context(settings.max_lanczos_quadrature_iterations(50))
            st.enter_context(mock.patch.object(LinearOperator, "_probe_vectors_and_norms", eye_probes))
        torch.manual_seed(rng.randrange(2 ** 31))
        try:
            outs_i, in_i = side(True)
        except Exception as e:  # forward failure: not a gradient question
            chk.count("skipped:forward-raises")
            chk.count(f"skipped:forward-raises:multi:{kind}:{type(e).__name__}")
            return
        loss_i = sum((o * wfor(k, o.shape)).sum() for k, o in outs_i)
        gi = torch.autograd.grad(loss_i, in_i, allow_unused=True) if in_i else []
    outs_r, in_r = side(False)
    chk.case(f"{cell}|rhs={rhs0.flatten()[:4].tolist()}", nontrivial=True)
    chk.count("entry-multi:" + kind)
    tol = 5e-3 if kind == "sqrt_lhs" else (2e-4 if cfg == "chol0" else 1e-7)
    stochastic = cfg == "chol0"
    for (k, oi), (_, orf) in zip(outs_i, outs_r):
        if tuple(oi.shape) != tuple(orf.shape):
            chk.count("skipped:forward-shape")
            chk.count(f"skipped:forward-shape:multi:{kind}:{k}")
            return
        if not (stochastic and k == "logdet") and not close(oi.detach(), orf.detach(), False, tol * 10):
            chk.count("skipped:forward-value")
            chk.count(f"skipped:forward-value:multi:{kind}:{k}")
            return
    loss_r = sum((o * wfor(k, o.shape)).sum() for k, o in outs_r)
    gr = torch.autograd.grad(loss_r, in_r, allow_unused=True) if in_r else []
    labels = names + (["<rhs>"] if rhs_req else []) + (["<lhs>"] if lhs_req else [])
    for lab, a, bb, t in zip(labels, gi, gr, in_r):
        if a is None and bb is not None and bool((bb != 0).any()):
            chk.violation(cell + "/grad-none", f"{lab} {tuple(t.shape)} requires grad but backpropagation delivers None; dense reference "
                          f"{bb.flatten()[:6].tolist()}", payload)
            return
        a, bb = zeros_like_none(a, t), zeros_like_none(bb, t)
        if tuple(a.shape) != tuple(t.shape):
            chk.violation(cell + "/grad-shape", f"gradient w.r.t. {lab} has shape {tuple(a.shape)}, tensor {tuple(t.shape)}", payload)
            return
        if lab in inst.sym:
            a, bb = (a + a.mT) / 2, (bb + bb.mT) / 2
        if not close(a, bb, False, tol):
            chk.violation(cell + "/grad", f"weighted outputs {[k for k, _ in outs_i]} (per-batch / per-column weights): gradient w.r.t. {lab} {tuple(t.shape)}: impl "
                          f"{a.flatten()[:6].tolist()} vs dense reference {bb.flatten()[:6].tolist()} (max abs diff {float((a - bb).abs().max()):.3e})", payload)
            return
    chk.traces_validated += 1


def translator_cases(chk):
    """C07Funcs.lean (generated): cross-check the AST facts against the run-time objects."""
    import inspect
    import linear_operator.functions as F  # noqa
    import linear_operator.operators as O  # noqa
    import importlib
    from ..extract import c07_functions as fx
    funcs, provs = fx.generate()
    mods = {}
    for fn in fx.FUNC_FILES:
        mod = importlib.import_module("linear_operator.functions." + fn[:-3])
        for name, obj in vars(mod).items():
            if inspect.isclass(obj) and issubclass(obj, torch.autograd.Function) and obj.__module__ == mod.__name__:
                mods[name] = obj
    for f in funcs:
        cls = mods.get(f["name"])
        chk.case(f"C07/translator/func/{f['name']}", nontrivial=True, sample=False)
        if cls is None:
            chk.proof_break(f"translator(func {f['name']})", "class found by ast is not a run-time autograd Function")
            continue
        sig = inspect.signature(cls.forward)
        ps = list(sig.parameters.values())
        fixed = sum(1 for p in ps[1:] if p.kind in (p.POSITIONAL_ONLY, p.POSITIONAL_OR_KEYWORD))
        var = any(p.kind == p.VAR_POSITIONAL for p in ps)
        if fixed != f["fwdFixed"] or var != f["fwdVarargs"]:
            chk.proof_break(f"translator(func {f['name']})", f"forward signature at run time ({fixed}, *args={var}) vs ast ({f['fwdFixed']}, {f['fwdVarargs']})")
        else:
            chk.traces_validated += 1
    if set(mods) != {f["name"] for f in funcs}:
        chk.proof_break("translator(funcs)", f"run-time Functions {sorted(mods)} vs ast {sorted(f['name'] for f in funcs)}")
    for cname, prov in provs:
        cls = getattr(O, cname, None)
        if cls is None:
            continue  # not exported (private helper)
        chk.case(f"C07/translator/provider/{cname}", nontrivial=True, sample=False)
        owner = next((k.__name__ for k in cls.__mro__ if "_bilinear_derivative" in vars(k)), None)
        if owner != prov:
            chk.proof_break(f"translator(provider {cname})", f"run-time MRO resolves _bilinear_derivative to {owner}, ast table says {prov}")
        else:
            chk.traces_validated += 1
    exported = {n for n in dir(O) if inspect.isclass(getattr(O, n)) and issubclass(getattr(O, n), O.LinearOperator)}
    missing = exported - {c for c, _ in provs}
    if missing:
        chk.proof_break("translator(providers)", f"exported operator classes missing from the ast table: {sorted(missing)}")


# ---------------------------------------------------------------------------------------------- run
def gen_instances(chk):
    quick = chk.tier == "quick"
    res = {}
    combos = [((), "full"), ((2,), "full"), ((2,), "bcast")] if quick else [((), "full"), ((2,), "full"), ((2,), "bcast"), ((2, 3), "bcast"), ((1,), "full")]
    res[((2, 3), "cpat")] = ops.instances(chk.rng, (2, 3), 3, mode="full", only_cpat=True)  # ConstantMul broadcast patterns + rhs patterns
    res[((2, 1), "rpat1")] = ops.instances(chk.rng, (2, 1), 3, mode="full", only_cpat=True, rpat_only=True)  # operator batch (a,1) vs rhs batch (a,b)
    for ci, (batch, mode) in enumerate(combos):
        res[(batch, mode)] = ops.instances(chk.rng, batch, 3 if (quick or ci < 3) else chk.rng.choice([3, 4]), mode=mode)
    return res


def run(chk, only=None):
    chk.rule = ("catalogue of operator expression trees (every class with hand-written derivative code, nestings of depth <= 3, classes using the "
                "autograd default under hand-written parents) x batch shape x {full, broadcast (expanded stride-0) leaves} x number of vector pairs x "
                "subset of leaves requiring grad; entry points x rhs shape x memory_efficient x max_cholesky_size; a case is distinct by its cell, "
                "subset and random integer data; all are non-trivial (sizes >= 2, non-zero data); session 5: entry-model cells (to_dense / diagonal / "
                "getitem / sum through the implementation vs the Lean factors), bilinear-mixed cells (direct _bilinear_derivative calls with the mixed "
                "batch shapes Matmul.backward produces), entry-multi cells (sqrt_inv_matmul with lhs / inv_quad and inv_quad_logdet with reduce_inv_quad=False: per-batch, per-column upstream weights on every output, batch size = N and != N), entry-skiplogdet cells (skip_logdet_forward on/off x memory_efficient), translator cells "
                "(ast table of the 9 autograd Functions and of the provider of every operator class's _bilinear_derivative vs run-time objects)")
    chk.assumptions += ["torch.autograd applies the chain rule correctly to plain torch code (the dense reference) and to the library's backward formulas",
                        "dual numbers (eps^2 = 0) define the derivative of polynomial operators; floating point is not modelled (integer data are exact)",
                        "FFT-based Toeplitz products and factorisation / iterative paths are compared with tolerances (1e-9 / 1e-7 / 2e-4 on CG, Lanczos paths)",
                        "functions defined on symmetric matrices are compared along symmetric perturbations of dense symmetric leaves",
                        "factor-sensitive losses: eigenvector matrices are compared up to the implementation's column order / signs and only for a relative "
                        "eigenvalue gap >= 3e-2; pivoted Cholesky for the implementation's pivots; the Lanczos root / inverse root (defined up to an orthogonal "
                        "factor) in the symmetric gauge dR = 1/2 dA R^-T of the implementation's own root (the formula RootDecomposition.backward documents)"]
    part = only.split("/")[1] if only else None
    if part in (None, "translator"):
        translator_cases(chk)  # regenerates lean/LinOp/Generated/C07Funcs.lean BEFORE the build
    else:
        from ..extract import c07_functions as fx
        fx.generate()
    chk.prove("LinOp.Properties.C07", ["LinOp/C07", "LinOp/Core", "LinOp/Generated/C07Funcs.lean"])
    torch.set_default_dtype(torch.float32)
    insts_by = gen_instances(chk)
    lean_jobs = []
    if part in (None, "bilinear", "bilinear-sym"):
        bilinear_cases(chk, insts_by, lean_jobs, only)
        finish_lean_jobs(chk, lean_jobs)
    if part in (None, "denote"):
        denote_cases(chk, insts_by, only)
    if part in (None, "slots"):
        slots_cases(chk, insts_by)
    if part in (None, "bcast"):
        bcast_cases(chk)
    if part in (None, "entry"):
        entry_cases(chk, insts_by, only)
    if part in (None, "entry-model"):
        entry_model_cases(chk, insts_by, only)
    if part in (None, "bilinear-mixed"):
        bilinear_mixed_cases(chk, insts_by, only)
    if part in (None, "entry-skiplogdet"):
        skip_logdet_cases(chk, insts_by, only)
    if part in (None, "entry-multi"):
        multi_output_cases(chk, only)


def replay(chk, payload):
    p = payload.get("payload") or {}
    cell = p.get("cell")
    if not cell:
        print("replay names broken obligations / correspondence only:", json.dumps(p)[:1500])
        return run(chk)
    chk.rng = random.Random(f"C07:{p.get('seed', 0)}")
    chk.seed = p.get("seed", 0)
    chk.tier = p.get("tier", chk.tier)
    # the failing cell is re-run inside the full deterministic sequence (random values derive from the seed in order)
    run(chk)
